"""C20, interleaving part: the real RemoteLogHandler + Dispatcher + Module driven by several threads under the
deterministic scheduler (vlib.sched).

What runs concurrently in a frappy node: requests are serialised by Dispatcher._lock, but the clean-up of a closed
connection (handler.finish -> Dispatcher.remove_connection) runs outside that lock, and log records are emitted by any
thread (poll threads).  A scenario is
    pre      sequential prefix (subscriptions are set up)
    threads  2..3 threads, each with the requests / connection events of ONE connection of its own, or an emitter
             thread that only emits records
    post     sequential probe records for every module (show every subscription alive at the end)
Yield points (a schedule is the list of choices at these points): every access to the handler's table
(`subscriptions.setdefault/get/[]/[]=` and `pop/[]=/items()` of the per-module dicts: ONE yield before the access,
the access itself is atomic as under the GIL - `list(d.items())` is one access, a `for` loop over `d.items()` with a
send in its body is not), every message sent to a connection, every lock of the dispatcher.

Python only runs the code and records what came back; the verdict is Lean's `judgeConc` (Spec/C20.lean), the model's
final table is `conc_final`.
"""
import json

from vlib import sched as _sched

MODS = ['a', 'b', 'cc']
LEVELS = [10, 15, 20, 30, 40]


class YInner(dict):
    """per-module dict {conn: level}: one yield before each access, the access is atomic"""

    def __init__(self, sched, *args):
        super().__init__(*args)
        self._s = sched

    def pop(self, *args):
        self._s.yield_(('inner.pop',))
        return dict.pop(self, *args)

    def __setitem__(self, k, v):
        self._s.yield_(('inner.setitem',))
        dict.__setitem__(self, k, v)

    def items(self):
        self._s.yield_(('inner.items',))
        return dict.items(self)

    def copy(self):
        self._s.yield_(('inner.copy',))
        return dict.copy(self)


class YTable(dict):
    """RemoteLogHandler.subscriptions: {modname: {conn: level}}"""

    def __init__(self, sched):
        super().__init__()
        self._s = sched

    def _wrap(self, v):
        return YInner(self._s, v) if type(v) is dict else v

    def setdefault(self, k, default=None):
        self._s.yield_(('table.setdefault', k))
        if not dict.__contains__(self, k):
            dict.__setitem__(self, k, self._wrap(default))
        return dict.__getitem__(self, k)

    def get(self, k, default=None):
        self._s.yield_(('table.get', k))
        return dict.get(self, k, default)

    def __getitem__(self, k):
        self._s.yield_(('table.getitem', k))
        return dict.__getitem__(self, k)

    def __setitem__(self, k, v):
        self._s.yield_(('table.setitem', k))
        dict.__setitem__(self, k, self._wrap(v))

    def pop(self, *args):
        self._s.yield_(('table.pop',))
        return dict.pop(self, *args)


class Conn:
    def __init__(self, cid, sched):
        self.cid = cid
        self.got = []
        self._s = sched

    def send_reply(self, msg):
        self._s.yield_(('send', self.cid))
        self.got.append(msg)


def impl_conc(case, policy):
    """-> (scheduler, observation)   observation: {'pre': [[op, out]..], 'threads': [[[op, out]..]..], 'post': [...],
    'table': sorted [[m, cid, level]..], 'sched': result of the scheduler}"""
    import logging
    import mlzlog
    import frappy.protocol.dispatcher as fdisp
    from frappy.logging import RemoteLogHandler
    from frappy.modules import Module
    from props import c20

    s = _sched.Scheduler(policy=policy, max_steps=4000)
    c20._counter[0] += 1
    root = mlzlog.MLZLogger('fvc%d' % c20._counter[0])
    root.setLevel(logging.DEBUG)
    handler = RemoteLogHandler()
    handler.subscriptions = YTable(s)
    root.addHandler(handler)
    with s.patched(fdisp, threading=s.threading):
        srv = c20._SrvStub(root)
        mods = case['mods']
        modobjs = {}
        for m in mods:
            class Mod(Module):
                def earlyInit(self):
                    pass
            obj = Mod(m, root.getChild(m), {'description': ''}, srv)
            srv.secnode.add_module(obj, m)
            modobjs[m] = obj
        conns = {}
        every = []
        recno = [0]

        def conn(c):
            if c not in conns:
                conns[c] = Conn(c, s)
                every.append(conns[c])
                srv.dispatcher.add_connection(conns[c])
            return conns[c]

        def do(op):
            kind = op[0]
            try:
                if kind == 'logging':
                    srv.dispatcher.handle_request(conn(op[1]), ('logging', op[2], op[3]))
                    return 'ok'
                if kind == 'ident':
                    srv.dispatcher.handle_request(conn(op[1]), ('*IDN?', None, None))
                    return 'ok'
                if kind == 'disconnect':
                    srv.dispatcher.remove_connection(conn(op[1]))
                    return 'ok'
                if kind == 'emit':
                    recno[0] += 1
                    tag = 'rec%d.' % recno[0]
                    err = None
                    try:
                        modobjs[op[1]].log.log(op[2], tag)
                    except _sched.SchedAbort:
                        raise
                    except Exception as e:     # the logging call raised in the emitting thread
                        err = type(e).__name__
                    return ('emit', tag, err)
            except _sched.SchedAbort:
                raise
            except Exception:
                return 'error'
            return 'error'

        def deliveries(tag, m):
            got = []
            for cn in every:
                for msg in cn.got:
                    if msg[0] == 'log' and isinstance(msg[2], str) and msg[2].startswith(tag):
                        got.append(cn.cid if msg[1].split(':')[0] == m else 1000 + cn.cid)
            return sorted(got)

        def resolve(trace):
            out = []
            for op, r in trace:
                if isinstance(r, tuple):
                    out.append([op, 'error' if r[2] else deliveries(r[1], op[1])])
                else:
                    out.append([op, r])
            return out

        # connections of the scenario exist from the start (as after the TCP accept)
        for op in case['pre'] + [o for th in case['threads'] for o in th]:
            if op[0] != 'emit':
                conn(op[1])
        pre = [(op, do(op)) for op in case['pre']]
        thr = [[] for _ in case['threads']]

        def body(k):
            for op in case['threads'][k]:
                thr[k].append((op, do(op)))

        for k in range(len(case['threads'])):
            s.spawn('T%d' % k, body, (k,))
        result = s.run(wall_timeout=20.0)
        post = [(op, do(op)) for op in case['post']]
        table = sorted([m, cn.cid, lev] for m, inner in dict.items(handler.subscriptions)
                       for cn, lev in dict.items(inner))
    c20.forget_loggers(root.name)
    obs = {'pre': resolve(pre), 'threads': [resolve(t) for t in thr], 'post': resolve(post), 'table': table,
           'sched': {k: result[k] for k in ('deadlock', 'aborted', 'errors', 'alive')},
           'complete': all(len(t) == len(c) for t, c in zip(thr, case['threads']))}
    return s, obs


def gen_level(rng):
    return rng.choice(['debug', 'info', 'warning', 'error', 'off', 'off', 'INFO', 20, 40, 'loud'])


def gen_conc(rng):
    nm = rng.choice([1, 2, 2, 3])
    mods = MODS[:nm]
    nthreads = rng.choice([2, 2, 3])
    pre = []
    # bystanders (connections 10..): subscribe in the prefix and stay quiet
    for b in range(rng.choice([1, 2])):
        pre.append(['logging', 10 + b, rng.choice([None] + mods), rng.choice(['debug', 'info', 'warning'])])
    # the active connections may start subscribed
    for c in range(1, nthreads + 1):
        if rng.random() < 0.7:
            pre.append(['logging', c, rng.choice([None] + mods), rng.choice(['debug', 'info', 'error'])])
    rng.shuffle(pre)
    threads = []
    emitter = rng.random() < 0.6
    for k in range(nthreads):
        c = k + 1
        if emitter and k == nthreads - 1:
            threads.append([['emit', rng.choice(mods), rng.choice(LEVELS)] for _ in range(rng.choice([1, 2]))])
            continue
        ops = []
        for _ in range(rng.choice([1, 1, 2])):
            r = rng.random()
            if r < 0.5:
                ops.append(['logging', c, rng.choice([None] + mods + mods), gen_level(rng)])
            elif r < 0.7:
                ops.append(['ident', c])
            elif r < 0.85:
                ops.append(['emit', rng.choice(mods), rng.choice(LEVELS)])
            else:
                ops.append(['disconnect', c])
                break
        threads.append(ops)
    post = []
    for m in mods:
        post.append(['emit', m, 40])
        post.append(['emit', m, 10])
    return {'mods': mods, 'pre': pre, 'threads': threads, 'post': post}


CATALOGUE = [
    # disconnect clean-up racing with a request of another connection for the same module
    {'mods': ['a', 'b'], 'pre': [['logging', 1, None, 'debug'], ['logging', 10, 'a', 'info']],
     'threads': [[['disconnect', 1]], [['logging', 2, 'a', 'debug']]],
     'post': [['emit', 'a', 40], ['emit', 'b', 40]]},
    # two connections change their level for the same module
    {'mods': ['a'], 'pre': [['logging', 1, 'a', 'debug'], ['logging', 2, 'a', 'debug']],
     'threads': [[['disconnect', 1]], [['disconnect', 2]]],
     'post': [['emit', 'a', 40]]},
    # a record emitted while another connection subscribes / a connection goes away
    {'mods': ['a'], 'pre': [['logging', 10, 'a', 'debug'], ['logging', 11, 'a', 'debug']],
     'threads': [[['emit', 'a', 20]], [['logging', 1, 'a', 'debug']]],
     'post': [['emit', 'a', 40]]},
    {'mods': ['a', 'b'], 'pre': [['logging', 10, None, 'debug'], ['logging', 1, None, 'debug'], ['logging', 11, None, 'info']],
     'threads': [[['emit', 'a', 20], ['emit', 'b', 20]], [['disconnect', 1]]],
     'post': [['emit', 'a', 40], ['emit', 'b', 40]]},
    # re-identification racing with a disconnect and an emitter
    {'mods': ['a', 'b'], 'pre': [['logging', 1, None, 'info'], ['logging', 2, None, 'info'], ['logging', 10, 'b', 'debug']],
     'threads': [[['ident', 1], ['logging', 1, 'a', 'error']], [['disconnect', 2]], [['emit', 'b', 30]]],
     'post': [['emit', 'a', 40], ['emit', 'b', 40], ['emit', 'a', 15]]},
]


def wire(trace):
    from props import c20
    return [[c20.wire_ops([op])[0], out] for op, out in trace]


def requests(case, obs):
    from props import c20
    return [{'p': 'C20', 'k': 'conc_final', 'mods': case['mods'], 'pre': c20.wire_ops(case['pre']),
             'threads': [c20.wire_ops(t) for t in case['threads']]},
            {'p': 'C20', 'k': 'judge_conc', 'mods': case['mods'], 'pre': wire(obs['pre']),
             'threads': [wire(t) for t in obs['threads']], 'post': wire(obs['post'])}]


def run_impl(case, policy):
    """one scheduled run of the real code -> (scheduler, obs, early signature or None)"""
    s, obs = impl_conc(case, policy)
    sc = obs['sched']
    if sc['deadlock'] or sc['aborted'] or sc['alive'] or not obs['complete']:
        return s, obs, 'C20:conc:no-termination'
    if sc['errors']:
        return s, obs, 'C20:conc:exception-escaped:' + '+'.join(sorted(set(sc['errors'].values())))
    return s, obs, None


def verdict(case, obs, ans):
    """(model table, signature) from the two driver answers of `requests(case, obs)`"""
    for a in ans:
        if 'driver_error' in a:
            raise RuntimeError(f'driver error: {a}')
    model_table = sorted(ans[0]['table'])
    sig = None
    bad = ans[1]['bad']
    if bad is not None:
        phase, idx = bad
        n = len(case['threads'])
        if phase == 0:
            sig = 'C20:conc:prefix'
        elif phase <= n:
            op, out = obs['threads'][phase - 1][idx]
            if op[0] == 'emit':
                sig = 'C20:conc:emit-raised' if out == 'error' else 'C20:conc:bystander-delivery'
            else:
                sig = 'C20:conc:request-failed'
        else:
            sig = 'C20:conc:setting-after-interleaving'
    return model_table, sig


def evaluate(ctx, case, policy):
    """-> (scheduler, obs, model table, signature or None)"""
    s, obs, early = run_impl(case, policy)
    if early:
        return s, obs, None, early
    model_table, sig = verdict(case, obs, ctx.driver.batch(requests(case, obs)))
    return s, obs, model_table, sig


def describe(case, obs, choices):
    return (f'mods={case["mods"]} prefix={case["pre"]} threads={obs["threads"]} probes afterwards={obs["post"]} '
            f'table={obs["table"]} schedule={choices}')


def run_part(ctx, res):
    import os
    cdir = os.path.join(ctx.verif, 'corpus', 'C20')
    corpus = []
    if os.path.isdir(cdir):
        for fn in sorted(os.listdir(cdir)):
            c = json.load(open(os.path.join(cdir, fn)))
            if c['kind'] == 'conc':
                corpus.append(c)
    reported = set()
    pending = []          # (case, obs, choices, switches, early signature): judged in one batch per scenario

    def one(case, policy):
        s, obs, early = run_impl(case, policy)
        choices = [c for _, c, _ in s.choices]
        switches = sum(1 for n, c, d in s.choices if c != d)
        pending.append((case, obs, choices, switches, early))
        return s

    def flush():
        reqs = []
        for case, obs, choices, switches, early in pending:
            if not early:
                reqs += requests(case, obs)
        answers = ctx.driver.batch(reqs) if reqs else []
        k = 0
        for case, obs, choices, switches, early in pending:
            if early:
                model_table, sig = None, early
            else:
                model_table, sig = verdict(case, obs, answers[k:k + 2])
                k += 2
            res.evaluations += 1
            res.traces += 1
            res.count('conc.threads=%d' % len(case['threads']))
            res.count('conc.preemptions=%s' % min(switches, 3))
            if switches:
                res.nontriv({'case': case, 'choices': choices})
            if sig is None and ctx.model_ok and model_table is not None and model_table != obs['table']:
                res.disagreements.append({'case': {'kind': 'conc', 'case': case, 'choices': choices},
                                          'model': model_table, 'impl': obs['table']})
            if sig is not None and sig not in reported:
                reported.add(sig)
                res.violations.append({'sig': sig, 'what': sig + ': ' + describe(case, obs, choices),
                                       'case': {'kind': 'conc', 'case': case, 'choices': choices}})
            if not any(x.get('kind') == 'conc' for x in res.samples) and switches:
                res.samples.append({'kind': 'conc', 'case': case, 'threads': obs['threads'], 'post': obs['post'],
                                    'choices': choices})
        del pending[:]

    # corpus entries carry their schedule: replayed exactly
    for c in corpus:
        one(c['case'], _sched.ReplayThenDefault(c['choices']))
    flush()
    big = ctx.tier == 'thorough' or ctx.escalated
    for case in CATALOGUE:
        for _ in _sched.explore(lambda pol, case=case: (one(case, pol), None),
                                max_preemptions=2, max_runs=ctx.budget(60, 600), rng=ctx.rng):
            pass
        flush()
    for _ in range(ctx.budget(40, 800)):
        case = gen_conc(ctx.rng)
        for _ in _sched.explore(lambda pol, case=case: (one(case, pol), None),
                                max_preemptions=2 if big else 1, max_runs=ctx.budget(12, 40), rng=ctx.rng):
            pass
        if len(pending) > 400:
            flush()
    flush()


def replay(ctx, rp):
    case = rp['case']['case']
    s, obs, model_table, sig = evaluate(ctx, case, _sched.ReplayThenDefault(rp['case']['choices']))
    print('case    :', json.dumps(case))
    print('threads :', obs['threads'])
    print('post    :', obs['post'])
    print('table   :', obs['table'], ' model:', model_table)
    print('sched   :', obs['sched'])
    print('verdict :', sig)
    return 1 if sig else 0
