"""C06 — The node's self-description is true of its behaviour.

Same generated nodes as C04 (props/c04.py: class generator, node -> JSON, oracle tables), plus every shipped
configuration under cfg/ that instantiates without hardware.  For each node: describe, a systematic sweep of requests
(change / read / do / activate) over every described AND every undescribed name, describe again.  The Lean model
must produce the same report; the Lean monitors compare the implementation's report with the implementation's
behaviour (readonly => refused, constant => read returns it, undescribed => NoSuch... and nothing subscribed),
the client datatype rebuilt from the described datainfo with the node's own verdict, and every emitted value with
the described datainfo.
"""
import glob
import json
import logging
import os
import random
from pathlib import Path

from check import Result
from props import c04
from props.c04 import canonj, canon
from vlib import dtcodec, gen as vgen

META = {
    'level_text': 'Theorems for all well-formed nodes and all oracles: describe_lists_exported (the report lists exactly the '
                  'exported (module, wire name) pairs, none twice, and exactly the exported modules) + listsExactlyB_sound (the monitor '
                  'accepts only such reports), described_is_dispatched / described_command_is_dispatched '
                  '(datainfo / readonly / constant / "has an argument" of an entry are those of the Param / Command the dispatcher resolves for that name), '
                  'flags_predict (+ _readonly / _writable), constant_reads, kind_honoured (a described command can not be changed / read / subscribed, '
                  'a described parameter not executed), undescribed_unreachable (read / change / do / '
                  'activate => NoSuch..., no call, node unchanged, nothing subscribed) + undescribed_module_unreachable, '
                  'command_datainfo_equiv (the payloads the described command datainfo accepts - none without `argument` - are exactly those for which '
                  'the command function is called; all others are refused without a call), model_change_probe_ok / model_read_probe_ok / model_do_probe_ok '
                  '(the probe specification the monitor applies to the implementation holds of the model), '
                  'describe_stable (any history), emits_importable / emits_importable_history (updates emitted by change AND read, '
                  'along any history) and described_datainfo_equiv relative to the datatype-oracle laws stated for the node\'s own datatypes (ImportLaw / AcceptLaw), '
                  'cache_valid + read_reply_importable (the cache only ever holds values the datatype produced, whatever module code '
                  'assigns; read replies and snapshots are importable), class_props_derived (interface class = highest SECoP base class of the class chain, features = direct Feature '
                  'mixins; derived by the model from the MRO given as data), auto_props_ignore_cfg / report_class_props / class_props_cfg_independent (Module.__init__ applies the '
                  'configuration first and assigns implementation / interface_classes / features afterwards: for EVERY configuration the report states the interface class, '
                  'features and implementation of the implementing class), cfg_prop_applied (all other declared module properties follow the configuration), table fact module_decls_auto, '
                  'finish_constRO / constRO_of_finish (readonly / constant of a parameter derived from class + configuration + Parameter.finish: a constant parameter is read-only by construction), '
                  'change_refused_of_datatype + model_change_probe_ok with the new clause (a payload the described datainfo of a writable parameter excludes is refused and nothing is written), '
                  'and, for parameters whose datatype is a tree of the datatype model (Node/DescribeDT: ONE tree gives the datainfo of the report and the validation of requests; the instance '
                  'datatype = copy of the class datatype + the limits of the configuration): derived_datainfo_equiv_partial (AcceptLaw PROVED from C03 rebuild_equiv / rebuild_snaps for every well-formed tree whose '
                  'scaled limits are on the grid, or off the grid with finite grid values over a GridStable carrier: the client rebuilt from the exported datainfo answers every payload as the node does), '
                  'cfg_limit_stored / instance_limit_from_cfg (a configured limit is stored as given), configured_scaled_offgrid (a scaled limit the configuration sets OFF the grid: described as round(limit/scale), '
                  'client = node on every payload - the repaired finding), '
                  'configured_scaled_described (a scaled limit set by the configuration on the grid: the integer the report states denotes exactly that limit, whichever side of the whole number the float '
                  'quotient limit/scale lands on, and client = node on every payload), described_datainfo_equiv_derived + model_change_probe_ok_derived (node level, no oracle assumption), '
                  'derived_datainfo_equiv_statement (every well-formed tree, no condition) stays a statement: missing are GridStable for the carrier and finiteness of the limits\' grid values.  '
                  'create_modules_registers (Node/CreateModules models get_module_instance / add_module / get_module with the recursive resolution of Attached properties / the loop of create_modules with Pinatas: '
                  'for EVERY configuration - any declaration order, attachments, scans - the list the report is made from is exactly the created module objects with export=True, in their order of creation; a module created before its own turn is registered like any other), '
                  'create_modules_creates (no error counted => every configured module exists afterwards), create_modules_once, allRegistered_of_registeredOK (what the monitor on the implementation demands follows), describe_follows_registration / report_lists_created_exported (the modules of the report = the created objects with the flag set), '
                  'retype_reported / retype_dispatched / retype_other_stable / retype_other_module / retype_same_modules (Node/Retype: module code gives a LIVE parameter a new datatype - the entry of that parameter states the new datainfo, the dispatcher validates with it, every other entry, the module list and the module properties are unchanged), '
                  'stableExceptB_sound, live_scaled_described (configured_scaled_described for a limit set at run time by datatype.set_properties).  '
                  'Tied to secnode.py / params.py / modulebase.py / properties.py / dispatcher.py / datatypes.py by correspondence runs (create_modules: configuration order + attached names + Pinata scans -> SecNode.modules / SecNode.export DERIVED by the model; '
                  'later phases of a node whose modules changed datatypes of live parameters: the node DERIVED from the previous phase by setDt, the live datatype DERIVED from class + configuration + run-time limits; model report = real report, the module property lists DERIVED from '
                  'class + configuration; model step = real step for every request of the sweep; datatype stream: instance datatype DERIVED from class datatype + configured limits, described datainfo DERIVED from the '
                  'instance datatype, verdicts of node datatype and rebuilt client datatype on the boundary catalogue DERIVED by the model) and report-vs-behaviour monitors on generated nodes and on the shipped configurations '
                  '(boundary catalogue of every described datainfo sent as change requests and judged against the client datatype rebuilt from the report).',
    'level_note': 'Trusted: Lean kernel + axioms; the order test of a LimitsType pair is classified with the limit checks (not '
                  'expressible in the described tuple datainfo); the datatype layer is an oracle (C01-C03): emits_importable, '
                  'described_datainfo_equiv and command_datainfo_equiv are proved relative to explicit oracle laws (about the datatypes of the node) and the corresponding facts are tested '
                  'on the implementation with the real client datatypes (for described_datainfo_equiv the law is discharged for the model datatypes under LawfulFloatOps / CompatLaws of the float carrier, proved for Rat, '
                  'assumed for binary64); repaired finding (5b4d2cd): a scaled limit the configuration puts off the grid - node and described datainfo differed on the payload one step outside the described range, they agree now; for off-grid limits the proof additionally needs GridStable (round((k*scale)/scale) = k: proved for Rat, assumed for binary64 with |k| < 2^51, re-tested by C03 in every run); property lists of ACCESSIBLES (description, group, visibility) are data taken from the real objects, '
                  'those of MODULES are derived by the model from the declared properties of the class, class-level values and the configuration; strict JSON: the wire text of the '
                  'real report must parse with Lean\'s JSON parser (the model has no serialiser).',
    'trusted': [
        'datatype oracle laws: a client datatype rebuilt from a datainfo accepts what the original accepts, and imports the '
        'export of every validated value (C01-C03); the same for the argument datatype of a command',
        'exportProperties() of parameters and commands (which properties are non-default) is taken from the real objects as data; '
        'for modules the declared properties (name, external name, export flag, default) and the validated configuration values are data, the rest is derived',
        'shipped configurations: driver calls are not observed there (only replies and subscriptions); they are probed only after the generated nodes showed no violation',
    ],
    'modelled_not_verified': [
        'create_modules: errors (unknown attached name, cyclic dependency) are only counted by the model, the correspondence is run on nodes frappy builds without errors; '
        'io modules auto-created by HasIO (add_module inside a constructor) are not modelled - on the shipped configurations only the registration monitor runs',
        'live datatype changes: only set_properties(min / max / unit) on numeric top-level datatypes is generated; replacing the datatype object of a live parameter is not',
        'configuration keys of a datatype other than min / max (unit, fmtstr, resolutions, lengths): generated and judged by the monitors, but they reach the model through the tree read from the real object',
        'datatype stream: LimitsType / StatusType / TextType parameters are left out (not one of the ten kinds of the datatype model)',
        'the MRO itself (Python C3 linearisation) and the qualified class name are data from the real class',
        'validation of a configured property value by the property\'s datatype (a refused value produces no node)',
        'main-unit substitution ($) — the datainfo is taken after configuration',
        'json.dumps of the report (the text the real node produces is parsed in Lean; the model does not serialise)',
    ],
    'assumptions': ['derived_datainfo_equiv_partial / configured_scaled_described / configured_scaled_offgrid: LawfulFloatOps + CompatLaws of the float carrier (C03); scaled limits on the grid (Exportable), or '
                    'GridStable + finite grid values of the limits (LimitsDescribable)',
                    'Node.WF: distinct module names, distinct wire names per module, predefined names used for their kind',
                    'model_change_probe_ok: NoForeignReadOnly (datatypes, hooks and drivers do not use the error class ReadOnly for their own refusals)',
                    'report_class_props: AutoDecls (the class declares implementation / interface_classes / features as exported properties under these names; '
                    'proved for frappy\'s Module from the generated table)'],
}

PID = 'C06'


# ----------------------------------------------------------------------------------------
def report_json(desc):
    """the implementation's report in the shape the model prints"""
    mods = []
    for mname, md in desc['modules'].items():
        accs = []
        for aname, ad in md['accessibles'].items():
            di = ad.get('datainfo')
            kind = 'command' if isinstance(di, dict) and di.get('type') == 'command' else 'param'
            accs.append({'name': aname, 'kind': kind, 'datainfo': canonj(di),
                         'readonly': ad.get('readonly') if kind == 'param' else None,
                         'constant': canonj(ad['constant']) if 'constant' in ad else None,
                         'props': [[k, canonj(v)] for k, v in ad.items() if k not in ('datainfo', 'readonly', 'constant')],
                         'argument': (di.get('argument') is not None) if kind == 'command' else None})
        mods.append({'name': mname, 'accs': accs,
                     'props': [[k, canonj(v)] for k, v in md.items() if k != 'accessibles']})
    return mods


def norm_report(rep):
    """order of the property lists is not part of the observation"""
    return [{'name': m['name'], 'props': sorted(m['props']),
             'accs': [dict(a, props=sorted(a['props'])) for a in m['accs']]} for m in rep]


def subs_state(node):
    d = node.dispatcher
    return (sorted((k, sorted(c.cid for c in v)) for k, v in d._subscriptions.items() if v),
            sorted(c.cid for c in d._active_connections))


FALSY = [0, 0.0, False, '', [], {}]      # JSON values that are not null but false in Python


# ----------------------------------------------------------------------------------------
# boundary catalogue of a described datainfo ("payloads from the datatype boundary catalogues")
# ----------------------------------------------------------------------------------------
def quotient_class(k, scale):
    """how the float quotient (k*scale)/scale relates to the grid index k: exact / below / above (the same classes as
    harness/props/c03.py uses for its scaled leaves); None when k*scale is not a grid point in the strict sense"""
    try:
        x = k * scale
        q = x / scale
        if x in (float('inf'), float('-inf')) or int(round(q)) != k or float(int(round(q)) * scale) != x:
            return None
    except (OverflowError, ValueError):
        return None
    return 'exact' if q == k else 'below' if q < k else 'above'


def strict_json(v):
    """can a client put this value on the wire at all (JSON without NaN / Infinity)"""
    try:
        json.dumps(v, allow_nan=False)
        return True
    except (ValueError, TypeError):
        return False


def _tree(dt):
    """datatype -> tree of vlib.dtcodec (LimitsType / StatusType as the tuples they are described as)"""
    from frappy.datatypes import TupleOf
    try:
        return dtcodec.dt_to_tree(dt)
    except ValueError:
        if isinstance(dt, TupleOf):
            try:
                return {'t': 'tuple', 'elems': [_tree(m) for m in dt.members]}
            except Exception:
                return None
        return None
    except Exception:
        return None


def _leaf_boundaries(rng, lt):
    """wire values at and around every limit a leaf states; the ones nearest to the limits first"""
    t = lt['t']
    if t == 'scaled':
        kb = vgen.grid_bounds(lt)
        near = [] if kb is None else [kb[0] - 1, kb[1] + 1, kb[0], kb[1], kb[0] + 1, kb[1] - 1]
        return near, [x for x in vgen.boundary_wire_ints(lt) if x not in near]
    if t == 'int':
        lo, hi = lt['min'], lt['max']
        near = [lo - 1, hi + 1, lo, hi, lo + 1, hi - 1]
        return near, [float(lo), float(hi), lo - 0.5, hi + 0.5, float(hi) + 1.0, float(lo) - 1.0, lo - 2, hi + 2]
    if t == 'double':
        near = []
        for lim, sign in ((vgen._f(lt['min']), -1), (vgen._f(lt['max']), 1)):
            prec = max(abs(lim * vgen._f(lt['rr'])), vgen._f(lt['ar']))       # the tolerance band of FloatRange.validate
            near += [lim, lim + sign * prec * 0.5, lim + sign * prec * 2, lim + sign * 1.0]
        nums = [x for x in vgen.boundary_numbers(rng, lt) if isinstance(x, (int, float)) and not isinstance(x, bool)]
        return near, [x for x in nums if abs(x) < 1e300]
    if t in ('string', 'blob'):
        groups = vgen.length_variants(rng, lt, True, grouped=True)
        return groups[0], [x for g in groups[1:] for x in g]
    if t == 'enum':
        vals = [v for _, v in lt['members']]
        return [min(vals) - 1, max(vals) + 1], vals + [n for n, _ in lt['members']] + ['nope', 1.0, 0.5]
    if t == 'bool':
        return [2, -1], [True, False, 0, 1, 1.0, 'true']
    return [], []


def boundary_catalogue(rng, trees, near_cap, far_cap):
    """wire payloads around the limits of the given datatype trees (the CLIENT datatype rebuilt from the described
    datainfo and the node's own datatype): for every leaf of a valid value the values at / next to each of its limits,
    wrong lengths and arities of every container.  -> list of payloads (JSON values), the `near` ones (limit, limit +- 1
    step) sampled to near_cap, the others to far_cap"""
    near, far = [], []
    for tree in trees:
        if tree is None:
            continue
        try:
            v = vgen.gen_valid(rng, tree)
            if v is None:
                continue
            wire = json.loads(json.dumps(vgen.to_wire(rng, tree, v)))
        except Exception:
            continue
        kinds = ('double', 'int', 'scaled', 'string', 'blob', 'enum', 'bool')
        for path, lt in vgen.leaf_paths(tree, wire, kinds):
            a, b = _leaf_boundaries(rng, lt)
            near += [vgen.subst(wire, path, x) for x in a]
            far += [vgen.subst(wire, path, x) for x in b]
        try:
            far += vgen.shape_variants(rng, tree, wire)
        except Exception:
            pass
        far.append(wire)
    near = [x for x in near if strict_json(x)]
    far = [x for x in far if strict_json(x)]
    if len(near) > near_cap:
        near = rng.sample(near, near_cap)
    if len(far) > far_cap:
        far = rng.sample(far, far_cap)
    return near + far


def client_datatype(di, name):
    """the datatype a client builds from a described datainfo (None when get_datatype refuses it)"""
    from frappy.datatypes import get_datatype
    try:
        return get_datatype(json.loads(json.dumps(di)), name)
    except Exception:
        return None


def client_accepts(cdt, payload):
    """does the client datatype import and validate the payload (JSON round trip first: what arrives is JSON)"""
    value = json.loads(json.dumps(payload))
    return c04.oracle_call(lambda: cdt.validate(cdt.import_value(value)))[0] == 'ok'


def do_payloads(rng, kind, argspec):
    """payloads of the `do` requests aimed at one name: for a command no payload, an 'empty' JSON value, a junk value and
    (where the generator knows the argument datatype) a valid one and one from the boundary catalogue"""
    if kind != 'command':
        return [rng.choice([None, None, 1, 0])]
    out = [None, rng.choice(FALSY), rng.choice(c04.JUNK)]
    if argspec is not None:
        out += [c04.gen_valid(rng, argspec), c04.gen_payload(rng, argspec)[0]]
    return out


def sweep_steps(rng, node, nodespec, cats=None, nchange=0, focus=None):
    """requests at every described and undescribed name of the node (focus: only at these (module, attribute) pairs -
    a later phase of a node whose modules changed the datatypes of these live parameters)"""
    from frappy.params import Parameter
    idx = {(m, a): (kind, spec) for m, a, kind, spec, _ in (c04.spec_index(nodespec) if nodespec else [])}
    steps = []
    acts = []
    for mname, modobj in node.secnode.modules.items():
        for attr, aobj in modobj.accessibles.items():
            if focus is not None and (mname, attr) not in focus and getattr(aobj, 'constant', None) is None:
                continue      # (constants are read in every phase: a described constant reads as exactly that constant)
            names = {attr, '_' + attr}
            if isinstance(aobj.export, str):
                names.add(aobj.export)
            cls_aobj = type(modobj).__bases__[0].accessibles.get(attr)
            if cls_aobj is not None and isinstance(cls_aobj.export, str):
                names.add(cls_aobj.export)
            kind, dtspec = idx.get((mname, attr), ('param' if isinstance(aobj, Parameter) else 'command', None))
            for name in sorted(names):
                spec = '%s:%s' % (mname, name)
                for rk in ('change', 'read', 'do'):
                    if rk == 'change':
                        datas = [c04.gen_payload(rng, dtspec if kind == 'param' else None)[0] if rng.random() < 0.3 else (
                            c04.gen_valid(rng, dtspec) if (kind == 'param' and dtspec) else rng.choice(c04.JUNK))]
                    elif rk == 'do':
                        datas = do_payloads(rng, kind, dtspec)
                    else:
                        datas = [None]
                    for data in datas:
                        steps.append({'kind': rk, 'spec': spec, 'data': data,
                                      'script': rng.choice(['none', 'value_valid', 'value_valid', 'raise_secop']),
                                      'seed': rng.randrange(1 << 30)})
                acts.append((mname, name))
        acts.append((mname, None))
    # the boundary catalogue of every described datainfo, sent as `change` requests (a parameter described read-only must
    # refuse them all; for a writable one the described datainfo predicts which are refused)
    for (mname, aname), (cdt, payloads) in (cats or {}).items():
        if focus is not None and (mname, node.secnode.modules[mname].accessiblename2attr.get(aname)) not in focus:
            continue
        pobj = node.secnode.modules[mname].parameters.get(node.secnode.modules[mname].accessiblename2attr.get(aname))
        for data in payloads[:nchange if pobj is not None and not pobj.readonly else 2]:
            steps.append({'kind': 'change', 'spec': '%s:%s' % (mname, aname), 'data': data,
                          'script': rng.choice(['none', 'none', 'value_valid']), 'seed': rng.randrange(1 << 30)})
    # faults inside the module: it assigns values its own datatype refuses (wrong kind, out of range, too long, NaN),
    # then a client reads the parameter (and the snapshot of a later `activate` is judged as well)
    if nodespec is not None:
        for mname, modobj in node.secnode.modules.items():
            for attr, pobj in modobj.parameters.items():
                if not isinstance(pobj.export, str) or pobj.constant is not None:
                    continue
                if focus is not None and (mname, attr) not in focus:
                    continue
                for raw in rng.sample(c04.BAD_RAW, 3):
                    steps.append({'kind': 'assign', 'spec': '%s:%s' % (mname, attr), 'data': raw, 'script': 'none', 'seed': 1})
                    steps.append({'kind': 'read', 'spec': '%s:%s' % (mname, pobj.export), 'data': None,
                                  'script': 'value_valid', 'seed': rng.randrange(1 << 30)})
    for spec in ('zz:value', 'zz'):
        for rk in ('change', 'read', 'do'):
            steps.append({'kind': rk, 'spec': spec, 'data': None if rk != 'change' else 1, 'script': 'none', 'seed': 1})
    acts.append(('zz', None))
    acts.append(('zz', 'value'))
    return steps, acts


def prop_ser(po, val):
    """a property value: [canonical form of the Python value (what `val != po.default` compares), the text
    exportProperties would put into the report]"""
    key = canon(val)
    try:
        val = po.datatype.export_value(val)
    except AttributeError:
        pass
    return [key, canonj(val)]


def module_init(mycls, mcfg):
    """what Module.__init__ starts from, as data for the model: the declared properties of the class, class-level values,
    the configuration entries (values validated by the property's datatype, serialised), the qualified class name"""
    from frappy.properties import UNSET
    decls, preset, cfg = [], [], []
    for pn, po in mycls.propertyDict.items():
        decls.append([pn, po.extname or '', bool(po.export), po.export == 'always'] + prop_ser(po, po.default))
        if po.value is not UNSET:
            preset.append([pn] + prop_ser(po, po.value))
        value = mcfg.get(pn)
        if isinstance(value, dict):
            value = value.get('value')
        if value is not None:
            cfg.append([pn] + prop_ser(po, po.datatype.validate(value)))
    return {'decls': decls, 'preset': preset, 'cfg': cfg, 'impl': f'{mycls.__module__}.{mycls.__name__}'}


def param_init(mycls, modobj, attr, acfg):
    """how readonly / constant of a parameter come about, as data for the model: the values of the class-level Parameter
    object and the configuration entries (a configured constant converted by the parameter's datatype)"""
    cls_p = mycls.accessibles[attr]
    pobj = modobj.parameters[attr]
    acfg = acfg if isinstance(acfg, dict) else {}
    cc = acfg.get('constant')
    return {'clsReadonly': bool(cls_p.readonly), 'clsConstant': None if cls_p.constant is None else canon(cls_p.constant),
            'cfgReadonly': None if acfg.get('readonly') is None else bool(acfg['readonly']),
            'cfgConstant': None if cc is None else canon(pobj.datatype(cc))}


def add_inits(node, rec, cfgs):
    """attach `init` to every module of the node JSON (cfgs: module name -> its configuration dict) and `pinit` to
    every parameter"""
    for mj in rec['node']['modules']:
        modobj = node.secnode.modules[mj['name']]
        mycls, = type(modobj).__bases__
        for aj in mj['accs']:
            if aj['kind'] == 'param' and mj['name'] in cfgs:
                try:
                    aj['pinit'] = param_init(mycls, modobj, aj['attr'], cfgs[mj['name']].get(aj['attr']))
                except Exception:
                    aj['pinit'] = None
        try:
            # a module that is not in the configuration (made by a Pinata): its configuration is not known here
            mj['init'] = module_init(mycls, cfgs[mj['name']]) if mj['name'] in cfgs else None
        except Exception:
            mj['init'] = None      # a property value the harness cannot serialise: the property list stays data


def generated_cfgs(nodespec):
    """the module configurations c04.build_node makes from a node spec, as far as module properties are concerned"""
    cfgs = {}
    topo = nodespec.get('topology') or {'pinata': {}, 'attached': {}}
    for ms in nodespec['modules']:
        mcfg = {'description': 'generated module ' + ms['name']}
        if ms['name'] in topo['pinata']:
            mcfg['export'] = bool(ms['exported'])      # (the class-level value of a Pinata is False)
        elif not ms['exported']:
            mcfg['export'] = False
        for i, target in enumerate(topo['attached'].get(ms['name'], [])):
            mcfg['att%d' % (i + 1)] = target
        for attr, over in ms['cfg'].items():
            mcfg[attr] = dict(over)
        cfgs[ms['name']] = mcfg
    return cfgs


# ----------------------------------------------------------------------------------------
# node topology: Pinatas and attached modules in every declaration order
# ----------------------------------------------------------------------------------------
def gen_topology(rng, nodespec, big):
    """a node whose modules depend on each other: modules attached to other modules (`Attached` properties, resolved when
    the attaching module is initialised - which creates the attached module if it does not exist yet) and Pinatas
    (initialised INSIDE the loop of create_modules, yielding further modules), declared in a random order: attached
    modules in front of and behind the modules that need them, exported or not"""
    mods = nodespec['modules']
    while len(mods) < rng.choice([3, 3, 4, 5 if big else 4]):
        mods.append(c04.gen_modspec(rng, 'm%d' % (len(mods) + 1), big))
    names = [ms['name'] for ms in mods]
    pinata = {}
    scanned = []
    for hub in rng.sample(names, rng.choice([0, 1, 1, 1, 2])):
        if hub in scanned:
            continue
        pool = [n for n in names if n != hub and n not in pinata and n not in scanned]
        mine = rng.sample(pool, min(len(pool) - 1, rng.choice([0, 1, 1, 2]))) if len(pool) > 1 else []
        pinata[hub] = mine
        scanned += mine
    # attachments: acyclic by a random ranking; only modules of the configuration can be attached (a module a Pinata
    # yields is unknown to the node until its turn)
    rank = names[:]
    rng.shuffle(rank)
    if rng.random() < 0.7:       # mostly: the Pinatas are the ones that need other modules (a bus, a controller)
        rank = [n for n in rank if n not in pinata] + [n for n in rank if n in pinata]
    attached = {}
    for i, name in enumerate(rank):
        lower = [n for n in rank[:i] if n not in scanned]
        if lower and rng.random() < (0.8 if name in pinata else 0.5):
            attached[name] = rng.sample(lower, min(len(lower), rng.choice([1, 1, 2])))
    order = [n for n in names if n not in scanned]
    rng.shuffle(order)
    for hub in pinata:
        if rng.random() < 0.5:   # declared in front of (some of) the modules it needs
            order.remove(hub)
            order.insert(rng.choice([0, 0, 1]) if len(order) > 1 else 0, hub)
    nodespec['topology'] = {'order': order, 'pinata': pinata, 'attached': attached}
    return nodespec


def build_node(nodespec):
    """c04.build_node; for a node spec with a `topology`: the generated classes get `Attached` properties / become
    Pinatas, the configuration is written in the order of the topology, scanned modules come out of scanModules"""
    topo = nodespec.get('topology')
    if not topo:
        return c04.build_node(nodespec)
    import frappy.modules as fm
    from frappy.dynamic import Pinata
    from frappy.modules import Attached
    from vlib.node import Node
    box = c04.Box()
    classes, mcfgs = {}, {}
    cfgs = generated_cfgs(nodespec)
    for ms in nodespec['modules']:
        c04._clscount[0] += 1
        base = getattr(fm, ms['base'])
        known = {}
        mixins = tuple(c04.feature_class(f) for f in ms.get('features', []))
        cls = None
        pending = []
        for i, layer in enumerate(ms['layers']):
            cname = 'Gen%s%d' % (chr(ord('A') + i), c04._clscount[0])
            if layer.get('mixin'):
                c = c04.mk_layer_class(box, cname, (), layer, known)
                pending.insert(0, c)
            else:
                c = c04.mk_layer_class(box, cname, tuple(pending) + ((mixins + (base,)) if cls is None else (cls,)), layer, known)
                pending = []
                cls = c
            box.layerspec[c] = layer
        name = ms['name']
        att = topo['attached'].get(name, [])
        if att or name in topo['pinata']:
            body = {'__module__': 'verifgen', '__doc__': 'generated module with attached modules'}
            for i in range(len(att)):
                body['att%d' % (i + 1)] = Attached()
            bases = (cls,)
            if name in topo['pinata']:
                bases = (cls, Pinata)

                def scan(self, _names=tuple(topo['pinata'][name])):
                    for n in _names:
                        yield n, dict(mcfgs[n])
                body['scanModules'] = scan
            cls = type('GenT%d' % c04._clscount[0], bases, body)
        classes[name] = cls
        mcfgs[name] = dict(cfgs[name], cls=cls)
    node = Node({n: mcfgs[n] for n in topo['order']}, omit_unchanged_within=0)
    return node, box, classes


def registry(node):
    """the module objects of the node with their export flag, and the list the report is made from"""
    return {'created': [[n, bool(m.export)] for n, m in node.secnode.modules.items()],
            'export': [str(n) for n in node.secnode.export]}


def create_case(node, nodespec):
    """create_modules as data for the model: the configuration in its order and what the Pinatas yield (name, export
    flag, Pinata?, the names of the attached modules in the order of the class's properties, the scanned names)"""
    from frappy.modules import Attached
    topo = nodespec.get('topology') or {'order': [ms['name'] for ms in nodespec['modules']], 'pinata': {}, 'attached': {}}
    cfgs = generated_cfgs(nodespec)
    rows = {}
    for ms in nodespec['modules']:
        name = ms['name']
        modobj = node.secnode.modules.get(name)
        att = []
        if modobj is not None:
            mycls, = type(modobj).__bases__
            att = [cfgs[name][pn] for pn, po in mycls.propertyDict.items() if isinstance(po, Attached) and cfgs[name].get(pn)]
        rows[name] = {'name': name, 'exported': bool(ms['exported']), 'pinata': name in topo['pinata'], 'attached': att,
                      'scan': list(topo['pinata'].get(name, []))}
    scanned = [n for names in topo['pinata'].values() for n in names]
    return {'cfg': [rows[n] for n in topo['order']], 'pool': [rows[n] for n in scanned]}


# ----------------------------------------------------------------------------------------
# module code changes the datatype of a live parameter (limits / unit from the hardware, as frappy_mlz.entangle does)
# ----------------------------------------------------------------------------------------
def gen_retypes(rng, node):
    """events 'the module sets datatype properties of one of its live parameters' (datatype.set_properties): new hard
    limits around the current value (narrower / wider than before, scaled: on and off the grid), sometimes a unit"""
    from frappy.datatypes import FloatRange, IntRange, ScaledInteger
    cands = []
    for mname, modobj in node.secnode.modules.items():
        for attr, pobj in modobj.parameters.items():
            if pobj.constant is None and type(pobj.datatype) in (FloatRange, IntRange, ScaledInteger) and \
                    isinstance(pobj.value, (int, float)) and not isinstance(pobj.value, bool) and abs(pobj.value) < 1e15:
                cands.append((mname, attr, pobj))
    events = []
    for mname, attr, pobj in rng.sample(cands, min(len(cands), rng.choice([1, 2, 2, 3]))):
        dt, cur = pobj.datatype, pobj.value
        lo, hi = dt.min, dt.max
        if isinstance(dt, IntRange):
            cur = int(cur)
            nlo = rng.choice([cur, cur - 1, cur - 7, max(lo, -1 << 30) - 3, lo])
            nhi = rng.choice([cur, cur + 1, cur + 9, min(hi, 1 << 30) + 3, hi])
        elif isinstance(dt, ScaledInteger):
            k = int(round(cur / dt.scale))
            off = rng.choice([0, 0, 0, 0.4, -0.3])
            nlo = (k - rng.choice([0, 1, 3, 17]) + off) * dt.scale
            nhi = (k + rng.choice([0, 1, 3, 17, 450]) + abs(off)) * dt.scale
            if nlo > cur:
                nlo = k * dt.scale if k * dt.scale <= cur else (k - 1) * dt.scale
        else:
            span = rng.choice([0.0, 0.5, 2.5, 25.0, 1e3])
            nlo = rng.choice([cur - span, cur - 0.1 * 3, lo if abs(lo) < 1e300 else cur - 40.0])
            nhi = rng.choice([cur + span, cur + 0.7, hi if abs(hi) < 1e300 else cur + 40.0])
        nlo, nhi = min(nlo, cur), max(nhi, cur)
        which = rng.choice(['both', 'both', 'min', 'max'])
        if which == 'min' and nlo <= hi:
            props = {'min': nlo}
        elif which == 'max' and nhi >= lo:
            props = {'max': nhi}
        else:
            props = {'min': nlo, 'max': nhi}
        if not isinstance(dt, IntRange) and rng.random() < 0.3:
            props['unit'] = rng.choice(['deg', 'mbar', 'A'])
        events.append({'m': mname, 'attr': attr, 'props': props})
    return events


def apply_retypes(node, events):
    """-> the (module, attribute) pairs whose datatype object was changed"""
    live = node.__dict__.setdefault('live_sets', {})
    touched = []
    for ev in events:
        pobj = node.secnode.modules[ev['m']].parameters[ev['attr']]
        try:
            pobj.datatype.set_properties(**ev['props'])
        except Exception:
            # refused by the datatype (ProgrammingError); what was set before the refusal stays set
            ev['refused'] = True
        live.setdefault((ev['m'], ev['attr']), []).append(ev)
        touched.append((ev['m'], ev['attr']))
    return touched


def param_catalogues(rng, node, desc, near_cap, far_cap):
    """(module, wire name) -> (client datatype, boundary payloads) for every described parameter: the catalogue is drawn
    from the limits the DESCRIBED datainfo states and from those of the node's own datatype (they should be the same)"""
    out = {}
    for mname, md in desc['modules'].items():
        modobj = node.secnode.modules[mname]
        for aname, ad in md['accessibles'].items():
            di = ad.get('datainfo')
            if isinstance(di, dict) and di.get('type') == 'command':
                continue
            pobj = modobj.parameters.get(modobj.accessiblename2attr.get(aname))
            if pobj is None:
                continue
            cdt = client_datatype(di, aname)
            trees = [_tree(cdt) if cdt is not None else None, _tree(pobj.datatype)]
            if trees[0] == trees[1]:
                trees = trees[:1]
            out[(mname, aname)] = (cdt, boundary_catalogue(rng, trees, near_cap, far_cap))
    return out


def _has_cls(tree):
    if isinstance(tree, dict):
        return 'cls' in tree or any(_has_cls(v) for v in tree.values())
    if isinstance(tree, list):
        return any(_has_cls(v) for v in tree)
    return False


def _dt_class(func):
    """outcome class of a datatype call, as the model names it"""
    from frappy.errors import BadValueError
    try:
        func()
        return 'ok'
    except BadValueError as e:
        return type(e).__name__
    except Exception as e:
        return type(e).__name__


def datatype_cases(node, desc, cats, cfgs, generated):
    live_sets = getattr(node, 'live_sets', {})
    """for every described parameter whose datatype is one of the ten SECoP kinds: the datatype of the class, the limits
    the configuration sets, the datatype object of the instance, the described datainfo and the boundary payloads with the
    verdicts of the node's own datatype and of the client datatype — for the model (Node/DescribeDT) to derive all of it"""
    from vlib import dicodec
    out = []
    for (mname, aname), (cdt, payloads) in cats.items():
        modobj = node.secnode.modules[mname]
        attr = modobj.accessiblename2attr.get(aname)
        pobj = modobj.parameters.get(attr)
        try:
            inst = dicodec.dt_to_di(pobj.datatype)
        except Exception:
            continue
        if _has_cls(inst) or cdt is None:
            continue
        mycls, = type(modobj).__bases__
        cls_p = mycls.accessibles.get(attr)
        acfg = (cfgs or {}).get(mname, {}).get(attr)
        cls = cfg = None
        # what module code set on the live datatype object at run time (one set_properties call per entry)
        live = live_sets.get((mname, attr), [])
        live_ok = all(set(ev['props']) <= {'min', 'max'} and not ev.get('refused') for ev in live)
        if generated and live_ok and cls_p is not None and getattr(cls_p, 'datatype', None) is not None and \
                (acfg is None or isinstance(acfg, dict)):
            dtkeys = [k for k in (acfg or {}) if k not in cls_p.propertyDict]
            if all(k in ('min', 'max') for k in dtkeys):
                try:
                    cls = dicodec.dt_to_di(cls_p.datatype)
                    cfg = [[k, dtcodec.py_to_json(acfg[k])] for k in dtkeys]
                except Exception:
                    cls = cfg = None
                if cls is not None and _has_cls(cls):
                    cls = cfg = None
        probes = []
        for payload in payloads:
            value = json.loads(json.dumps(payload))
            if not dtcodec.encodable(value):
                continue
            probes.append({'payload': dtcodec.py_to_json(value),
                           'node': _dt_class(lambda: pobj.datatype.validate(pobj.datatype.import_value(value))),
                           'client': _dt_class(lambda: cdt.validate(cdt.import_value(value)))})
        described = json.loads(json.dumps(desc['modules'][mname]['accessibles'][aname]['datainfo']))
        out.append({'m': mname, 'a': aname, 'cls': cls, 'cfg': cfg or [], 'inst': inst,
                    'live': [[[k, dtcodec.py_to_json(v)] for k, v in ev['props'].items()] for ev in live] if cls is not None else [],
                    'described': dtcodec.py_to_json(described), 'probes': probes})
    return out


def change_client_verdicts(cats, steps, rec):
    """for every `change` aimed at a described parameter: does the datatype a client rebuilds from the described datainfo
    import + validate the payload?  (computed by the real datatype code; judged in Lean against what the node did)"""
    for st, out in zip(steps, rec['steps']):
        if st['kind'] != 'change' or not st['spec']:
            continue
        m, _, a = st['spec'].partition(':')
        cat = cats.get((m, a or 'target'))
        if cat is None:
            continue
        out['client'] = cat[0] is not None and client_accepts(cat[0], st['data'])


def do_client_verdicts(desc, steps, rec):
    """for every `do` with a payload aimed at a command described WITH an argument: does the argument datatype a client
    rebuilds from the described datainfo import + validate the payload?  (computed by the real datatype code; judged in Lean)"""
    from frappy.datatypes import get_datatype
    for st, out in zip(steps, rec['steps']):
        if st['kind'] != 'do' or st['data'] is None or not st['spec'] or ':' not in st['spec']:
            continue
        m, a = st['spec'].split(':', 1)
        ad = desc['modules'].get(m, {}).get('accessibles', {}).get(a)
        di = ad.get('datainfo') if ad else None
        if not (isinstance(di, dict) and di.get('type') == 'command' and di.get('argument') is not None):
            continue
        try:
            arg = get_datatype(json.loads(json.dumps(di)), a).argument
        except Exception:
            out['client'] = False
            continue
        payload = json.loads(json.dumps(st['data']))
        out['client'] = c04.oracle_call(lambda: arg.validate(arg.import_value(payload)))[0] == 'ok'


def client_verdicts(rng, node, desc, nodespec, rec, cats=None):
    """datainfo checks and import checks, computed with the real datatype code on both sides"""
    from frappy.datatypes import get_datatype
    dichecks, imports = [], []
    idx = {(m, a): spec for m, a, kind, spec, _ in (c04.spec_index(nodespec) if nodespec else []) if kind == 'param'}
    clients = {}
    for mname, md in desc['modules'].items():
        modobj = node.secnode.modules[mname]
        for aname, ad in md['accessibles'].items():
            di = ad.get('datainfo')
            if isinstance(di, dict) and di.get('type') == 'command':
                continue
            attr = modobj.accessiblename2attr.get(aname)
            pobj = modobj.parameters.get(attr)
            if pobj is None:
                continue
            try:
                cdt = get_datatype(json.loads(json.dumps(di)), aname)
            except Exception:
                dichecks.append({'m': mname, 'a': aname, 'client': False, 'node': True, 'payload': 'get_datatype failed'})
                continue
            clients[(mname, aname)] = cdt
            dtspec = idx.get((mname, attr))
            # payloads: generated ones (mostly valid) + the boundary catalogue of the described datainfo
            payloads = [c04.gen_payload(rng, dtspec)[0] for _ in range(4 if dtspec else 1)]
            payloads += (cats or {}).get((mname, aname), (None, []))[1]
            for payload in payloads:
                cl = c04.oracle_call(lambda: cdt.validate(cdt.import_value(payload)))[0] == 'ok'
                # the node's verdict as far as the described datainfo can express it (LimitsType: the tuple part;
                # the order test of the pair belongs to the limit checks, see design_notes/C06.md)
                nd = c04.oracle_call(lambda: c04.datainfo_validate(pobj.datatype)(
                    pobj.datatype.import_value(payload), previous=pobj.value))[0] == 'ok'
                dichecks.append({'m': mname, 'a': aname, 'client': cl, 'node': nd, 'payload': canonj(payload)})
            # the cached value, as a client would get it on activation
            if pobj.readerror is None:
                text = canonj(pobj.export_value())
                r = c04.oracle_call(lambda: cdt.import_value(json.loads(text)))
                imports.append({'m': mname, 'a': aname, 'ok': r[0] == 'ok', 'value': text, 'from': 'cache'})
    def importable(cdt, text):
        """the client can take the value over: it is strict JSON and its datatype imports it (import_value = __call__:
        kind, length, membership; a number the hardware pushed outside min/max is importable by design)"""
        try:
            value = json.loads(text, parse_constant=lambda c: (_ for _ in ()).throw(ValueError(c)))
        except Exception:
            return False
        return c04.oracle_call(lambda: cdt.import_value(value))[0] == 'ok'

    for st in rec['steps'] if rec else []:
        for em in st['obs']['emits']:
            if em[0] == 'update' and (em[1], em[2]) in clients:
                imports.append({'m': em[1], 'a': em[2], 'ok': importable(clients[(em[1], em[2])], em[3]), 'value': em[3],
                                'from': 'update'})
        # the value of a read / change reply
        if st['req'][0] in ('read', 'change') and st['obs']['reply'][0] in ('reply', 'changed') and st['req'][1]:
            m, _, a = st['req'][1].partition(':')
            a = a or ('value' if st['req'][0] == 'read' else 'target')
            if (m, a) in clients:
                imports.append({'m': m, 'a': a, 'ok': importable(clients[(m, a)], st['obs']['reply'][1]),
                                'value': st['obs']['reply'][1], 'from': st['req'][0] + '-reply'})
    # the snapshot a newly activated connection gets
    conn = node.connect()
    node.request(conn, 'activate', None, None)
    for msg in conn.msgs:
        em = c04.msg_obs(msg)
        if em[0] == 'update' and (em[1], em[2]) in clients:
            imports.append({'m': em[1], 'a': em[2], 'ok': importable(clients[(em[1], em[2])], em[3]), 'value': em[3],
                            'from': 'snapshot'})
    node.disconnect(conn)
    return dichecks, imports


def report_text(desc):
    """the report as the interface would put it on the wire (json.dumps as frappy.protocol.interface does: NaN / Infinity
    are written as such); None when it cannot be serialised at all.  Whether the text is strict JSON is judged in Lean."""
    try:
        return json.dumps(desc)
    except Exception:
        return None


def run_node(rng, node, box, nodespec, classes, cfgs=None, big=False, focus=None):
    """-> dict for the driver, or {'errors': ...}"""
    desc1 = node.describe()
    strict = report_text(desc1)
    rep1 = report_json(desc1)
    # boundary catalogues of the described datainfos: all of them for the datainfo checks (datatype against datatype),
    # the first ones of each also as change requests (described datainfo against what the node does)
    cats = param_catalogues(random.Random(rng.randrange(1 << 30)), node, desc1, 6, 4 if not big else 6)
    steps, acts = sweep_steps(rng, node, nodespec, cats, 5, focus)
    rec = None
    if nodespec is not None:
        rec = run_steps_on(node, box, nodespec, classes, steps)
    else:
        rec, steps = run_steps_plain(node, steps)
    add_inits(node, rec, generated_cfgs(nodespec) if nodespec is not None else (cfgs or {}))
    do_client_verdicts(desc1, steps, rec)
    change_client_verdicts(cats, steps, rec)
    activates = []
    for m, a in acts:
        conn = node.connect()
        before = subs_state(node)
        spec = m if a is None else '%s:%s' % (m, a)
        reply = node.request(conn, 'activate', spec, None)
        after = subs_state(node)
        activates.append({'m': m, 'a': a if a is not None else '', 'bare': a is None, 'reply': c04.reply_obs(reply)
                          if reply[0].startswith('error_') else ['done', None], 'subsChanged': before != after,
                          'pyclass': reply[2][1] if reply[0].startswith('error_') else None})
        node.disconnect(conn)
    dichecks, imports = client_verdicts(rng, node, desc1, nodespec, rec, cats)
    desc2 = node.describe()
    classes = [{'m': mname, 'ic': list(md.get('interface_classes', [])), 'features': list(md.get('features', [])),
                'impl': md.get('implementation')}
               for mname, md in desc1['modules'].items()]
    dtcases = datatype_cases(node, desc1, cats, generated_cfgs(nodespec) if nodespec is not None else None, nodespec is not None)
    return {'registry': registry(node), 'rec': rec, 'generated': nodespec is not None, 'dtcases': dtcases, 'classes': classes, 'report1': rep1, 'report2': report_json(desc2), 'activates': activates,
            'dichecks': dichecks, 'imports': imports, 'strict': strict}


def run_steps_on(node, box, nodespec, classes, steps):
    """C04's run_case on an already built node"""
    saved = c04.build_node
    c04.build_node = lambda ns: (node, box, classes)
    try:
        return c04.run_case(nodespec, steps)
    finally:
        c04.build_node = saved


class _Timeout(BaseException):
    pass


def with_timeout(seconds, func):
    """a request that does not come back (a real driver waiting for hardware) must not hang the check"""
    import signal

    def handler(signum, frame):
        raise _Timeout()
    old = signal.signal(signal.SIGALRM, handler)
    signal.setitimer(signal.ITIMER_REAL, seconds)
    try:
        return func()
    finally:
        signal.setitimer(signal.ITIMER_REAL, 0)
        signal.signal(signal.SIGALRM, old)


def run_steps_plain(node, steps):
    """shipped configuration: only requests that must not reach a driver are sent (undescribed names, changes of
    parameters described read-only, reads of constants, requests of the wrong kind — change / read of a command, do of a
    parameter —, do with a payload for a command described without argument); calls are not observed.
    -> (record, the steps actually sent)"""
    desc = node.describe()
    conn = node.connect()
    out, sent = [], []
    for st in steps:
        m, _, a = st['spec'].partition(':')
        ad = desc['modules'].get(m, {}).get('accessibles', {}).get(a) if a else None
        described = ad is not None
        if described:
            di = ad.get('datainfo')
            is_cmd = isinstance(di, dict) and di.get('type') == 'command'
            if st['kind'] == 'change' and (ad.get('readonly') is True or is_cmd):
                pass
            elif st['kind'] == 'read' and ('constant' in ad or is_cmd):
                pass
            elif st['kind'] == 'do' and (not is_cmd or (st['data'] is not None and di.get('argument') is None)):
                pass
            else:
                continue
        if not a:
            continue
        before = c04.cache_rows(node)
        timed_out = False
        try:
            reply = with_timeout(30, lambda: node.request(conn, st['kind'], st['spec'], st['data']))
        except _Timeout:
            # the request went into a real driver and did not return (or the machine is overloaded): a time-out is
            # never a verdict — the check ends as a harness problem (exit 2)
            raise RuntimeError(f'request {st["kind"]} {st["spec"]} on a shipped configuration did not return within 30 s')
        data = st['data']
        wire = canonj(data) if st['kind'] == 'change' else (None if data is None else canonj(data)) if st['kind'] == 'do' else bool(data)
        sent.append(st)
        out.append({'req': [st['kind'], st['spec'], wire], 'drv': 'none',
                    'obs': {'reply': c04.reply_obs(reply), 'calls': [], 'emits': [c04.msg_obs(x) for x in conn.msgs],
                            'before': before, 'after': c04.cache_rows(node)},
                    'pyclass': reply[2][1] if reply[0].startswith('error_') else None})
        conn.msgs.clear()
        if timed_out:
            break
    nj = c04.node_json(node, None, None)
    return {'node': nj, 'steps': out, 'oracle': c04.Oracle().json(), 'errors': []}, sent


def shipped_nodes(ctx):
    """(name, Node) for every cfg/*_cfg.py of the repository that instantiates completely without hardware"""
    import mlzlog
    import frappy.config as fc
    from vlib.node import Node
    log = mlzlog.MLZLogger('cfgload')
    log.setLevel(logging.CRITICAL)
    res, skipped = [], []
    for f in sorted(glob.glob(os.path.join(ctx.repo, 'cfg', '*_cfg.py'))):
        name = os.path.basename(f)[:-7]
        try:
            conf = fc.process_file(Path(f), log)
            mods = {k: dict(v) for k, v in conf.items() if k != 'node'}
            node = Node(mods, name=name, omit_unchanged_within=0)
            if node.errors or not node.secnode.modules:
                skipped.append(name)
                continue
            res.append((name, node, mods))
        except BaseException:  # import errors, SystemExit of platform checks, ...
            skipped.append(name)
    return res, skipped


def to_requests(data):
    rec = data['rec']
    base = {'p': PID, 'node': rec['node'], 'oracle': rec['oracle']}
    prev = data.get('prev')      # a later phase: the phase before, and the parameters whose datatype changed in between
    return [dict(base, k='describe', steps=[{'req': s['req'], 'drv': s['drv']} for s in rec['steps']] if data.get('generated') else [],
                 prev=prev['rec']['node'] if prev else None, touched=[list(t) for t in data.get('touched', [])]),
            dict(base, k='judge', text=data['strict'], registry=data.get('registry'),
                 report0=prev['report2'] if prev else None, touchedWire=[list(t) for t in data.get('touched_wire', [])], report1=data['report1'], report2=data['report2'], classes=data['classes'],
                 steps=[{'req': s['req'], 'obs': s['obs'], 'client': s.get('client')} for s in rec['steps']],
                 activates=[{'m': a['m'], 'a': a['a'], 'reply': a['reply'], 'subsChanged': a['subsChanged']}
                            for a in data['activates'] if not a['bare']],
                 dichecks=[{'m': d['m'], 'a': d['a'], 'client': d['client'], 'node': d['node']} for d in data['dichecks']],
                 imports=[{'m': d['m'], 'a': d['a'], 'ok': d['ok']} for d in data['imports']],
                 trees=[{'m': c['m'], 'a': c['a'], 'inst': c['inst']} for c in data.get('dtcases', [])]),
            {'p': PID, 'k': 'datatypes', 'params': [{'cls': c['cls'], 'cfg': c['cfg'], 'live': c.get('live', []), 'inst': c['inst'],
                                                      'described': c['described'],
                                                      'probes': [p['payload'] for p in c['probes']]} for c in data.get('dtcases', [])]},
            dict(data.get('create') or {'cfg': [], 'pool': []}, p=PID, k='create')]


# module properties a configuration may give (modulebase.py: "only the properties predefined here are allowed to be set in
# the cfg file" — the loop over propertyDict accepts EVERY declared property, the automatic ones included): name -> values
MODULE_PROP_CFG = {
    'group': ['grpA', 'grpB', ''],
    'visibility': ['advanced', 'expert', 'user', 2],
    'meaning': [('temperature', 10), ['x', 0], ('', 0)],
    'description': ['configured description'],
    'original_id': ['orig-7'],
    'slowinterval': [30.0],
    'implementation': ['frappy.core.Drivable', 'other.Cls', ''],
    'interface_classes': [['Drivable'], [], ['Readable'], ['Readable', 'Drivable'], ['Magnet']],
    'features': [['HasOffset'], [], ['FeatA'], ['FeatB', 'HasOffset']],
}


def gen_module_props(rng, nodespec):
    """configuration entries naming MODULE PROPERTIES (the way frappy.config.Mod writes them: {'value': x}), added to the
    parameter overrides the node generator makes"""
    for ms in nodespec['modules']:
        if rng.random() < 0.5:
            continue
        for key in rng.sample(sorted(MODULE_PROP_CFG), rng.randint(1, 3)):
            ms['cfg'][key] = {'value': rng.choice(MODULE_PROP_CFG[key])}
    # configuration entries for PARAMETER properties that decide what the report says and how the node behaves:
    # a constant given in the configuration (makes the parameter read-only) and DATATYPE properties (Parameter.setProperty
    # hands every key that is not a parameter property to the datatype: limits, lengths, unit, resolution) - they change
    # the described datainfo and the validation of the node together
    regrid_scaled(rng, nodespec)
    for ms in nodespec['modules']:
        for layer in ms['layers']:
            for p in layer['params']:
                # (a scaled parameter more often than the others: its description is computed - limit / scale, rounded -,
                # not copied, and whether that computation is right shows only on limits with an inexact quotient)
                if 'dt' not in p or p.get('constant') or p['attr'] in ms['cfg'] or \
                        rng.random() > (0.6 if p['dt'][0] == 'scaled' else 0.2):
                    continue
                over = gen_datatype_cfg(rng, p['dt']) if rng.random() < (0.9 if p['dt'][0] == 'scaled' else 0.7) else None
                if over:
                    ms['cfg'][p['attr']] = over
                else:
                    try:
                        ms['cfg'][p['attr']] = {'constant': c04.mk_dtype(p['dt']).import_value(c04.gen_valid(rng, p['dt']))}
                    except Exception:
                        pass
    return nodespec


SCALES = [0.1, 0.1, 0.01, 0.25, 1, 0.001, 0.3, 0.7, 0.05, 0.2]


def grid_index(rng, scale, klo, khi, want=None):
    """a grid index in klo..khi whose float quotient (k*scale)/scale lands exact / below / above k (`want`; None: any)"""
    for _ in range(60):
        k = rng.randint(klo, khi)
        c = quotient_class(k, scale)
        if c is not None and (want is None or c == want):
            return k
    for k in range(klo, khi + 1):      # small ranges: look at every index
        if khi - klo > 2000:
            break
        c = quotient_class(k, scale)
        if c is not None and (want is None or c == want):
            return k
    return None


def scaled_limits(rng, scale, klo_range, khi_range):
    """limits k*scale of a scaled datatype, drawn by QUOTIENT CLASS: for decimal scales the float quotient limit/scale
    lands exactly on, a hair below or a hair above the whole number it stands for - every way of turning it into the
    integer of the description must give the same index"""
    want = lambda: rng.choice([None, 'below', 'below', 'above', 'above', 'exact'])
    klo = grid_index(rng, scale, *klo_range, want())
    khi = grid_index(rng, scale, *khi_range, want())
    if klo is None:
        klo = grid_index(rng, scale, *klo_range) or 0
    if khi is None:
        khi = grid_index(rng, scale, *khi_range) or khi_range[1]
    return klo, khi


def regrid_scaled(rng, nodespec):
    """the scaled datatypes of the generated classes (c04 draws max from 10 / 100 / 2.5 and min = 0): other scales and
    limits by quotient class (min <= 0 < max stays, so that the generated defaults and valid values remain valid)"""
    def walk(spec):
        if spec[0] == 'scaled' and rng.random() < 0.7:
            scale = rng.choice(SCALES)
            klo, khi = scaled_limits(rng, scale, (-40, 0) if rng.random() < 0.5 else (0, 0), (1, rng.choice([12, 120, 3000])))
            spec[1:4] = [scale, klo * scale, khi * scale]
        elif spec[0] == 'array':
            walk(spec[1])
        elif spec[0] == 'tuple':
            for x in spec[1]:
                walk(x)
        elif spec[0] == 'struct':
            for _, x in spec[1]:
                walk(x)
    for ms in nodespec['modules']:
        for layer in ms['layers']:
            for p in layer['params']:
                if 'dt' in p:
                    walk(p['dt'])
            for c in layer['commands']:
                for key in ('arg', 'res'):
                    if c.get(key):
                        walk(c[key])


def gen_datatype_cfg(rng, dt):
    """a configuration entry setting datatype properties of a parameter with the given (class-level) datatype spec"""
    k = dt[0]
    over = {}
    if k == 'scaled':
        scale, lo, hi = dt[1], dt[2], dt[3]
        klo, khi = int(round(lo / scale)), int(round(hi / scale))
        which = rng.choice(['max', 'max', 'min', 'both', 'both'])
        # narrower or wider than the class says, on the grid, by quotient class
        nlo, nhi = scaled_limits(rng, scale, (klo - 5, min(klo + 3, 0)), (1, khi + 5))
        # ... and, less often, OFF the grid (a limit the wire representation cannot express: the description states the
        # nearest grid value)
        off = (lambda: rng.choice([0.4, 0.26, -0.3, 0.5, -0.45])) if rng.random() < 0.15 else (lambda: 0)
        if which in ('max', 'both'):
            over['max'] = (nhi + off()) * scale
        if which in ('min', 'both'):
            over['min'] = (nlo + off()) * scale
    elif k in ('floatr', 'float'):
        lo, hi = (dt[1], dt[2]) if k == 'floatr' else (-100.0, 100.0)
        which = rng.choice(['max', 'min', 'both'])
        if which in ('max', 'both'):
            over['max'] = rng.choice([lo + (hi - lo) / 2, lo + (hi - lo) * 0.3, hi + 0.7, lo + 0.1 * 3])
        if which in ('min', 'both'):
            over['min'] = rng.choice([lo - 0.3, lo + (hi - lo) * 0.1, lo])
        if rng.random() < 0.3:
            over['absolute_resolution'] = rng.choice([0.0, 0.5, 1e-3])
    elif k in ('intr', 'int'):
        lo, hi = (dt[1], dt[2]) if k == 'intr' else (-1000, 1000)
        which = rng.choice(['max', 'min', 'both'])
        if which in ('max', 'both'):
            over['max'] = rng.choice([lo + (hi - lo) // 2, hi + 3, hi - 1])
        if which in ('min', 'both'):
            over['min'] = rng.choice([lo - 2, lo + 1, lo])
    elif k == 'string':
        over['maxchars'] = rng.choice([(dt[2] or 8) + 2, max(dt[1], 1), 5])
        if rng.random() < 0.3:
            over['isUTF8'] = True
    elif k == 'blob':
        over['maxbytes'] = rng.choice([dt[2] + 2, max(dt[1], 1), 3])
    elif k == 'array':
        # (no `minlen`: a parameter without default then starts with a value its own datatype does not export, and the
        # read of such a parameter is outside C04's step model - see design_notes/C06.md, left open)
        over['maxlen'] = rng.choice([dt[3] + 1, max(dt[2], 1), dt[3]])
    if k in ('scaled', 'floatr', 'float', 'intr', 'int') and rng.random() < 0.25:
        over['unit'] = rng.choice(['K', 'mm/s', '%'])
    return over


def gen_case(seed, big):
    rng = random.Random(seed)
    nodespec = c04.gen_nodespec(rng, big)
    trng = random.Random(seed + 11)
    if trng.random() < 0.25:
        # modules that depend on each other (attached modules, Pinatas) in every declaration order
        gen_topology(trng, nodespec, big)
    # rounds of 'module code changes the datatype of a live parameter' after the node is up, each followed by a describe
    nodespec['live'] = trng.choice([0, 0, 0, 0, 1, 1, 2]) if not nodespec.get('topology') else 0
    return {'seed': seed, 'big': big, 'nodespec': gen_module_props(random.Random(seed + 7), nodespec)}


def run_generated(case):
    """-> the phases of one node: [data of the node as built] + [data after each round of live datatype changes]"""
    nodespec = case['nodespec']
    node, box, classes = build_node(nodespec)
    if node.errors or set(node.secnode.modules) != {ms['name'] for ms in nodespec['modules']}:
        return None
    data = run_node(random.Random(case['seed'] + 1), node, box, nodespec, classes, big=bool(case.get('big')))
    data['cfgstats'] = cfg_stats(nodespec)
    data['create'] = create_case(node, nodespec)
    phases = [data]
    lrng = random.Random(case['seed'] + 13)
    for rnd in range(nodespec.get('live', 0)):
        events = gen_retypes(lrng, node)
        if not events:
            break
        touched = apply_retypes(node, events)
        nxt = run_node(random.Random(case['seed'] + 17 + rnd), node, box, nodespec, classes, big=bool(case.get('big')),
                       focus=set(touched))
        nxt['prev'] = {'rec': {'node': phases[-1]['rec']['node']}, 'report2': phases[-1]['report2']}
        nxt['touched'] = sorted(set(touched))
        nxt['touched_wire'] = sorted({(m, node.secnode.modules[m].parameters[a].export) for m, a in touched
                                      if isinstance(node.secnode.modules[m].parameters[a].export, str)})
        nxt['events'] = events
        phases.append(nxt)
    return phases


DT_PROP_KEYS = ('min', 'max', 'unit', 'absolute_resolution', 'maxchars', 'isUTF8', 'maxbytes', 'maxlen', 'minlen')


def cfg_stats(nodespec):
    """evidence: which datatype properties the configuration sets, on which kind of datatype; for scaled limits the
    quotient class of the configured limit"""
    out = []
    for ms in nodespec['modules']:
        dts = {p['attr']: p['dt'] for layer in ms['layers'] for p in layer['params'] if 'dt' in p}
        for attr, over in ms['cfg'].items():
            dt = dts.get(attr)
            if dt is None or not isinstance(over, dict):
                continue
            for key in over:
                if key in DT_PROP_KEYS:
                    out.append('cfg.datatype-property.%s.%s' % (dt[0], key))
                    if dt[0] == 'scaled' and key in ('min', 'max'):
                        k = int(round(over[key] / dt[1]))
                        out.append('cfg.scaled-limit.%s.%s%s' % (key, quotient_class(k, dt[1]) if k * dt[1] == over[key] else 'not-aligned',
                                                                 '' if k >= 0 else '.negative'))
        for dt in dts.values():
            if dt[0] == 'scaled':
                for key, x in (('min', dt[2]), ('max', dt[3])):
                    k = int(round(x / dt[1]))
                    out.append('class.scaled-limit.%s.%s' % (key, quotient_class(k, dt[1]) if k * dt[1] == x else 'not-aligned'))
    return out


def evaluate(ctx, res, label, case, data, model, judge, dtmodel=None, crt=None):
    rec = data['rec']
    if 'driver_error' in model or 'driver_error' in judge or 'driver_error' in (dtmodel or {}) or 'driver_error' in (crt or {}):
        raise RuntimeError(f'driver error: {model.get("driver_error")} {judge.get("driver_error")} '
                           f'{(dtmodel or {}).get("driver_error")} {(crt or {}).get("driver_error")} ({label})')
    # create_modules correspondence: configuration order + attachments + what the Pinatas yield -> the module objects in
    # their order of creation and the list the report is made from, derived by the model (Node/CreateModules)
    if ctx.model_ok and crt is not None and data.get('create'):
        reg = data['registry']
        res.count('create-correspondence.nodes')
        cfgnames = [c['name'] for c in data['create']['cfg']]
        if any(c['pinata'] for c in data['create']['cfg'] + data['create']['pool']):
            res.count('create.nodes-with-pinata')
        if any(c['attached'] for c in data['create']['cfg'] + data['create']['pool']):
            res.count('create.nodes-with-attached')
        created = [n for n, _ in reg['created']]
        # a module created before its own turn: it stands in front of a module that is declared before it
        early = [n for n in cfgnames if n in created and any(
            o in created and created.index(o) > created.index(n) for o in cfgnames[:cfgnames.index(n)])]
        for n in early:
            res.count('create.module-created-before-its-turn.%s' % ('exported' if dict(map(tuple, reg['created']))[n] else 'hidden'))
        if crt.get('errors') or crt['created'] != reg['created'] or crt['export'] != reg['export']:
            res.disagreements.append({'case': case, 'model': {'created': crt['created'], 'export': crt['export'], 'errors': crt.get('errors')},
                                      'impl': {'created': reg['created'], 'export': reg['export'], 'cfg': data['create']}})
    if data.get('prev'):
        res.count('live.phases')
        for ev in data.get('events', []):
            pobj_kind = ev.get('kind', '')
            res.count('live.set_properties.%s%s' % ('+'.join(sorted(ev['props'])), '.refused' if ev.get('refused') else ''))
    # datatype correspondence: class + configured limits -> instance datatype -> described datainfo -> verdicts on the
    # boundary payloads (node's own datatype, client datatype rebuilt from the described datainfo), all derived by the model
    if ctx.model_ok and dtmodel is not None:
        for c, m in zip(data.get('dtcases', []), dtmodel['params']):
            res.count('datatype-correspondence.params')
            res.count('datatype-correspondence.probes', len(c['probes']))
            res.count('datatype-correspondence.instance-derived' if c['cls'] is not None else 'datatype-correspondence.instance-as-data')
            where = '%s:%s' % (c['m'], c['a'])
            if c['cls'] is not None and m['inst'] != c['inst']:
                res.disagreements.append({'case': case, 'model': {'instance datatype': m['inst'], 'at': where},
                                          'impl': {'instance datatype': c['inst'], 'class': c['cls'], 'cfg': c['cfg']}})
            elif not isinstance(m['datainfo'], dict) or dtcodec.canon(m['datainfo']) != dtcodec.canon(c['described']):
                res.disagreements.append({'case': case, 'model': {'datainfo': m['datainfo'], 'at': where},
                                          'impl': {'datainfo': c['described'], 'datatype': c['inst']}})
            else:
                for pr, got in zip(c['probes'], m['probes']):
                    if got != [pr['node'], pr['client']]:
                        res.disagreements.append({'case': case, 'model': {'node / client verdict': got, 'at': where},
                                                  'impl': {'node / client verdict': [pr['node'], pr['client']],
                                                           'payload': pr['payload'], 'datatype': c['inst']}})
                        break
    exch = model
    # exchange correspondence: the model's reply / driver calls / emitted messages / cache for every request of the sweep
    if ctx.model_ok and data.get('generated'):
        d = c04.compare(exch, rec)
        res.count('exchange-correspondence.requests', len(rec['steps']))
        if d is not None:
            res.disagreements.append({'case': case, 'model': {d['field']: d['model']},
                                      'impl': {d['field']: d['impl'], 'req': d['req'], 'pyclass': d['pyclass'], 'step': d['step']}})
    res.evaluations += 1
    res.traces += len(rec['steps']) + len(data['activates']) + len(data['dichecks']) + len(data['imports']) + 2
    nacc = sum(len(m['accs']) for m in data['report1'])
    res.count('described.accessibles', nacc)
    res.count('probes.requests', len(rec['steps']))
    res.count('probes.activate', len(data['activates']))
    res.count('probes.datainfo', len(data['dichecks']))
    res.count('probes.import', len(data['imports']))
    described = {(m['name'], a['name']): a for m in data['report1'] for a in m['accs']}
    for st in rec['steps']:
        rep = st['obs']['reply'][0] if st['obs']['reply'][0] != 'error' else st['obs']['reply'][1]
        res.count('reply.' + rep)
        if st['req'][0] == 'do' and st['req'][1] and ':' in st['req'][1]:
            ad = described.get(tuple(st['req'][1].split(':', 1)))
            target = 'undescribed' if ad is None else 'parameter' if ad['kind'] == 'param' else \
                'command-with-argument' if ad['argument'] else 'command-without-argument'
            payload = 'null' if st['req'][2] is None else 'empty' if st['req'][2] in ('0', '0.0', 'false', '""', '[]', '{}') else 'other'
            res.count('do.%s.payload-%s.%s' % (target, payload, 'executed' if st['obs']['calls'] else rep))
    for m in rec['node']['modules']:
        for row in (m.get('init') or {}).get('cfg', []):
            res.count('cfg.module-property.' + row[0])
    for key in data.get('cfgstats', []):
        res.count(key)
    for d in data['dichecks']:
        res.count('datainfo-check.client-%s.node-%s' % ('accepts' if d['client'] else 'rejects', 'accepts' if d['node'] else 'rejects'))
    for st in rec['steps']:
        if st['req'][0] == 'change' and st.get('client') is not None:
            res.count('change.client-%s.%s' % ('accepts' if st['client'] else 'rejects',
                                               'refused' if st['obs']['reply'][0] == 'error' else 'taken'))
    ro = sum(1 for m in data['report1'] for a in m['accs'] if a['readonly'] is True)
    const = sum(1 for m in data['report1'] for a in m['accs'] if a['constant'] is not None)
    res.count('described.readonly', ro)
    res.count('described.constant', const)
    hidden = sum(1 for m in rec['node']['modules'] for a in m['accs'] if a['exp'] == ['no'] or not m['exported'])
    res.count('undescribed.accessibles', hidden)
    if nacc and hidden and ro:
        res.nontriv(label)
    if len(res.samples) < 3 and data['report1']:
        m = data['report1'][0]
        res.samples.append({'node': label, 'module': m['name'],
                            'described': [[a['name'], a['kind'], a['readonly'], a['constant']] for a in m['accs']][:8]})
    if ctx.model_ok and norm_report(model['report']) != norm_report(data['report1']):
        mm = [(a, b) for a, b in zip(norm_report(model['report']), norm_report(data['report1'])) if a != b][:1]
        res.disagreements.append({'case': case, 'model': mm[0][0] if mm else [m['name'] for m in model['report']],
                                  'impl': mm[0][1] if mm else [m['name'] for m in data['report1']]})
    mcls = model.get('classes') or []
    if any(c.get('impl') is None for c in mcls):      # no `init` for that module: the model has no class name to offer
        mcls = [dict(c, impl=d.get('impl')) if c.get('impl') is None else c for c, d in zip(mcls, data['classes'])] \
            if len(mcls) == len(data['classes']) else mcls
    if ctx.model_ok and mcls != data['classes']:
        res.disagreements.append({'case': case, 'model': model.get('classes'), 'impl': data['classes']})
    for c in data['classes']:
        res.count('interface_class.' + (c['ic'][0] if c['ic'] else 'none'))
        res.count('features.%d' % len(c['features']))
    # whole-module activate probes (not a (module, accessible) pair): judged here only as data for the evidence
    seen = set()
    for what, idx, name in judge.get('bads') or ([judge['bad']] if judge['bad'] is not None else []):
        if what in seen:       # one report per kind of failure and node
            continue
        seen.add(what)
        detail = None
        kind = what.split(':')[0]
        if kind in ('undescribed-reachable', 'flag-not-honoured', 'datainfo-not-honoured', 'constant-not-read', 'command-datainfo-not-honoured', 'other'):
            probes = [s for s in rec['steps'] if s['req'][0] != 'read' or not s['req'][2]]
            st = rec['steps'][idx] if idx < len(rec['steps']) else None
            detail = None if st is None else {'req': st['req'], 'reply': st['obs']['reply'], 'calls': st['obs']['calls'],
                                              'pyclass': st.get('pyclass')}
        elif kind == 'undescribed-subscribed':
            acts = [a for a in data['activates'] if not a['bare']]
            detail = acts[idx] if idx < len(acts) else None
        elif kind == 'report-not-strict-json':
            text = data['strict']
            pos = min([text.find(t) for t in ('NaN', 'Infinity') if t in text] or [0]) if text else 0
            detail = 'the report cannot be serialised' if text is None else text[max(0, pos - 120):pos + 40]
        elif kind == 'class-props':
            detail = {'described': next((c for c in data['classes'] if c['m'] == name), None),
                      'class chain': next((m.get('mro') for m in rec['node']['modules'] if m['name'] == name), None),
                      'configuration': next(((m.get('init') or {}).get('cfg') for m in rec['node']['modules'] if m['name'] == name), None)}
        elif kind in ('unregistered-module', 'registered-not-exported', 'registration-order', 'lists'):
            detail = {'described modules': [m['name'] for m in data['report1']], 'registry': data.get('registry'),
                      'configuration': data.get('create')}
        elif kind in ('unstable', 'unstable-untouched'):
            r0 = (data.get('prev') or {}).get('report2') if kind == 'unstable-untouched' else data['report1']
            diff = [(a, b) for a, b in zip(norm_report(r0 or []), norm_report(data['report1'] if kind == 'unstable-untouched' else data['report2'])) if a != b][:1]
            detail = {'touched': data.get('touched_wire'), 'first difference': [[m['name'], [x for x, y in zip(m['accs'], o['accs']) if x != y][:1],
                                                                                [y for x, y in zip(m['accs'], o['accs']) if x != y][:1]]
                                                                               for m, o in diff]}
        elif kind == 'datainfo-disagrees':
            detail = data['dichecks'][idx]
        elif kind == 'emitted-not-importable':
            detail = data['imports'][idx]
        res.violations.append({'sig': 'C06:%s' % what, 'what': f'{label}: {what} at {name}: {json.dumps(detail, default=str)[:400]}',
                               'case': case, 'detail': detail})


def run(ctx):
    res = Result()
    res.rule = ('one evaluation = one PHASE of one node; a quarter of the nodes have modules attached to each other and Pinatas, declared in random order (create_modules correspondence + registration monitor); '
                'flat nodes get 0-2 rounds of live datatype changes (set_properties of limits / unit on live parameters), each followed by a new phase judged against the NEW report; '
                'a node = (generated classes + configuration incl. entries for module properties - also the automatic ones - '
                'and for constant / datatype properties of parameters: limits of int / double / scaled - scaled limits on the grid by quotient class and off the grid -, '
                'lengths, unit, resolution): describe twice around a sweep of change/read/do/activate requests over every '
                'described and every undescribed name (attribute names, underscore variants, old names of renamed '
                'accessibles, accessibles of unexported modules, unknown modules; do with no payload, empty JSON values, junk, valid and boundary arguments), '
                'client datatypes rebuilt from the report '
                'against the node on generated payloads and on the boundary catalogue of every described datainfo (at / next to every limit, wrong lengths and arities; '
                'also sent as change requests), emitted values against the described datainfo; datatype stream: class datatype + configured limits -> instance datatype '
                '-> described datainfo -> verdicts, derived by the model; non-trivial = the '
                'node has described, undescribed and read-only accessibles')
    big = ctx.tier == 'thorough' or ctx.escalated
    rng = ctx.rng
    todo = []
    cdir = os.path.join(ctx.verif, 'corpus', PID)
    if os.path.isdir(cdir):
        for fn in sorted(os.listdir(cdir)):
            todo.append(dict(json.load(open(os.path.join(cdir, fn)))['case'], corpus=fn))
    for _ in range(ctx.budget(220, 2400)):
        todo.append(gen_case(rng.randrange(1 << 40), big))
    items = []
    for case in todo:
        phases = run_generated(case)
        if phases is None:
            res.count('node.rejected-by-frappy' + ('.topology' if case['nodespec'].get('topology') else ''))
            continue
        for i, data in enumerate(phases):
            suffix = '' if i == 0 else '/after-live-change-%d' % i
            if 'corpus' in case:
                items.append(('corpus-' + case['corpus'] + suffix, {'kind': 'corpus', 'file': case['corpus']}, data))
            else:
                items.append(('gen-%d' % case['seed'] + suffix, {'kind': 'generated', 'seed': case['seed'], 'big': case['big']}, data))
    def judge_items(items):
        reqs = []
        for _, _, data in items:
            reqs += to_requests(data)
        answers = []
        for i in range(0, len(reqs), 40):
            answers += ctx.driver.batch(reqs[i:i + 40])
        for j, (label, case, data) in enumerate(items):
            evaluate(ctx, res, label, case, data, answers[4 * j], answers[4 * j + 1], answers[4 * j + 2], answers[4 * j + 3])

    # phase 1: generated nodes (fake drivers).  phase 2: the shipped configurations, whose drivers are REAL code: they are
    # probed only with requests the node must refuse before any driver is involved, and only when phase 1 found the tree
    # honouring its reports — a tree that already executes what it should refuse is not let loose on real drivers
    judge_items(items)
    from check import load_known
    recorded = {f['signature'] for f in load_known(PID).get('findings', [])}
    if any(v['sig'] not in recorded for v in res.violations):      # (a recorded finding does not keep the real drivers away)
        res.notes.append('shipped configurations NOT run: the generated nodes already show violations')
        return res
    nodes, skipped = shipped_nodes(ctx)
    res.notes.append('shipped configurations run: %s; skipped (do not instantiate here): %s'
                     % ([n for n, _, _ in nodes], skipped))
    items = []
    for name, node, mods in nodes:
        data = run_node(random.Random(name), node, None, None, None, cfgs=mods)
        items.append(('cfg-' + name, {'kind': 'cfg', 'name': name}, data))      # (registry judged; no create correspondence)
        res.count('shipped-cfg')
    judge_items(items)
    return res


def replay(ctx, rp):
    case = rp['case']
    if case['kind'] == 'generated':
        phases = run_generated(gen_case(case['seed'], case['big']))
    elif case['kind'] == 'corpus':
        phases = run_generated(json.load(open(os.path.join(ctx.verif, 'corpus', PID, case['file'])))['case'])
    else:
        nodes, _ = shipped_nodes(ctx)
        node, mods = {n: (nd, ms) for n, nd, ms in nodes}[case['name']]
        phases = [run_node(random.Random(case['name']), node, None, None, None, cfgs=mods)]
    if phases is None:
        print('node rejected by frappy')
        return 2
    ok = True
    for i, data in enumerate(phases):
        if data.get('create'):
            print('configuration:', json.dumps(data['create'])[:1200])
            print('module objects (export flag) / registered for the report:', json.dumps(data['registry'])[:600])
        if data.get('events'):
            print('live datatype changes before this phase:', json.dumps(data['events'], default=str)[:800])
        a = ctx.driver.batch(to_requests(data))
        print('report (impl):', json.dumps([[m['name'], [[x['name'], x['readonly'], x['constant']] for x in m['accs']]]
                                             for m in data['report1']])[:1500])
        same = 'report' in a[0] and norm_report(a[0]['report']) == norm_report(data['report1'])
        print('model report equal:', same)
        print('judge:', json.dumps(a[1])[:600])
        res = Result()
        evaluate(ctx, res, 'replay' if i == 0 else 'replay/after-live-change-%d' % i, case, data, a[0], a[1], a[2], a[3])
        for d in res.disagreements:
            print('model and implementation disagree:', json.dumps(d, default=str)[:int(os.environ.get('VERIF_REPLAY_WIDTH', 600))])
            same = False
        for v in res.violations:
            print('violation:', v['what'])
        ok = ok and not res.violations and same
    return 0 if ok else 1
