"""C19, server part: the real `frappy.server.Server.run()` in a thread, with loopback tcp interfaces, scripted restarts
(through the documented `restart_hook`) and bind failures injected by occupying a port while the server is down.

Observed per round (Python only observes; the verdict is Lean's `judge_server`):
  configured  the interface list of the configuration: [[scheme, port], ...]
  reported    list(server.interfaces) after start-up, in the server's order
  served      ports on which a SECoP server answers `*IDN?` (configured ports and the ports the server's interface
              objects are bound to are probed)
  listener    ports of the UDPListener constructed in this round
  answers     ports named in the answers to discovery requests sent over loopback UDP (several source ports: with
              SO_REUSEPORT a responder left over from an earlier round shares the UDP port and gets its share)
  live        ports of every UDPListener constructed so far whose socket is still open
"""
import json
import logging
import shutil
import socket
import tempfile
import threading
import types
from pathlib import Path

REQUEST = b'{"SECoP":"discover"}'
EQ_ID = 'c19.server.frappy'
WAIT = 20


class ServerHarnessTimeout(Exception):
    pass


def _logger():
    log = logging.getLogger('c19server')
    log.propagate = False
    if not log.handlers:
        log.addHandler(logging.NullHandler())
    log.setLevel(logging.CRITICAL + 1)
    return log


def free_port(kind):
    s = socket.socket(socket.AF_INET, kind)
    s.bind(('127.0.0.1', 0))
    port = s.getsockname()[1]
    s.close()
    return port


def is_secop_server(port):
    if not port:
        return False
    try:
        with socket.create_connection(('127.0.0.1', port), timeout=3) as conn:
            conn.sendall(b'*IDN?\n')
            reply = conn.makefile('rb').readline()
        return reply.startswith(b'ISSE')
    except OSError:
        return False


def discover(udp_port, nsources=6):
    """ports named in the answers to `nsources` discovery requests from different source ports (None: no answer at all)"""
    socks = []
    ports = []
    try:
        for _ in range(nsources):
            s = socket.socket(socket.AF_INET, socket.SOCK_DGRAM)
            s.bind(('127.0.0.1', 0))
            s.settimeout(2)
            socks.append(s)
            s.sendto(REQUEST, ('127.0.0.1', udp_port))
        got_any = False
        for s in socks:
            # a responder answers sequentially, one datagram per port; after the first answer the rest is there
            try:
                first = s.recvfrom(65535)[0]
            except socket.timeout:
                continue
            got_any = True
            msgs = [first]
            s.settimeout(0.05)
            try:
                while True:
                    msgs.append(s.recvfrom(65535)[0])
            except (socket.timeout, BlockingIOError):
                pass
            for m in msgs:
                try:
                    ports.append(json.loads(m.decode('utf-8')).get('port'))
                except ValueError:
                    ports.append(-1)
        return sorted(p if isinstance(p, int) and p >= 0 else 70000 for p in ports) if got_any else None
    finally:
        for s in socks:
            s.close()


def spoof_request_from_port_zero(udp_port):
    """a discovery request with source port 0 over loopback (raw socket; needs CAP_NET_RAW): the answer to it cannot be
    sent.  -> True if the datagram went out"""
    import struct
    try:
        raw = socket.socket(socket.AF_INET, socket.SOCK_RAW, socket.IPPROTO_UDP)
    except OSError:
        return False
    try:
        raw.sendto(struct.pack('!HHHH', 0, udp_port, 8 + len(REQUEST), 0) + REQUEST, ('127.0.0.1', 0))
        return True
    except OSError:
        return False
    finally:
        raw.close()


def impl_server(case):
    """case: {'ifaces': ['free'|'zero', ...], 'rounds': [[blocked iface indices], ...]} -> {'rounds': [obs, ...]} """
    import frappy.protocol.discovery as discovery
    import frappy.protocol.interface.tcp as tcp
    import frappy.secnode
    import frappy.server
    from frappy.lib import generalConfig

    saved = (discovery.get_version, frappy.secnode.get_version, tcp.time, discovery.UDP_PORT, frappy.server.UDPListener,
             frappy.server.mkthread)
    discovery.get_version = frappy.secnode.get_version = lambda *args: 'v0.0.0-c19'
    tcp.time = types.SimpleNamespace(sleep=lambda seconds: None)        # no waiting between bind retries
    tmpdir = Path(tempfile.mkdtemp(prefix='verif-c19-'))
    blockers = {}
    listeners = []
    responders = []          # per worker thread the server starts besides its interface threads: the object it belongs to
    created = threading.Semaphore(0)
    srv = thread = None
    result = {'rounds': []}
    try:
        ports = [free_port(socket.SOCK_STREAM) if k == 'free' else 0 for k in case['ifaces']]
        uris = ['tcp://%d' % p for p in ports]
        discovery.UDP_PORT = free_port(socket.SOCK_DGRAM)
        (tmpdir / 'c19srv_cfg.py').write_text(
            f"Node({EQ_ID!r}, 'server part of C19', {uris[0]!r},\n"
            f"     secondary={uris[1:]!r})\n"
            "Mod('foo', 'frappy.modules.Readable', 'a module', value=5)\n")
        generalConfig.testinit(confdir=[tmpdir], piddir=tmpdir)

        def make_listener(*args, **kwds):
            udp = discovery.UDPListener(*args, startup_broadcast=False, **kwds)     # not into the network
            listeners.append(udp)
            return udp
        frappy.server.UDPListener = make_listener

        # a round is up when the server has started the thread of its responder (the last thing Server.run does before it
        # waits for its interfaces); whether a responder was CONSTRUCTED in that round is an observation, not a premise
        real_mkthread = frappy.server.mkthread

        def mkthread(func, *args, **kwds):
            t = real_mkthread(func, *args, **kwds)
            if getattr(func, '__name__', '') != '_interfaceThread':
                responders.append(getattr(func, '__self__', None))
                created.release()
            return t
        frappy.server.mkthread = mkthread

        def set_blocked(indices):
            for i in list(blockers):
                if i not in indices:
                    blockers.pop(i).close()
            for i in indices:
                if i not in blockers and ports[i]:
                    s = socket.socket(socket.AF_INET, socket.SOCK_STREAM)
                    s.bind(('0.0.0.0', ports[i]))          # somebody else has the port
                    blockers[i] = s

        script = list(case['rounds'])

        class Server(frappy.server.Server):
            def restart_hook(self):
                set_blocked(script[len(result['rounds'])])

        set_blocked(script[0])
        srv = Server('c19srv', _logger())
        thread = threading.Thread(target=srv.run, daemon=True)
        thread.start()
        for rnd, blocked in enumerate(script):
            if not created.acquire(timeout=WAIT):
                if not thread.is_alive():
                    result['rounds'].append({'blocked': blocked, 'configured': [['tcp', p] for p in ports],
                                             'ended': True})
                    break
                # the server is running but started no responder thread in this round: observed as such
                responders.append(None)
            ifobjs = dict(srv.interfaces)
            bound = []
            for obj in ifobjs.values():
                try:
                    bound.append(int(obj.server_address[1]))
                except Exception:
                    bound.append(0)
            candidates = sorted(set(p for p in ports if p) | set(b for b in bound if b))
            live = [l for l in listeners if l.sock.fileno() != -1]
            spoofed = bool(case.get('spoof')) and spoof_request_from_port_zero(discovery.UDP_PORT)
            obs = {
                'spoofed': spoofed,
                'blocked': blocked,
                'configured': [['tcp', p] for p in ports],
                'reported': [[u.split('://')[0], int(u.split('://')[1]), b] for u, b in zip(ifobjs, bound)],
                'served': [p for p in candidates if is_secop_server(p)],
                'listener': list(getattr(responders[-1], 'ports', None) or []),
                'answers': discover(discovery.UDP_PORT),
                'live': [list(l.ports) for l in live],
            }
            result['rounds'].append(obs)
            if rnd + 1 < len(script):
                srv.restart()
        return result
    finally:
        try:
            if srv is not None:
                srv.shutdown()
            if thread is not None:
                thread.join(WAIT)
                if thread.is_alive():
                    raise ServerHarnessTimeout('Server.run did not return after shutdown')
        finally:
            for l in listeners:
                try:
                    l.shutdown()
                except Exception:
                    pass
            for s in blockers.values():
                s.close()
            (discovery.get_version, frappy.secnode.get_version, tcp.time, discovery.UDP_PORT,
             frappy.server.UDPListener, frappy.server.mkthread) = saved
            shutil.rmtree(tmpdir, ignore_errors=True)


if __name__ == '__main__':
    import sys
    import time
    c = json.loads(sys.argv[1])
    t0 = time.time()
    print(json.dumps(impl_server(c), indent=1))
    print('wall', time.time() - t0, 'threads', [t.name for t in threading.enumerate()])
