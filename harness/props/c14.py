"""C14 — State machine: bounded cycles, exactly-once cleanup, last start wins; busy status of the mixin.

The real `frappy.lib.statemachine.StateMachine` (bare) and a real `HasStates` module are driven by generated
programs: state / cleanup functions are closures over a scripted outcome table indexed by the global call
count; op sequences over {cycle, start, stop}; requests also from inside the functions and — at the places where
`cycle` reads `next_task` — from "another thread" (same-thread injection at the read, or a real second thread
that runs the request while the cycle thread waits at the read).  Observation = the history of
requests / calls / returns / interruptions / transitions / pick-ups / status reports.  The Lean model replays
the case and must produce the same history; the Lean monitors judge the implementation's history.

A second, judge-only search preempts `start_machine` / `stop_machine` themselves (line level, real thread):
the model takes these requests as atomic (the code: one lock around them and around `StateMachine._new_state`;
when the cycle thread has to wait for that lock the paused request thread is resumed, see `HLock`).
Module-level requests are recorded as the client issued them (`reqstart` / `reqstop` … `reqdone`), whether or not
they reach the machine (`post`): that they do is a clause the monitors judge.
"""
import json
import os
import sys
import threading

from check import Result
from vlib.shrink import ddmin

META = {
    'level_text': 'Theorems for every program of state/cleanup functions (arbitrary functions of the history), every '
                  'sequence of cycle/start/stop and every placement of concurrent requests at the reads of next_task: '
                  'cycle_calls_bounded (measure and positional), cycle_never_raises, init_flag_exact, cleanup_exactly_once, '
                  'cleanup_not_interrupted (incl.: a state handed over by a state or cleanup function - on every path: '
                  'chaining, stop, restart, exception, non-callable, too many chained states - is entered next, and the '
                  'machine changes its state only when called for; third invariant, Lemmas/StateMachineFollow), '
                  'stop_makes_inactive (incl.: a stop request to the module that finds a state function active has posted '
                  'its stop when it returns), last_start_wins (incl.: a start request to the module has posted its start '
                  'when it returns) are fully proved from coupling invariants between the machine and the observer; '
                  'busy_until_finished is fully proved WITHOUT assumption about the status codes the author declares '
                  '(invariant: engaged and no status declared for this engagement that is not busy => busy status; not '
                  'engaged => status = declared final/stopped status; what earlier engagements declared never counts), '
                  'busy_until_finished_strict is its corollary for modules declaring busy codes only; both for requests '
                  'that are atomic with respect to the transitions of the machine - which the repaired code guarantees by '
                  'one lock (fix d233056) - and refuted for a start_machine pre-empted by a transition (the code before the '
                  'repair).  status_independent_of_history: get_status through the statusMap cache returns what the '
                  'lookup without cache returns, after any sequence of earlier lookups.  The model is tied to '
                  'lib/statemachine.py and states.py by an exhaustive + catalogue (interruptions x cleanups) + multi-run + '
                  'random correspondence run on the real classes, get_status sequences on one instance (also of a derived '
                  'class: MRO inheritance) and Drivable.isBusy over all codes; the Lean monitors judge every implementation '
                  'history, also with start_machine/stop_machine pre-empted between any two of their lines.',
    'level_note': 'Trusted: Lean kernel + axioms propext/Classical.choice/Quot.sound; that the lock makes '
                  'start_machine/stop_machine/final_status atomic with respect to StateMachine._new_state is not a theorem '
                  'but searched (line-level pre-emption of the request thread, the cycle thread waiting for the lock; '
                  'judge-only).',
    'trusted': [
        'attribute names given to start() do not collide with class attributes of StateMachine (otherwise _update_attributes raises inside cycle)',
        'the transition hook does not raise (the hook of HasStates does not, for status codes valid for the module)',
        'final_status is the last action of a function that calls it',
        'threading.RLock / the module accessLock provide mutual exclusion (the atomicity of module-level requests in the model)',
    ],
    'modelled_not_verified': [
        'time (now, delta), log texts, fast-poll switching, poller triggering',
        'Parameter/announceUpdate machinery behind read_status (the value returned by read_status is observed)',
        'HasStates.on_cleanup / on_error / on_restart / on_stop (default cleanup): scripted in the driver, tied by correspondence only',
    ],
    'assumptions': ['all_status_changes = True (default)',
                    'BUSY < ERROR (hypothesis of busy_until_finished; a fact of the generated constants)',
                    'where the author declares a status that is not busy (status= override of the start request in force, '
                    '@status_code of its start state, of the state active when it was issued, or of a state entered since) '
                    'the busy clause demands nothing for that engagement (Obs.lax)'],
}

NSTATES = 5
NCLEAN = 2
DEFAULT_CLEAN = 2    # mixin only: no cleanup given to start_machine -> HasStates.on_cleanup (on_error / on_restart / on_stop)
IDLE0 = [100, '']
# status attached to the state functions of the module (st_0 and st_3 have none; st_4 declares a status that is NOT busy:
# WARN 'waiting' - the author's choice, e.g. a module waiting for a go)
HS_STATUS = {1: [340, 'state 1'], 2: [390, 'st 2'], 4: [200, 'waiting']}
HS_LABELS = {i: 'st %d' % i for i in range(NSTATES)}

CUR = None          # the running case (one at a time)
_ENV = {}


class Case:
    """state of one run against the real code"""

    def __init__(self, case):
        self.case = case
        self.hs = case['hasStates']
        self.script = case['script']
        self.env = {int(k): v for k, v in case.get('env', [])}
        self.threaded = case.get('threaded', False)
        self.events = []
        self.ncall = 0
        self.nslot = 0
        self.in_cycle = False
        self.suppress = 0
        self.cycle_thread = None
        self.reqs = {}          # thread ident -> request being executed
        self.errors = []
        self.choose = None      # lazy enumeration: callable(kind) -> outcome
        self.sm = None
        self.mod = None
        self.split = None       # judge-only race search: (slot_begin, line, slot_end, req)
        self.split_state = None
        self.fin_seen = None    # what the last final_status call declared (default cleanup of the mixin)
        self.lock_waits = 0     # how often a thread had to wait for the pre-empted request to release the lock

    # ---- outcomes -----------------------------------------------------------------
    def outcome(self, kind):
        n = self.ncall
        self.ncall += 1
        if n < len(self.script):
            return self.script[n]
        if self.choose is not None:
            o = self.choose(kind)
            if o is not None:
                self.script.append(o)
                return o
        return {'posts': [], 'fin': None, 'ret': 'retry' if kind == 'state' else 'bad'}

    # ---- slots: requests of "another thread" ------------------------------------------
    def slot(self):
        n = self.nslot
        self.nslot += 1
        if self.split is not None:
            self.split_slot(n)
        reqs = self.env.get(n)
        if not reqs:
            return
        self.suppress += 1
        try:
            for r in reqs:
                if self.threaded:
                    run_in_thread(lambda r=r: self.do_request(r))
                else:
                    self.do_request(r)
        finally:
            self.suppress -= 1

    # ---- requests ---------------------------------------------------------------------
    def do_request(self, r):
        self.reqs[threading.get_ident()] = r
        try:
            if r[0] == 'start':
                _, s, cl, kw, ovr = r
                kwds = {'a%d' % k: v for k, v in kw}
                if self.hs:
                    self.events.append(['reqstart'])
                    if cl != DEFAULT_CLEAN:     # otherwise: rely on start_machine's own default, self.on_cleanup
                        kwds['cleanup'] = None if cl is None else getattr(self.mod, 'cl_%d' % cl)
                    self.mod.start_machine(getattr(self.mod, 'st_%d' % s),
                                           status=None if ovr is None else (ovr[0], ovr[1]), **kwds)
                    self.events.append(['reqdone', True])
                else:
                    if cl is not None:          # no cleanup: rely on start()'s own default
                        kwds['cleanup'] = RAW_CLEAN[cl]
                    self.sm.start(RAW_STATES[s], **kwds)
            else:
                if self.hs:
                    # the request as the client issued it (whether it reaches the machine is for the monitor to judge)
                    self.events.append(['reqstop'])
                    self.mod.stop_machine((r[1][0], r[1][1]))
                    self.events.append(['reqdone', False])
                else:
                    self.sm.stop()
        finally:
            self.reqs.pop(threading.get_ident(), None)

    def fin(self, st):
        if self.hs:
            self.mod.final_status(st[0], st[1])
        else:
            self.sm.idle_status = (st[0], st[1])
            self.sm.cleanup = None

    # ---- user functions ---------------------------------------------------------------
    def user_function(self, kind, idx, sm):
        from frappy.lib.statemachine import Retry, Finish
        if kind == 'state':
            self.events.append(['call', idx, bool(sm.init)])
        else:
            self.events.append(['cleanup', idx])
        o = self.outcome(kind)
        self.suppress += 1
        try:
            for r in o['posts']:
                self.do_request(r)
            if o['fin'] is not None:
                self.fin(o['fin'])
        finally:
            self.suppress -= 1
        ret = o['ret']
        self.events.append(['ret', ret, o['fin']])
        if ret == 'retry':
            return Retry
        if ret == 'finish':
            return Finish
        if ret == 'bad':
            return None if (self.ncall % 2) else 42
        if ret == 'raise':
            raise ValueError('scripted')
        s = ret[1]
        return getattr(self.mod, 'st_%d' % s) if self.hs else RAW_STATES[s]

    # ---- judge-only: preempted request ---------------------------------------------------
    def split_slot(self, n):
        b, line, e, req = self.split
        if n == b and self.split_state is None:
            self.suppress += 1
            try:
                self.split_state = start_preempted(lambda: self.do_request(req), line)
            finally:
                self.suppress -= 1
        elif self.split_state is not None and n >= e and not self.split_state['done']:
            finish_preempted(self.split_state)

    def split_finish(self):
        if self.split_state is not None and not self.split_state['done']:
            finish_preempted(self.split_state)


_SID = {}       # id(callable) -> number, for state functions that carry no __name__


def sid_of(func):
    if func is None:
        return None
    if id(func) in _SID:
        return _SID[id(func)]
    if func.__name__ == 'on_cleanup':
        return DEFAULT_CLEAN
    return int(func.__name__.split('_')[1])


_EXC_REPR = None


def canon_text(text):
    """status texts made from the repr of an exception (HasStates.on_error) -> '<reason>'"""
    global _EXC_REPR
    if _EXC_REPR is None:
        import re
        _EXC_REPR = re.compile(r'^[A-Za-z_]\w*(Error|Exception)\(')
    return '<reason>' if _EXC_REPR.match(text) else text


# ---- a second real thread that executes a request while the cycle thread waits -------------------
def run_in_thread(fn):
    err = []

    def body():
        try:
            fn()
        except Exception as e:  # pragma: no cover
            err.append(e)
    t = threading.Thread(target=body, daemon=True)
    t.start()
    t.join(20)
    if t.is_alive():
        raise TimeoutError('request thread hangs')
    if err:
        raise err[0]


PREEMPT_FUNCS = ('start_machine', 'stop_machine')


def start_preempted(fn, line):
    """run fn in a thread; pause it before its `line`-th line event inside start_machine/stop_machine"""
    st = {'done': False, 'paused': threading.Event(), 'resume': threading.Event(), 'finished': threading.Event(),
          'err': []}
    count = [0]

    def local(frame, event, arg):
        if event == 'line':
            count[0] += 1
            if count[0] == line:
                import linecache
                text = linecache.getline(frame.f_code.co_filename, frame.f_lineno).strip()
                st['site'] = '%s:before:%s' % (frame.f_code.co_name, text.split('#')[0].strip()[:60].strip())
                st['paused'].set()
                if not st['resume'].wait(20):
                    raise TimeoutError('never resumed')
        return local

    def tracer(frame, event, arg):
        if event == 'call' and frame.f_code.co_name in PREEMPT_FUNCS and frame.f_code.co_filename.endswith('states.py'):
            return local
        return None

    def body():
        sys.settrace(tracer)
        try:
            fn()
        except Exception as e:
            st['err'].append(repr(e))
        finally:
            sys.settrace(None)
            st['done'] = True
            st['paused'].set()
            st['finished'].set()
    t = threading.Thread(target=body, daemon=True)
    st['thread'] = t
    t.start()
    if not st['paused'].wait(20):
        raise TimeoutError('request thread did not reach the pause point')
    return st


def finish_preempted(st):
    st['resume'].set()
    if not st['finished'].wait(20):
        raise TimeoutError('request thread hangs')


class HLock:
    """a reentrant lock that knows its owner; stands in for the lock(s) of the machine / the module.

    When a thread finds it held by the request thread that the harness has paused (pre-empted request), that thread
    is resumed first - what a scheduler does when the running thread blocks - instead of dead-locking the harness.
    """

    def __init__(self):
        self._l = threading.RLock()
        self._owner = None
        self._depth = 0

    def mine(self):
        return self._owner == threading.get_ident()

    def acquire(self, blocking=True, timeout=-1):
        if not self._l.acquire(False):
            c = CUR
            st = c.split_state if c is not None else None
            if st is not None and not st['done'] and threading.get_ident() != st['thread'].ident:
                c.lock_waits += 1
                finish_preempted(st)
            if not blocking:
                if not self._l.acquire(False):
                    return False
            elif not self._l.acquire(timeout=20 if timeout is None or timeout < 0 else timeout):
                if timeout is None or timeout < 0:
                    raise TimeoutError('lock of the state machine is never released')
                return False
        self._owner = threading.get_ident()
        self._depth += 1
        return True

    def release(self):
        self._depth -= 1
        if self._depth == 0:
            self._owner = None
        self._l.release()

    def __enter__(self):
        self.acquire()
        return self

    def __exit__(self, *args):
        self.release()


# ---- instrumented machine ------------------------------------------------------------------------
_classes = {}


def get_classes():
    if _classes:
        return _classes
    from frappy.lib.statemachine import StateMachine
    from frappy.core import Drivable, Parameter
    from frappy.datatypes import StatusType, Enum
    import frappy.states as fstates
    from frappy.states import HasStates, status_code
    from frappy.lib import generalConfig

    class TracedSM(StateMachine):
        def __getattribute__(self, name):
            if name == 'next_task':
                c = CUR
                # the read inside `with self._lock:` (the swap) is not a place where another thread can post
                if c is not None and c.in_cycle and not c.suppress and threading.get_ident() == c.cycle_thread \
                        and not object.__getattribute__(self, '_lock').mine():
                    c.slot()
            return object.__getattribute__(self, name)

        def __setattr__(self, name, value):
            object.__setattr__(self, name, value)
            if name == 'next_task' and value is None:
                c = CUR
                if c is not None and c.in_cycle:
                    c.events.append(['take'])

        def _new_state(self, statefunc):
            # slot H: the last point before the transition (hook + change of state) where a request of another thread
            # can take effect - the hook reads next_task.  (With hook and change of state under the lock of the
            # machine it is the point before the lock is taken; without that lock nothing happens between here and
            # the read in the hook.)
            c = CUR
            if c is not None and c.in_cycle and threading.get_ident() == c.cycle_thread:
                c.slot()
            StateMachine._new_state(self, statefunc)

        def start(self, statefunc, **kwds):
            StateMachine.start(self, statefunc, **kwds)
            c = CUR
            if c is not None and threading.get_ident() in c.reqs:
                c.events.append(['post', c.reqs[threading.get_ident()]])

        def stop(self):
            StateMachine.stop(self)
            c = CUR
            if c is not None and threading.get_ident() in c.reqs:
                c.events.append(['post', c.reqs[threading.get_ident()]])

        def _update_attributes(self, kwds):
            StateMachine._update_attributes(self, kwds)
            c = CUR
            if c is not None and c.in_cycle:
                d = object.__getattribute__(self, '__dict__')
                snap = sorted((int(k[1:]), v) for k, v in d.items()
                              if k[0] == 'a' and k[1:].isdigit())
                cl = d.get('cleanup')
                c.events.append(['pickup', sid_of(d.get('statefunc')), None if cl is None else sid_of(cl),
                                 [[k, v] for k, v in snap]])

        def cycle(self):
            c = CUR
            c.events.append(['cb'])
            c.in_cycle = True
            c.cycle_thread = threading.get_ident()
            try:
                StateMachine.cycle(self)
            except Exception as e:
                c.events.append(['raised'])
                c.errors.append(repr(e))
            finally:
                c.in_cycle = False
            d = object.__getattribute__(self, '__dict__')
            c.events.append(['ce', bool(d.get('statefunc')), d.get('next_task') is not None])

    class Log:
        handlers = []

        def debug(self, fmt, *args):
            c = CUR
            if c is None or not isinstance(fmt, str):
                return
            if fmt.startswith('stopped in'):
                c.events.append(['int', 'stop'])
            elif fmt.startswith('restart '):
                c.events.append(['int', 'restart'])

        def warning(self, fmt, *args):
            c = CUR
            if c is not None and isinstance(fmt, str) and fmt.endswith('raised %r'):
                c.events.append(['int', 'error'])

        def info(self, fmt, *args):
            pass

        error = exception = info

    Status = Enum(Drivable.Status, PREPARED=150, PREPARING=340, RAMPING=370, STABILIZING=380, FINALIZING=390)

    class DispatcherStub:
        def __init__(self):
            generalConfig.testinit(omit_unchanged_within=0)

        def announce_update(self, moduleobj, pobj):
            pass

    class ServerStub:
        def __init__(self):
            self.dispatcher = DispatcherStub()
            self.secnode = None

    def mk_state(i):
        def f(self, sm):
            return CUR.user_function('state', i, sm)
        f.__name__ = 'st_%d' % i
        if i in HS_STATUS:
            code, text = HS_STATUS[i]
            f = status_code(Status(code), None if text == HS_LABELS[i] else text)(f)
        return f

    def mk_clean(i):
        def f(self, sm):
            return CUR.user_function('cleanup', i, sm)
        f.__name__ = 'cl_%d' % i
        return f

    ns = {'status': Parameter(datatype=StatusType(Status))}
    for i in range(NSTATES):
        ns['st_%d' % i] = mk_state(i)
    for i in range(NCLEAN):
        ns['cl_%d' % i] = mk_clean(i)

    def state_transition(self, sm, newstate):
        c = CUR
        c.events.append(['enter', sid_of(newstate)])
        c.suppress += 1
        try:
            HasStates.state_transition(self, sm, newstate)
        finally:
            c.suppress -= 1

    def read_status(self):
        v = self._state_machine.status
        c = CUR
        if c is not None:
            c.events.append(['status', [int(v[0]), canon_text(str(v[1]))]])
        return v

    def on_cleanup(self, sm):
        # the default cleanup of the mixin, observed like a cleanup function: what it declares and returns
        c = CUR
        c.events.append(['cleanup', DEFAULT_CLEAN])
        c.fin_seen = None
        c.suppress += 1
        try:
            ret = HasStates.on_cleanup(self, sm)
        finally:
            c.suppress -= 1
        c.events.append(['ret', 'finish' if ret is fstates.Finish else ['next', sid_of(ret)] if callable(ret) else 'bad',
                         c.fin_seen])
        return ret

    def final_status(self, code=Drivable.Status.IDLE, text=''):
        c = CUR
        if c is not None:
            c.fin_seen = [int(Status(code)), canon_text(str(text))]
        return HasStates.final_status(self, code, text)
    ns['state_transition'] = state_transition
    ns['read_status'] = read_status
    ns['on_cleanup'] = on_cleanup
    ns['final_status'] = final_status
    Mod = type('Mod', (HasStates, Drivable), ns)

    class Started(RuntimeError):
        pass

    # a module class derived from it that overrides state functions WITHOUT attaching a status: the status is inherited
    # from the overridden method (get_status walks the MRO)
    def mk_override(i):
        def f(self, sm):
            return CUR.user_function('state', i, sm)
        f.__name__ = 'st_%d' % i
        return f
    Sub = type('Sub', (Mod,), {'st_%d' % i: mk_override(i) for i in (0, 1, 4)})

    def create_module(cls=Mod):
        obj = cls('obj', Log(), {'description': ''}, ServerStub())
        obj.initModule()
        try:
            def started():
                raise Started()
            obj._Module__pollThread(obj.polledModules, started)
        except Started:
            pass
        return obj

    def raw_state(i):
        def f(sm):
            return CUR.user_function('state', i, sm)
        f.__name__ = 'st_%d' % i
        return f

    def raw_clean(i):
        def f(sm):
            return CUR.user_function('cleanup', i, sm)
        f.__name__ = 'cl_%d' % i
        return f

    global RAW_STATES, RAW_CLEAN
    RAW_STATES = [raw_state(i) for i in range(NSTATES)]
    # the bare machine accepts any callable as a state: state 3 is a functools.partial (no __name__)
    import functools
    RAW_STATES[3] = functools.partial(RAW_STATES[3])
    _SID[id(RAW_STATES[3])] = 3
    RAW_CLEAN = [raw_clean(i) for i in range(NCLEAN)]

    def raw_hook(sm, newstate):
        c = CUR
        c.events.append(['enter', sid_of(newstate)])

    _classes.update(TracedSM=TracedSM, Log=Log, Mod=Mod, Sub=Sub, create_module=create_module, raw_hook=raw_hook,
                    fstates=fstates, module=None, Status=Status)
    return _classes


RAW_STATES = []
RAW_CLEAN = []


def impl_run(case, choose=None, next_op=None):
    """run a case against the real code -> (events, errors, script used, ops used)"""
    global CUR
    K = get_classes()
    c = Case(dict(case, script=list(case['script'])))
    c.choose = choose
    if case.get('split'):
        c.split = case['split']
    CUR = None
    if c.hs:
        if K['module'] is None:
            K['module'] = K['create_module']()
        mod = K['module']
        if not isinstance(mod.accessLock, HLock):
            mod.accessLock = HLock()
        saved = K['fstates'].StateMachine
        K['fstates'].StateMachine = K['TracedSM']
        try:
            mod.statusMap = {}
            mod.init_state_machine()
        finally:
            K['fstates'].StateMachine = saved
        c.mod = mod
        c.sm = mod._state_machine
    else:
        c.sm = K['TracedSM'](logger=K['Log'](), transition=K['raw_hook'])
    if not isinstance(object.__getattribute__(c.sm, '_lock'), HLock):
        object.__setattr__(c.sm, '_lock', HLock())      # same discipline, but the harness can ask who holds it
    c.sm.maxloops = case['maxloops']
    CUR = c
    ops = []
    try:
        it = iter(case['ops']) if next_op is None else None
        while True:
            if it is not None:
                op = next(it, None)
            else:
                op = next_op()
            if op is None:
                break
            ops.append(op)
            if op[0] == 'cycle':
                if c.hs:
                    c.mod.cycle_machine()
                else:
                    c.sm.cycle()
            else:
                c.do_request(op[1])
        c.split_finish()
        if c.split is not None:
            # where the request was actually stopped (function and statement), for the signature
            case['site'] = (c.split_state or {}).get('site', 'not-preempted')
            case['lock_waits'] = c.lock_waits
    finally:
        CUR = None
    return c.events, c.errors, c.script, ops


def setup_of(case):
    return {'p': 'C14', 'maxloops': case['maxloops'], 'hasStates': case['hasStates'],
            'statusOf': [[k, v] for k, v in sorted(HS_STATUS.items())] if case['hasStates'] else [],
            'labels': [[k, v] for k, v in sorted(HS_LABELS.items())],
            'idle': IDLE0}


def run_req(case):
    return dict(setup_of(case), k='run', script=case['script'], env=case.get('env', []), ops=case['ops'])


def judge_req(case, events):
    return dict(setup_of(case), k='judge', trace=events)


# ---- generators -------------------------------------------------------------------------------------
EX_OPS = [['cycle'],
          ['req', ['start', 0, 0, [[0, 1]], None]],
          ['req', ['start', 3, None, [[0, 2], [1, 5]], None]],
          ['req', ['stop', [100, 'stopped']]]]
# mixin: the start without cleanup argument runs with the mixin's default cleanup (on_cleanup)
EX_OPS_HS = [EX_OPS[0], EX_OPS[1], ['req', ['start', 3, DEFAULT_CLEAN, [[0, 2], [1, 5]], None]], EX_OPS[3]]
EX_STATE = [{'posts': [], 'fin': None, 'ret': ['next', 1]},
            {'posts': [], 'fin': None, 'ret': 'retry'},
            {'posts': [], 'fin': None, 'ret': 'finish'},
            {'posts': [], 'fin': None, 'ret': 'bad'},
            {'posts': [], 'fin': None, 'ret': 'raise'}]
EX_CLEAN = [{'posts': [], 'fin': None, 'ret': 'bad'},
            {'posts': [], 'fin': None, 'ret': ['next', 2]},
            {'posts': [], 'fin': None, 'ret': 'raise'}]


class NeedChoice(BaseException):
    def __init__(self, n):
        self.n = n


# variant of the alphabet for the module: start A is the state declared WARN (not busy), chained states go on to the
# undecorated st_0, the cleanup sequence to st_2 (busy) - the engagements in which the author declared a non-busy status
EX_OPS_WARN = [EX_OPS[0], ['req', ['start', 4, 0, [[0, 1]], None]],
               ['req', ['start', 3, DEFAULT_CLEAN, [[0, 2], [1, 5]], [150, 'x']]], EX_OPS[3]]
EX_STATE_WARN = [{'posts': [], 'fin': None, 'ret': ['next', 0]}] + EX_STATE[1:]


def exhaustive(hs, depth, maxloops=2, warn=False):
    """lazy enumeration of all executions with at most `depth` choices (ops and behaviours of calls)"""
    stack = [[]]
    while stack:
        prefix = stack.pop()
        pos = [0]

        def pick(options):
            i = pos[0]
            if i < len(prefix):
                pos[0] += 1
                return options[prefix[i]]
            if len(prefix) < depth:
                raise NeedChoice(len(options))
            return None

        def choose(kind):
            return pick((EX_STATE_WARN if warn else EX_STATE) if kind == 'state' else EX_CLEAN)

        def next_op():
            return pick(EX_OPS_WARN if warn else EX_OPS_HS if hs else EX_OPS)
        case = {'hasStates': hs, 'maxloops': maxloops, 'script': [], 'ops': [], 'env': []}
        try:
            events, errors, script, ops = impl_run(case, choose=choose, next_op=next_op)
        except NeedChoice as e:
            for k in range(e.n):
                stack.append(prefix + [k])
            continue
        case['script'] = script
        case['ops'] = ops
        yield case, events, errors


def gen_status(rng, busy=True):
    codes = [300, 340, 370, 380, 390] if busy else [100, 150, 200, 400]
    return [rng.choice(codes), rng.choice(['x', 'st 0', 'state 1', 'st 2', 'restarting', ''])]


def gen_req(rng, hs):
    if rng.random() < 0.65:
        kw = [[k, rng.randint(-3, 3)] for k in sorted(rng.sample(range(4), rng.choice([0, 1, 1, 2, 3])))]
        ovr = gen_status(rng, busy=rng.random() < 0.8) if hs and rng.random() < 0.25 else None
        return ['start', rng.randrange(NSTATES), rng.choice([None, 0, 0, 1, DEFAULT_CLEAN] if hs else [None, 0, 0, 1]), kw, ovr]
    return ['stop', [100, rng.choice(['stopped', 'halt'])] if rng.random() < 0.8 else [150, 'parked']]


def gen_outcome(rng, hs, kind):
    r = rng.random()
    if kind == 'state':
        if r < 0.35:
            ret = ['next', rng.randrange(NSTATES)]
        elif r < 0.6:
            ret = 'retry'
        elif r < 0.75:
            ret = 'finish'
        elif r < 0.87:
            ret = 'bad'
        else:
            ret = 'raise'
    else:
        if r < 0.4:
            ret = 'bad'
        elif r < 0.75:
            ret = ['next', rng.randrange(NSTATES)]
        elif r < 0.85:
            ret = 'raise'
        elif r < 0.93:
            ret = 'finish'
        else:
            ret = 'retry'
    posts = []
    if rng.random() < 0.18:
        posts = [gen_req(rng, hs) for _ in range(rng.choice([1, 1, 2]))]
    fin = None
    if rng.random() < (0.5 if ret == 'finish' else 0.08):
        fin = [rng.choice([100, 100, 200, 400]), rng.choice(['finished', 'done', ''])]
    return {'posts': posts, 'fin': fin, 'ret': ret}


def gen_random(rng, hs, big):
    depth = rng.choice([3, 6, 10, 20, 40])
    ops = []
    for _ in range(depth):
        ops.append(['cycle'] if rng.random() < 0.6 else ['req', gen_req(rng, hs)])
    nscript = rng.choice([5, 20, 60, 150 if big else 60])
    kinds = ['state'] * 4 + ['cleanup']
    script = [gen_outcome(rng, hs, rng.choice(kinds)) for _ in range(nscript)]
    env = []
    if rng.random() < 0.6:
        for s in sorted(rng.sample(range(80), rng.choice([1, 2, 4, 8]))):
            env.append([s, [gen_req(rng, hs) for _ in range(rng.choice([1, 1, 2]))]])
    return {'hasStates': hs, 'maxloops': rng.choice([1, 2, 2, 3, 10]), 'script': script, 'ops': ops, 'env': env,
            'threaded': rng.random() < 0.25}


def _oc(ret, posts=(), fin=None):
    return {'posts': list(posts), 'fin': fin, 'ret': ret}


def gen_cleanup_outcomes(rng, kind=None):
    """what a cleanup function does, as a list of scripted outcomes: the cleanup function itself and - when it hands over a
    state - the calls of the cleanup SEQUENCE that follows (one or more states, with retries, up to its end)"""
    kind = kind or rng.choice(['none', 'seq', 'seq', 'seq2', 'raise', 'finish', 'retry'])
    if kind == 'none':
        return [_oc('bad')]
    if kind in ('raise', 'finish', 'retry'):
        return [_oc(kind)]
    a = rng.randrange(NSTATES)
    out = [_oc(['next', a])] + [_oc('retry')] * rng.choice([0, 1, 1, 2])
    if kind == 'seq2':
        b = rng.randrange(NSTATES)
        out += [_oc(['next', b])] + [_oc('retry')] * rng.choice([0, 1])
    end = rng.choice(['finish', 'finish', 'finfin', 'bad', 'raise'])
    out.append(_oc('finish', fin=[rng.choice([100, 200]), 'parked']) if end == 'finfin' else _oc(end))
    return out


INTERRUPTIONS = ['stop', 'restart', 'raise', 'bad', 'chain', 'error-in-sequence']
CLEANUP_KINDS = ['none', 'seq', 'seq2', 'raise', 'finish', 'retry']


def cleanup_catalogue(rng):
    """every way a run can be interrupted (stop, restart, exception, non-callable return value, too many chained states,
    an error inside a cleanup sequence already running) x every kind of cleanup (none needed, a sequence of one or two
    further states, raising, Finish, Retry) x bare machine / module x loop limits"""
    for hs in (False, True):
        for maxloops in (1, 2, 3, 10):
            for how in INTERRUPTIONS:
                for ck in CLEANUP_KINDS:
                    s0 = rng.randrange(NSTATES)
                    start = ['req', ['start', s0, rng.choice([0, 1]), [[0, 1]], None]]
                    ops = [start, ['cycle']]
                    script = [_oc('retry')]
                    cl = gen_cleanup_outcomes(rng, ck)
                    if how == 'stop':
                        ops += [['req', ['stop', [100, 'stopped']]]]
                    elif how == 'restart':
                        ops += [['req', ['start', rng.randrange(NSTATES), None, [[1, 2]], None]]]
                    elif how in ('raise', 'bad'):
                        script += [_oc(how)]
                    elif how == 'chain':
                        script += [_oc(['next', rng.randrange(NSTATES)]) for _ in range(maxloops)]
                    else:   # a stop starts the cleanup sequence, then a state of that sequence fails
                        ops += [['req', ['stop', [100, 'stopped']]]]
                        cl = [_oc(['next', rng.randrange(NSTATES)]), _oc('retry'), _oc(rng.choice(['raise', 'bad']))]
                    script += cl
                    ops += [['cycle']] * (3 + len(cl))
                    yield {'hasStates': hs, 'maxloops': maxloops, 'script': script, 'ops': ops, 'env': []}


def gen_runs(rng, hs):
    """several runs, one after the other, on ONE machine / module instance: each run starts at some state (with or without
    attached status, busy or not, with or without status override), walks through a few states and ends by Finish, error,
    too many chained states, or is stopped / restarted on the way; the cleanup may be a sequence of states.  What a run
    leaves behind (attributes, caches, reasons, idle status) meets the next run."""
    ops, script = [], []
    maxloops = rng.choice([2, 3, 10])
    carry = []          # outcomes of the cleanup of a run that is being restarted: they come first in the next run
    for _ in range(rng.choice([2, 3, 3, 4])):
        s = rng.randrange(NSTATES)
        cl = rng.choice([None, 0, 1, DEFAULT_CLEAN] if hs else [None, 0, 1])
        ovr = None
        if hs and rng.random() < 0.2:
            ovr = gen_status(rng, busy=rng.random() < 0.5)
        kw = [[k, rng.randint(-3, 3)] for k in sorted(rng.sample(range(4), rng.choice([0, 1, 2])))]
        ops.append(['req', ['start', s, cl, kw, ovr]])
        script += carry
        ops += [['cycle']] * (1 + sum(1 for o in carry if o['ret'] == 'retry'))
        carry = []
        scripted_cl = cl in (0, 1)
        nwalk = rng.choice([1, 2, 2, 3])
        for i in range(nwalk):
            n = rng.choice([0, 1, 1, 2])
            script += [_oc('retry')] * n
            ops += [['cycle']] * n
            if i < nwalk - 1:
                script.append(_oc(['next', rng.randrange(NSTATES)]))
        end = rng.choice(['finish', 'finish', 'stop', 'stop', 'stop', 'restart', 'bad', 'raise', 'chain'])
        if end in ('stop', 'restart'):
            script.append(_oc('retry'))
            ops.append(['cycle'])
            clo = gen_cleanup_outcomes(rng) if scripted_cl else []
            if end == 'stop':
                ops.append(['req', ['stop', [100, 'stopped'] if rng.random() < 0.8 else [150, 'parked']]])
                script += clo
                ops += [['cycle']] * (1 + sum(1 for o in clo if o['ret'] == 'retry'))
            else:
                carry = clo
        else:
            if end == 'finish':
                script.append(_oc('finish', fin=rng.choice([None, [100, 'done'], [200, 'done']])))
            elif end == 'chain':
                script += [_oc(['next', rng.randrange(NSTATES)]) for _ in range(maxloops)]
            else:
                script.append(_oc(end))
            clo = gen_cleanup_outcomes(rng) if scripted_cl and end != 'finish' else []
            script += clo
            ops += [['cycle']] * (1 + sum(1 for o in clo if o['ret'] == 'retry'))
        if rng.random() < 0.3:
            ops.append(['cycle'])
    ops += [['cycle']] * 2
    env = []
    if rng.random() < 0.25:
        for sl in sorted(rng.sample(range(60), rng.choice([1, 2]))):
            env.append([sl, [gen_req(rng, hs)]])
    return {'hasStates': hs, 'maxloops': maxloops, 'script': script, 'ops': ops, 'env': env, 'threaded': rng.random() < 0.2}


def gen_split(rng):
    """judge-only: a module-level request preempted between two of its lines by the cycle thread"""
    case = gen_random(rng, True, False)
    case['threaded'] = False
    b = rng.randrange(0, 12)
    e = b + rng.choice([1, 1, 2, 3, 5])
    case['split'] = [b, rng.randint(1, 9), e, gen_req(rng, True)]
    if rng.random() < 0.3:
        # a further request (third thread) while the pre-empted one is in flight
        sl = rng.randrange(b, e + 1)
        case['env'] = sorted([x for x in case['env'] if x[0] != sl] + [[sl, [gen_req(rng, True)]]])
    if not any(op[0] == 'cycle' for op in case['ops']):
        case['ops'].append(['cycle'])
    return case


# ---- classification ------------------------------------------------------------------------------------
def features(events):
    kinds = set()
    ncl = 0
    prev = None
    for e in events:
        if e[0] == 'int':
            kinds.add('int:' + e[1])
        elif e[0] == 'cleanup':
            ncl += 1
        elif e[0] == 'pickup':
            kinds.add('pickup')
        elif e[0] == 'ret' and e[1] == 'finish':
            kinds.add('finish')
        if e[0] == 'ret' and prev is not None and prev[0] == 'cleanup' and isinstance(e[1], list):
            kinds.add('cleanup-sequence')
        if e[0] == 'enter' and e[1] is not None and HS_STATUS.get(e[1], [300])[0] < 300:
            kinds.add('entered-state-declared-not-busy')
        if e[0] == 'post' and e[1][0] == 'start' and e[1][4] is not None and not 300 <= e[1][4][0] < 400:
            kinds.add('override-not-busy')
        if e[0] in ('call', 'cleanup', 'ret'):
            prev = e
    if sum(1 for e in events if e[0] == 'pickup') > 1:
        kinds.add('several-runs')
    if ncl:
        kinds.add('cleanup')
    return kinds


def sig_of(case, bad):
    mode = 'hs' if case['hasStates'] else 'raw'
    clause = bad[0][1]
    return 'C14:%s:%s%s' % (mode, clause, (':preempted:' + case.get('site', '?')) if case.get('split') else '')


def check_cases(ctx, res, batch, label, compare=True):
    """batch: list of (case, events, errors)"""
    reqs = []
    for case, events, errors in batch:
        if compare:
            reqs.append(run_req(case))
        reqs.append(judge_req(case, events))
    answers = ctx.driver.batch(reqs)
    step = 2 if compare else 1
    for j, (case, events, errors) in enumerate(batch):
        model = answers[step * j] if compare else None
        judge = answers[step * j + step - 1]
        for a in (model, judge):
            if a is not None and 'driver_error' in a:
                raise RuntimeError(f'driver error: {a} for {json.dumps(case)[:400]}')
        res.evaluations += 1
        res.traces += 1
        f = features(events)
        res.count(label + '.' + ('hs' if case['hasStates'] else 'raw'))
        if case.get('split'):
            res.count('preempted.' + ('cycle-thread-waited-for-the-lock-held-by-the-request' if case.get('lock_waits')
                                      else 'request-resumed-at-its-slot'))
        for k in sorted(f):
            res.count('feature.' + k)
        if not f:
            res.count('feature.none')
        if 'cleanup' in f and ('pickup' in f or 'int:stop' in f):
            res.nontriv({'ops': case['ops'], 'script': case['script'], 'env': case.get('env'), 'hs': case['hasStates'],
                         'split': case.get('split')})
        if len(res.samples) < 4 and 'cleanup' in f and 'pickup' in f and len(events) < 40 and label != 'exhaustive':
            res.samples.append({'case': case, 'history': events})
        if compare and ctx.model_ok and model['trace'] != events:
            k = next((i for i, (a, b) in enumerate(zip(model['trace'], events)) if a != b),
                     min(len(events), len(model['trace'])))
            res.disagreements.append({'case': case, 'first_difference': k, 'model': model['trace'][max(0, k - 3):k + 3],
                                      'impl': events[max(0, k - 3):k + 3]})
        if compare and ctx.model_ok and model.get('bad'):
            # the model's own history breaks a clause: the stated (unproved) clauses do not hold of the model
            res.disagreements.append({'case': case, 'model_violates_spec': model['bad'][:3]})
        if judge['bad']:
            report_violation(ctx, res, case, events, errors, judge['bad'])


_shrunk = [0]


def report_violation(ctx, res, case, events, errors, bad):
    sig = sig_of(case, bad)
    if any(v['sig'] == sig for v in res.violations):
        return
    small = case
    if _shrunk[0] < 4 and not case.get('split'):
        _shrunk[0] += 1

        def fails(ops):
            c2 = dict(case, ops=ops)
            ev, _, _, _ = impl_run(c2)
            a = ctx.driver.batch([judge_req(c2, ev)])[0]
            return bool(a.get('bad')) and sig_of(c2, a['bad']) == sig
        try:
            small = dict(case, ops=ddmin(case['ops'], fails, max_tests=150))
        except Exception:
            small = case
        events, errors, _, _ = impl_run(small)
        bad = ctx.driver.batch([judge_req(small, events)])[0]['bad'] or bad
    i, clause = bad[0]
    res.violations.append({'sig': sig,
                           'what': f'{clause} violated at event {i} of the history of the real '
                                   f'{"HasStates module" if case["hasStates"] else "StateMachine"}: '
                                   f'{json.dumps(events[max(0, i - 6):i + 1])}'
                                   + (f' (request {case["split"][3]} preempted before its line {case["split"][1]} at slot '
                                      f'{case["split"][0]}, resumed at slot {case["split"][2]})' if case.get('split') else '')
                                   + (f' errors={errors}' if errors else ''),
                           'case': small,
                           'detail': {'violations': bad[:5], 'history': events[:200]}})


# ---- glue around the modelled core: get_status with its cache, the busy predicate -----------------------------
def rules_req(k, **kw):
    return dict(setup_of({'maxloops': 2, 'hasStates': True}), k=k, **kw)


def canon_status(v):
    return None if v is None else [int(v[0]), str(v[1])]


def check_glue(ctx, res):
    K = get_classes()
    rng = ctx.rng
    # -- Drivable.isBusy against the model's predicate: every code, with and without argument
    mod = K['create_module']()
    codes = list(range(0, 520))
    impl = [bool(mod.isBusy((c, 'x'))) for c in codes]
    noarg = []
    for member in K['Status'].members:
        mod.status = (member, 'x')
        noarg.append([int(member), bool(mod.isBusy())])
    a = ctx.driver.batch([rules_req('isbusy', codes=codes), rules_req('isbusy', codes=[c for c, _ in noarg]),
                          rules_req('judge_isbusy', table=[[c, b] for c, b in zip(codes, impl)] + noarg)])
    res.evaluations += 2
    res.traces += 1
    res.count('glue.isbusy')
    if a[2]['bad']:
        res.violations.append({'sig': 'C14:hs:busy_predicate',
                               'what': f'busy_until_finished:busy-predicate: Drivable.isBusy classifies the status codes '
                                       f'{a[2]["bad"][:6]} differently from BUSY <= code < ERROR',
                               'case': {'isbusy': a[2]['bad'][:6]}})
    if ctx.model_ok:
        if a[0]['busy'] != impl:
            k = next(i for i, (x, y) in enumerate(zip(a[0]['busy'], impl)) if x != y)
            res.disagreements.append({'case': {'isBusy': codes[k]}, 'model': a[0]['busy'][k], 'impl': impl[k]})
        if a[1]['busy'] != [b for _, b in noarg]:
            res.disagreements.append({'case': {'isBusy()': 'status of the module'}, 'model': a[1]['busy'], 'impl': noarg})
    # -- sequences of get_status lookups on ONE module instance (fresh cache), Mod and the derived class
    dflts = [None, None, 100, 200, 300, 300, 340, 390, 400]
    mods = {'Mod': mod, 'Sub': K['create_module'](K['Sub'])}
    cases, impls = [], []
    for i in range(ctx.budget(200, 2000)):
        cls = 'Sub' if i % 3 == 2 else 'Mod'
        m = mods[cls]
        m.statusMap = {}
        qs = [[rng.randrange(NSTATES), rng.choice(dflts)] for _ in range(rng.choice([1, 2, 4, 8, 12]))]
        out = [canon_status(m.get_status(getattr(m, 'st_%d' % s), d)) for s, d in qs]
        cache = sorted([int(k.split('_')[1]), canon_status(v)] for k, v in m.statusMap.items())
        cases.append({'class': cls, 'lookups': qs})
        impls.append({'results': out, 'cache': cache})
        m.statusMap = {}
    answers = ctx.driver.batch([rules_req('getstatus', lookups=c['lookups']) for c in cases])
    for c, im, a in zip(cases, impls, answers):
        if 'driver_error' in a:
            raise RuntimeError(f'driver error: {a}')
        res.evaluations += 1
        res.count('glue.getstatus.' + c['class'])
        if ctx.model_ok and (a['results'] != im['results'] or a['cache'] != im['cache']):
            res.disagreements.append({'case': c, 'model': a, 'impl': im})


# ---- entry points -----------------------------------------------------------------------------------------
def run(ctx):
    res = Result()
    res.rule = ('exhaustive: every execution with at most D choices (ops from {cycle, start A with cleanup, start B '
                '[mixin: with the default cleanup on_cleanup], stop}; '
                'behaviours of each call from {next, retry, finish, non-callable, raise} resp. {None, state, raise}), maxloops=2, '
                'bare machine and HasStates module; random: op sequences up to depth 40 with requests from inside the '
                'functions, final_status, requests injected at the reads of next_task (same thread or a real second thread); '
                'catalogue: every interruption (stop, restart, exception, non-callable, too many chained states, error '
                'inside a cleanup sequence) x every kind of cleanup (none, sequence of one or two states, raise, Finish, Retry) '
                'x bare/module x maxloops 1,2,3,10; runs: 2-4 runs one after the other on ONE instance (start states with / '
                'without attached status, busy or not, overrides busy or not; ended by Finish, error, chain limit, stop, restart; '
                'cleanup sequences); glue: get_status lookup sequences on one instance (Mod and a derived class), isBusy for '
                'all codes; '
                'preempted: start_machine/stop_machine stopped between two of their lines (judge only). '
                'non-trivial = a cleanup function ran and (a start was taken or a stop interrupted)')
    thorough = ctx.tier == 'thorough'
    rng = ctx.rng
    # ---------- corpus first ----------
    cdir = os.path.join(ctx.verif, 'corpus', 'C14')
    batch = []
    if os.path.isdir(cdir):
        for fn in sorted(os.listdir(cdir)):
            case = json.load(open(os.path.join(cdir, fn)))['case']
            ev, err, _, _ = impl_run(case)
            batch.append((case, ev, err))
    check_cases(ctx, res, [b for b in batch if not b[0].get('split')], 'corpus')
    check_cases(ctx, res, [b for b in batch if b[0].get('split')], 'corpus', compare=False)
    # ---------- glue: get_status / statusMap, isBusy ----------
    check_glue(ctx, res)
    # ---------- exhaustive ----------
    depth = (7 if thorough else 6) + (1 if ctx.escalated else 0)
    for hs in (False, True):
        batch = []
        for case, ev, err in exhaustive(hs, depth):
            batch.append((case, ev, err))
            if len(batch) >= 20000:
                check_cases(ctx, res, batch, 'exhaustive')
                batch = []
        check_cases(ctx, res, batch, 'exhaustive')
    # the module with the alphabet in which a status that is not busy is declared (state and override), one level less deep
    batch = [(case, ev, err) for case, ev, err in exhaustive(True, depth - 1, warn=True)]
    check_cases(ctx, res, batch, 'exhaustive-warn')
    # ---------- catalogue: interruptions x cleanups ----------
    batch = []
    for _ in range(1 if not thorough else 5):
        for case in cleanup_catalogue(rng):
            ev, err, _, _ = impl_run(case)
            batch.append((case, ev, err))
    check_cases(ctx, res, batch, 'catalogue')
    # ---------- several runs on one instance ----------
    batch = []
    for i in range(ctx.budget(600, 12000)):
        case = gen_runs(rng, i % 3 != 0)
        ev, err, _, _ = impl_run(case)
        batch.append((case, ev, err))
    check_cases(ctx, res, batch, 'runs')
    # ---------- random ----------
    batch = []
    for i in range(ctx.budget(1500, 30000)):
        case = gen_random(rng, i % 2 == 1, thorough)
        ev, err, _, _ = impl_run(case)
        batch.append((case, ev, err))
    check_cases(ctx, res, batch, 'random')
    # ---------- preempted requests (judge only) ----------
    batch = []
    for i in range(ctx.budget(300, 6000)):
        case = gen_split(rng)
        ev, err, _, _ = impl_run(case)
        batch.append((case, ev, err))
    check_cases(ctx, res, batch, 'preempted', compare=False)
    return res


def replay(ctx, rp):
    case = rp['case']
    if 'isbusy' in case:
        mod = get_classes()['create_module']()
        table = [[c, bool(mod.isBusy((c, 'x')))] for c in case['isbusy']]
        a = ctx.driver.batch([rules_req('judge_isbusy', table=table)])[0]
        print('isBusy :', table)
        print('judge  :', a)
        return 1 if a.get('bad') else 0
    events, errors, _, _ = impl_run(case)
    reqs = [judge_req(case, events)]
    if not case.get('split'):
        reqs.append(run_req(case))
    a = ctx.driver.batch(reqs)
    print('case   :', json.dumps(case))
    print('impl   :', json.dumps(events))
    if errors:
        print('errors :', errors)
    if len(a) > 1:
        print('model  :', json.dumps(a[1].get('trace')))
        print('same   :', a[1].get('trace') == events)
    print('judge  :', a[0])
    return 1 if a[0].get('bad') else 0
