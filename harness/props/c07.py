"""C07 — One well-formed reply per request line, for any bytes and any chunking; codec inverse."""
import contextlib
import io
import json
import logging
import os

from check import Result
from vlib.shrink import ddmin

META = {
    'level_text': 'Theorems for all byte streams, all segmentations and all dispatchers: feed_chunks_eq_concat (lines and residual '
                  'buffer depend only on the concatenation), one_reply_per_line, serve_total (whatever the dispatcher returns or '
                  'raises), reply_action_fits (table generated from REQUEST2REPLY, table facts by decide), error_class_is_secop, '
                  'independent_lines, lines_whole, codec_inverse over an abstract JSON layer.  The models are tied to '
                  'frappy/protocol/interface/{__init__,handler,tcp}.py by a correspondence run on the real TCPRequestHandler over a '
                  'scripted socket (stub dispatcher doing anything + the real Dispatcher over a small real node), and the Lean '
                  'monitors judge the bytes the handler actually sent.',
    'level_note': 'Trusted: Lean kernel + axioms propext/Classical.choice/Quot.sound; Python json and the UTF-8 codec enter the '
                  'model as parameters with the laws of Spec.C07.LibLaws; strictness of emitted JSON and validity of emitted UTF-8 are '
                  'tested on the implementation side only; ThreadingTCPServer and the socket are not modelled (a send is an atomic '
                  'append that succeeds).',
    'trusted': [
        'LibLaws: json.loads(json.dumps(x)) == x; json.dumps output is non-empty ASCII without newline that begins and ends with a '
        'printable non-blank character; UTF-8 validity of a text joined by blanks is validity of the parts',
        'splitting a decoded text at U+0020 is splitting its UTF-8 bytes at 0x20',
        'driver glue: utf8ok / json.loads of the model are answered by the real Python functions on the arguments the model passes '
        '(oracle tables)',
        'the dispatcher raises only subclasses of Exception (KeyboardInterrupt/SystemExit are not answered)',
        'sends succeed (the peer reads); a failing sendall ends the connection by design',
    ],
    'modelled_not_verified': [
        'socketserver.ThreadingTCPServer / socket.recv / sendall (scripted fake socket)',
        'threading.Lock around sendall (send = atomic append of one frame)',
        'formatException / formatExtendedStack texts inside error reports (not observed; formatExtendedStack is replaced by a stub during the run because it repr()s every local of the harness frames)',
    ],
    'assumptions': [
        'DispFits (hypothesis of reply_action_fits / lines_whole): positive replies of the dispatcher are well-formed triples that belong '
        'to the request; checked on the real Dispatcher by the monitors',
        'observation = per emitted line (action, specifier, error class, has data); message texts and time stamps are not compared',
    ],
}

HERE = os.path.dirname(os.path.abspath(__file__))


# ----------------------------------------------------------------------------------------
# the real handler around a scripted socket
# ----------------------------------------------------------------------------------------
class FakeSock:
    def __init__(self, chunks):
        self.chunks = list(chunks)
        self.out = []

    def settimeout(self, t):
        pass

    def recv(self, n):
        return self.chunks.pop(0) if self.chunks else b''

    def sendall(self, b):
        self.out.append(bytes(b))

    def shutdown(self, how):
        pass

    def close(self):
        pass


class RecLog:
    def __init__(self):
        self.errors = []

    def error(self, *a):
        self.errors.append(a)

    def exception(self, *a):
        self.errors.append(a)

    def info(self, *a):
        pass

    debug = warning = info


def hx(b):
    return bytes(b).hex()


def enc(s):
    return None if s is None else s.encode('utf-8', 'surrogatepass')


def triple_rec(t):
    """a triple as the Lean side wants it, or None when it is not a sendable triple"""
    try:
        action, spec, data = t
        if not isinstance(action, str) or not (spec is None or isinstance(spec, str)):
            return None
        d = None if data is None else json.dumps(data)
        return {'a': hx(enc(action)), 's': None if spec is None else hx(enc(spec)), 'd': None if d is None else hx(d.encode())}
    except Exception:
        return None


def frame_rec(frame):
    """a triple record recovered from an emitted frame (used for lines the real dispatcher sends itself)"""
    p = frame.rstrip(b'\n').split(b' ', 2) + [b'', b'']
    return {'a': hx(p[0]), 's': hx(p[1]) if p[1] else None, 'd': hx(p[2]) if p[2] else None}


SECOP_BY_NAME = {}


def secop_by_name():
    if not SECOP_BY_NAME:
        import frappy.errors as fe
        todo = [fe.SECoPError]
        while todo:
            c = todo.pop()
            if 'name' in c.__dict__ or c is fe.SECoPError:
                SECOP_BY_NAME.setdefault(c.name, c)
            todo += c.__subclasses__()
    return SECOP_BY_NAME


class StubDispatcher:
    """does, per call, what the plan says (cyclic); records what it was asked and what it did"""

    def __init__(self, plan):
        self.plan = plan or ['ok']
        self.calls = []
        self.script = []
        self.sock = None

    def add_connection(self, conn):
        pass

    def remove_connection(self, conn):
        pass

    def handle_request(self, conn, msg):
        from frappy.protocol.messages import REQUEST2REPLY, IDENTREQUEST, IDENTREPLY, EVENTREPLY, LOG_EVENT
        from frappy.errors import ProtocolError
        kind = self.plan[len(self.calls) % len(self.plan)]
        self.calls.append(msg)
        action, spec, data = msg
        rec = {'async': []}
        self.script.append(rec)
        if kind.startswith('ok'):
            if action == IDENTREQUEST:
                reply = (IDENTREPLY, None, None)
            elif action in REQUEST2REPLY:
                rdata = {'ok': None, 'okd': [1.5, {'t': 12.25}], 'oka': None, 'oke': data}[kind]
                reply = (REQUEST2REPLY[action], spec, rdata)
            else:
                rec.update(r='secop', cls=hx(b'ProtocolError'))
                raise ProtocolError('unhandled message')
            if kind == 'oka':
                for m in [(EVENTREPLY, 'm:value', [1, {}]), (LOG_EVENT, 'm:error', 'text'), (EVENTREPLY, 'm:_s', ['x y  z', {}])]:
                    rec['async'].append(triple_rec(m))
                    conn.send_reply(m)
            rec.update(r='ok', **triple_rec(reply))
            return reply
        if kind.startswith('secop:'):
            cls = secop_by_name()[kind[6:]]
            rec.update(r='secop', cls=hx(cls.name.encode()))
            raise cls('scripted %s' % kind)
        if kind.startswith('exc'):
            rec.update(r='exc')
            raise {'exc': KeyError('k'), 'excz': ZeroDivisionError(), 'excu': UnicodeDecodeError('utf-8', b'\xff', 0, 1, 'x'),
                   'excr': RecursionError(), 'exca': AssertionError('a\nb'), 'excs': StopIteration()}[kind]
        rec.update(r='garbage')
        return {'none': None, 'empty': (), 'int': 5, 'unser': ('reply', spec, {1, 2}),
                'errshape': ('error_x', None, None), 'nonstr': (5, None, None), 'list0': [], 'str0': '',
                'obj': ('done', spec, object())}[kind]


STUB_KINDS = ['ok', 'ok', 'okd', 'okd', 'oka', 'oke', 'secop:NoSuchModule', 'secop:ProtocolError', 'secop:RangeError',
              'secop:InternalError', 'secop:TimeoutError', 'secop:NotImplemented', 'exc', 'excz', 'excu', 'excr', 'exca', 'excs',
              'none', 'empty', 'int', 'unser', 'errshape', 'nonstr', 'list0', 'str0', 'obj']


class RecordingDispatcher:
    """the real dispatcher; records per call what it did, so that the wire model can be run with the same dispatcher behaviour"""

    def __init__(self, real):
        self.real = real
        self.calls = []
        self.script = []
        self.sock = None

    def add_connection(self, conn):
        self.real.add_connection(conn)

    def remove_connection(self, conn):
        self.real.remove_connection(conn)

    def handle_request(self, conn, msg):
        from frappy.errors import SECoPError
        self.calls.append(msg)
        rec = {'async': []}
        self.script.append(rec)
        n0 = len(self.sock.out)
        try:
            reply = self.real.handle_request(conn, msg)
        except SECoPError as e:
            rec.update(r='secop', cls=hx(str(e.name).encode()))
            raise
        except Exception:
            rec.update(r='exc')
            raise
        finally:
            rec['async'] = [frame_rec(f) for f in self.sock.out[n0:]]
        t = triple_rec(reply) if reply else None
        if t is None:
            rec.update(r='garbage')
        else:
            rec.update(r='ok', **t)
        return reply


class ServerStub:
    def __init__(self, dispatcher):
        self.dispatcher = dispatcher
        self.log = RecLog()
        self.detailed_errors = False


_node_counter = [0]


def make_real_node(nan):
    """a small real node: SecNode + Dispatcher + two modules, without Server"""
    import mlzlog
    import frappy.secnode
    frappy.secnode.get_version = lambda *a: 'verif'
    from frappy.datatypes import FloatRange, StringType
    from frappy.logging import RemoteLogHandler
    from frappy.modules import Command, Parameter, Writable
    from frappy.protocol.dispatcher import Dispatcher
    from frappy.secnode import SecNode

    class Mod(Writable):
        value = Parameter('v', FloatRange(), default=1.5)
        target = Parameter('t', FloatRange(), default=0)
        s = Parameter('s', StringType(), default='', readonly=False)
        raw = 0.5

        def read_value(self):
            return self.raw

        def write_target(self, v):
            self.raw = v
            return v

        @Command(FloatRange(), result=FloatRange())
        def twice(self, x):
            """twice"""
            return 2 * x

        @Command()
        def stop(self):
            """stop"""

    class Srv:
        restart = shutdown = None

    _node_counter[0] += 1
    root = mlzlog.MLZLogger('c07n%d' % _node_counter[0])
    root.setLevel(logging.DEBUG)
    root.addHandler(RemoteLogHandler())
    srv = Srv()
    srv.log = root.getChild('srv')
    srv.module_cfg = {'m': {'cls': Mod, 'description': 'a module'}, 'n': {'cls': Mod, 'description': 'another'}}
    seclog = root.getChild('secnode')
    seclog.parent = root
    srv.secnode = SecNode('node', seclog, {}, srv)
    srv.dispatcher = Dispatcher('disp', root.getChild('dispatcher'), {}, srv)
    srv.secnode.add_secnode_property('description', 'node')
    srv.secnode.create_modules()
    for name in list(srv.secnode.modules):
        srv.secnode.get_module(name)
    if nan:
        srv.secnode.modules['m'].raw = float('nan')
    return srv


def _reject(name):
    raise ValueError('not strict JSON: ' + name)


def line_flags(frame):
    """the two implementation-side tests of the statement, per emitted line"""
    try:
        text = frame.decode('utf-8')
        utf8 = True
    except UnicodeDecodeError:
        return [False, True]
    data = (text.rstrip('\n').split(' ', 2) + ['', ''])[2]
    strict = True
    if data != '':
        try:
            json.loads(data, parse_constant=_reject)
        except Exception:
            strict = False
    return [utf8, strict]


def obs_frame(frame):
    """(action, specifier, error class, has data) of an emitted line; canonicalisation only"""
    p = (frame[:-1] if frame.endswith(b'\n') else frame).split(b' ', 2) + [b'', b'']
    cls = None
    if p[2].startswith(b'["') and b'"' in p[2][2:]:
        cls = hx(p[2][2:p[2].index(b'"', 2)])
    return {'a': hx(p[0]), 's': hx(p[1]), 'c': cls, 'd': p[2] != b''}


def run_impl(case):
    """deliver the chunks to a real TCPRequestHandler; returns what it sent and what the dispatcher saw/did"""
    from frappy.protocol.interface.tcp import TCPRequestHandler
    import frappy.protocol.interface.handler as fh
    # the stack dumps inside error reports repr() every local of every frame (including the harness's case lists);
    # their text is not observed (detailed_errors is off, the dict is cleared before sending)
    fh.formatExtendedStack = lambda *a, **k: ''
    fh.formatExtendedTraceback = lambda *a, **k: ''
    chunks = [bytes.fromhex(c) for c in case['chunks']]
    sock = FakeSock(chunks)
    disp = case['disp']
    if disp['kind'] == 'stub':
        d = StubDispatcher(disp['plan'])
    else:
        d = RecordingDispatcher(make_real_node(disp.get('nan', False)).dispatcher)
    d.sock = sock
    srv = ServerStub(d)
    with contextlib.redirect_stdout(io.StringIO()):
        TCPRequestHandler(sock, ('127.0.0.1', 4711), srv)
    died = [e for e in srv.log.errors if e and isinstance(e[0], str) and e[0].startswith('Traceback')]
    return {'outs': sock.out, 'calls': d.calls, 'script': d.script, 'died': bool(died),
            'died_text': died[0][0][-400:] if died else None}


def oracle_tables(ctx, streams):
    """utf8ok / json.loads answers of the real Python functions on the arguments the model will pass"""
    answers = ctx.driver.batch([{'p': 'C07', 'k': 'split', 'stream': hx(s)} for s in streams])
    res = []
    for a in answers:
        if 'driver_error' in a:
            raise RuntimeError(a)
        utf8, js = {}, {}
        for ln in a['lines']:
            s = bytes.fromhex(ln['s'])
            if ln['s'] not in utf8:
                try:
                    s.decode('utf-8')
                    utf8[ln['s']] = True
                except UnicodeDecodeError:
                    utf8[ln['s']] = False
            if utf8[ln['s']] and ln['d'] and ln['d'] not in js:
                try:
                    json.loads(bytes.fromhex(ln['d']).decode('utf-8'))
                    js[ln['d']] = True
                except Exception:   # JSONDecodeError, RecursionError
                    js[ln['d']] = False
        res.append(([[k, v] for k, v in utf8.items()], [[k, v] for k, v in js.items()]))
    return res


def same_data(model_hex, impl_data):
    if model_hex is None:
        return impl_data is None
    try:
        return json.dumps(json.loads(bytes.fromhex(model_hex).decode('utf-8'))) == json.dumps(impl_data)
    except Exception:
        return False


def evaluate(ctx, cases):
    """runs cases on implementation and model; returns list of dicts (impl, model answer, judge answer)"""
    impls = [run_impl(c) for c in cases]
    streams = [b''.join(bytes.fromhex(x) for x in c['chunks']) for c in cases]
    # one oracle table per distinct stream
    distinct = list(dict.fromkeys(streams))
    tables = dict(zip(distinct, oracle_tables(ctx, distinct)))
    reqs = []
    for c, im, s in zip(cases, impls, streams):
        utf8, js = tables[s]
        reqs.append({'p': 'C07', 'k': 'serve', 'chunks': c['chunks'], 'utf8': utf8, 'json': js, 'script': im['script']})
        reqs.append({'p': 'C07', 'k': 'judge', 'stream': hx(s), 'outs': [hx(o) for o in im['outs']],
                     'flags': [line_flags(o) for o in im['outs']]})
    ans = ctx.driver.batch(reqs)
    out = []
    for i, (c, im, s) in enumerate(zip(cases, impls, streams)):
        model, judge = ans[2 * i], ans[2 * i + 1]
        if 'driver_error' in model or 'driver_error' in judge:
            raise RuntimeError(f'driver error: {model} {judge} on {c}')
        out.append({'case': c, 'impl': im, 'model': model, 'judge': judge, 'stream': s})
    return out


def compare(ev):
    """model vs implementation through the observation function; returns None or a disagreement record"""
    im, model = ev['impl'], ev['model']
    impl_obs = [obs_frame(o) for o in im['outs']]
    model_obs = [{k: o[k] for k in 'ascd'} for o in model['outs']]
    if impl_obs != model_obs:
        k = next((i for i, (a, b) in enumerate(zip(impl_obs, model_obs)) if a != b), min(len(impl_obs), len(model_obs)))
        return {'what': 'emitted lines', 'index': k, 'model': model_obs[k:k + 2], 'impl': impl_obs[k:k + 2],
                'n_model': len(model_obs), 'n_impl': len(impl_obs)}
    if len(im['calls']) != len(model['calls']):
        return {'what': 'number of dispatcher calls', 'model': len(model['calls']), 'impl': len(im['calls'])}
    for k, (ic, mc) in enumerate(zip(im['calls'], model['calls'])):
        a, s, d = ic
        if hx(enc(a)) != mc['a'] or (None if s is None else hx(enc(s))) != mc['s'] or not same_data(mc['d'], d):
            return {'what': 'request seen by the dispatcher', 'index': k, 'model': mc, 'impl': repr(ic)[:200]}
    if not model['same_as_unsegmented']:
        return {'what': 'model output depends on the segmentation', 'model': None, 'impl': None}
    return None


# ----------------------------------------------------------------------------------------
# generators
# ----------------------------------------------------------------------------------------
ACTIONS = ['*IDN?', 'describe', 'activate', 'deactivate', 'do', 'change', 'read', 'ping', 'help', 'logging']
COLLIDING = ['_ident', 'request', 'help', 'logging', '__class__', '_lock', 'error_read', 'update', 'log', '_', 'reply', 'error_',
             'handle_read', '*IDN?x', 'READ', 'idn', 'restart', 'shutdown']
SPECS = ['', 'm', 'm:value', 'm:target', 'm:_s', 'n', 'n:value', 'm:status', 'nix', 'm:nix', '.', ':', 'm:', ':value', 'm:stop',
         'm:_twice', 'x' * 40, 'm:value:1', 'mä', 'tok']
DATA = ['', '1', '1.5', '-0.0', '"x"', '"debug"', '"off"', '[1, 2]', '{"a": 1}', 'null', 'true', 'false', '0', '[]', '{}', '""',
        'NaN', 'Infinity', '-Infinity', '1e999', '"\\ud800"', '"ä"', '" a  b "', '3', '[1.5, {"t": 1}]', '12345678901234567890',
        '"a\\nb"', ' 2', '2 ', '[NaN]']
BROKEN_JSON = ['{', '[1,', '"abc', 'nul', '1 2', "'x'", '{"a"}', '[1,]', '\x01', '01', '.5', '+1', 'tru', '{"a":1,}', '"\t"', '\\']
BAD_UTF8 = [b'\xff', b'\xc3', b'\xed\xa0\x80', b'\xc0\x80', b'\xf8\x88\x80\x80\x80', b'\x80', b'\xe2\x82', b'\xf4\x90\x80\x80', b'\xe4']
WS = [b' ', b'  ', b'\t', b'\r', b'\x0b', b'\x0c', b'\x1f', b'\x1c', b'\xc2\xa0', b'\xc2\x85', b'\xe2\x80\xa8', b'\xe3\x80\x80', b'\x00']
EOLS = [b'\n', b'\n', b'\n', b'\r\n', b'\n\r', b'\r\r\n', b' \n', b'\n\n']


def gen_request(rng, real):
    r = rng.random()
    action = rng.choice(ACTIONS if r < 0.8 else COLLIDING)
    if real and rng.random() < 0.75:
        # steer towards requests the small node answers positively
        action, spec, data = rng.choice([
            ('read', 'm', ''), ('read', 'm:value', ''), ('read', 'n:_s', ''), ('change', 'm', '3'), ('change', 'm:target', '2.5'),
            ('change', 'm:_s', '"abc"'), ('do', 'm:stop', ''), ('do', 'm:_twice', '4'), ('do', 'm', ''), ('ping', 'tok', ''),
            ('ping', '', ''), ('activate', '', ''), ('activate', 'm', ''), ('activate', 'n:value', ''), ('deactivate', '', ''),
            ('deactivate', 'm', ''), ('describe', '', ''), ('describe', '.', ''), ('describe', 'm', ''), ('logging', '.', '"debug"'),
            ('logging', 'm', '"off"'), ('logging', '', '"error"'), ('*IDN?', '', ''), ('help', '', ''), ('change', 'm', 'NaN'),
            ('change', 'm', 'Infinity'), ('read', 'm:status', ''), ('_ident', '', ''), ('request', '', ''), ('*IDN?', 'x', ''),
            ('help', 'x', '1'), ('read', 'nix', ''), ('change', 'm:value', '1'), ('logging', 'nix', '"debug"')])
    else:
        spec = rng.choice(SPECS) if rng.random() < 0.8 else ''
        data = rng.choice(DATA) if rng.random() < 0.5 else ''
    if data and not spec and rng.random() < 0.5:
        spec = rng.choice(SPECS[1:])
    fields = [action, spec, data] if data else ([action, spec] if spec else [action])
    return ' '.join(fields).encode('utf-8')


def mutate(rng, line):
    """byte-level mutation of one request line (without its terminator)"""
    k = rng.randrange(14)
    b = bytearray(line)
    pos = rng.randrange(len(b) + 1)
    if k == 0:      # invalid UTF-8 somewhere
        b[pos:pos] = rng.choice(BAD_UTF8)
    elif k == 1:    # broken JSON as data
        parts = line.split(b' ', 2)
        while len(parts) < 2:
            parts.append(b'x')
        b = bytearray(b' '.join(parts[:2] + [rng.choice(BROKEN_JSON).encode()]))
    elif k == 2:    # white space variants inside / around
        b[pos:pos] = rng.choice(WS)
    elif k == 3:    # leading / trailing white space
        if rng.random() < 0.5:
            b[0:0] = rng.choice(WS)
        else:
            b += rng.choice(WS)
    elif k == 4:    # missing field: cut at a blank
        if b' ' in b:
            b = b[:bytes(b).rindex(b' ') + rng.choice([0, 1])]
    elif k == 5:    # extra field
        b += b' ' + rng.choice(DATA + SPECS).encode('utf-8')
    elif k == 6 and b:    # flip a byte
        i = rng.randrange(len(b))
        b[i] = rng.choice([0, 9, 32, 34, 58, 91, 127, 128, 255, b[i] ^ 0x20, b[i] ^ 0x80])
    elif k == 7 and b:    # delete a byte
        del b[rng.randrange(len(b))]
    elif k == 8:    # non-ASCII action / specifier
        b[pos:pos] = rng.choice(['ä', 'ÿ', '€', ' ', '😀']).encode('utf-8')
    elif k == 9:    # broken JSON together with leading blanks or non-ASCII action
        b = bytearray(rng.choice([b' ', b'\t ', b'\xc3\xa4', b'']) + bytes(b) + b' ' + rng.choice(BROKEN_JSON).encode())
    elif k == 10:   # duplicate the line's first field
        b[0:0] = bytes(b).split(b' ')[0] + b' '
    elif k == 11:   # only blanks
        b = bytearray(rng.choice([b'', b' ', b'\t\r', b'   ', b'\x0b\x0c']))
    elif k == 12:   # bad UTF-8 at the very start or end
        if rng.random() < 0.5:
            b[0:0] = rng.choice(BAD_UTF8)
        else:
            b += rng.choice(BAD_UTF8)
    return bytes(b).replace(b'\n', b'')


def long_line(rng, n):
    k = rng.randrange(6)
    if k == 0:
        return b'read ' + b'm' * n
    if k == 1:
        return b'x' * n
    if k == 2:
        return b'change m:_s "' + b'a' * n + b'"'
    if k == 3:
        return b'change m ' + b'[' * n
    if k == 4:
        return b'change m ' + b'[' * (n // 2) + b']' * (n // 2)
    return b' ' * n + b'read m {'


def gen_stream(rng, real, big):
    r = rng.random()
    nlines = rng.choice([1, 1, 2, 2, 3, 4, 6] + ([12, 25] if big else []))
    lines = []
    for _ in range(nlines):
        ln = gen_request(rng, real)
        m = rng.random()
        if m < 0.45:
            ln = mutate(rng, ln)
            if rng.random() < 0.2:
                ln = mutate(rng, ln)
        lines.append(ln)
    if r < 0.04:
        lines[rng.randrange(len(lines))] = long_line(rng, rng.choice([1023, 1024, 1025, 5000, 65536]))
    stream = b''.join(ln + rng.choice(EOLS) for ln in lines)
    if rng.random() < 0.2:    # unterminated tail: not a request
        stream += gen_request(rng, real)[:rng.randrange(1, 8)]
    return stream


def segment(rng, stream):
    """random segmentation into non-empty chunks"""
    n = len(stream)
    if n <= 1:
        return [stream] if stream else []
    mode = rng.randrange(6)
    if mode == 0:
        cuts = []
    elif mode == 1 and n <= 3000:
        cuts = list(range(1, n))
    elif mode == 2:    # around the line ends
        cuts = sorted({i + d for i, c in enumerate(stream) if c == 10 for d in (0, 1) if 0 < i + d < n and rng.random() < 0.7})
    elif mode == 3:    # recv size of the real handler
        cuts = list(range(1024, n, 1024))
    else:
        k = rng.randint(1, min(n - 1, 8))
        cuts = sorted(rng.sample(range(1, n), k))
    res, last = [], 0
    for c in cuts + [n]:
        res.append(stream[last:c])
        last = c
    return res


def all_segmentations(stream):
    n = len(stream)
    for mask in range(1 << (n - 1)):
        res, last = [], 0
        for i in range(1, n):
            if mask >> (i - 1) & 1:
                res.append(stream[last:i])
                last = i
        res.append(stream[last:])
        yield res


SHORT_STREAMS = [b'ping\nping x\n', b'\n\r\n*IDN?\n', b'do m\nx {\n', b' a {\n\xff\n', b'read m\n\nx', b'a\nb\nc\nd\ne\nf\n', b'\n\n\n\n',
                 b'help\n_ident\n', b'\xc3\xa4 {\n\xe4\n', b'ping  1\nx\n', b'x\r\n\ny\n\r', b'describe\n']


def gen_plan(rng):
    n = rng.choice([1, 2, 3, 5])
    if rng.random() < 0.35:
        return [rng.choice(['ok', 'okd', 'oka', 'oke']) for _ in range(n)]
    return [rng.choice(STUB_KINDS) for _ in range(n)]


def case_of(chunks, disp):
    return {'chunks': [hx(c) for c in chunks if c], 'disp': disp}


# ----------------------------------------------------------------------------------------
# signatures / shrinking
# ----------------------------------------------------------------------------------------
def known_actions():
    from frappy.protocol.messages import REQUEST2REPLY, IDENTREQUEST
    from frappy.protocol.dispatcher import Dispatcher
    return set(REQUEST2REPLY) | {IDENTREQUEST} | {n[7:] for n in dir(Dispatcher) if n.startswith('handle_')}


def request_class(line):
    s = line.strip(b' \t\n\r\x0b\x0c')
    if not s:
        return 'blank'
    first = s.split(b' ')[0]
    try:
        a = first.decode('utf-8')
    except UnicodeDecodeError:
        return 'non-utf8'
    if a in known_actions():
        return a
    if any(ord(ch) > 127 for ch in a):
        return 'non-ascii'
    return 'other'


def signature(ev):
    bad = ev['judge']['bad']
    clause = bad['clause']
    lines = ev['stream'].split(b'\n')[:-1]
    if clause == 'one_reply_per_line':
        if ev['impl']['died']:
            import re
            funcs = re.findall(r', in (\w+)', ev['impl']['died_text'])
            return 'C07:one_reply_per_line:handler-died-in-' + (funcs[-1] if funcs else '?')
        return 'C07:one_reply_per_line:count'
    if clause == 'reply_fits':
        k = bad['k']
        replies = [o for o in ev['impl']['outs'] if obs_frame(o)['a'] not in (hx(b'_'), hx(b'update'), hx(b'log'))]
        rep = obs_frame(replies[k]) if k < len(replies) else None
        if rep and bytes.fromhex(rep['a']).startswith(b'error_'):
            return 'C07:reply_fits:error-reply'
        return f'C07:reply_fits:positive-reply:{request_class(lines[k]) if k < len(lines) else "?"}'
    if clause == 'strict_json':
        data = (ev['impl']['outs'][bad['i']].strip().split(b' ', 2) + [b'', b''])[2]
        import re
        unquoted = re.sub(rb'"(\\.|[^"\\])*"', b'""', data)
        return 'C07:strict_json:' + ('nan-token' if re.search(rb'NaN|Infinity', unquoted) else 'other')
    if clause == 'valid_utf8':
        return 'C07:valid_utf8'
    return 'C07:' + clause


def shrink(ctx, ev):
    """fewest request lines (delivered in one chunk) that still make the judge complain in the same way"""
    case = ev['case']
    sig = signature(ev)
    stream = ev['stream']
    pieces = stream.split(b'\n')
    lines, tail = pieces[:-1], pieces[-1]

    def build(ls, with_tail=False):
        return case_of([b''.join(x + b'\n' for x in ls) + (tail if with_tail else b'')], case['disp'])

    def fails(ls):
        e = evaluate(ctx, [build(ls)])[0]
        return e['judge']['bad'] is not None and signature(e) == sig

    try:
        if not fails(lines):
            return ev
        small = ddmin(lines, fails, max_tests=60)
        return evaluate(ctx, [build(small)])[0]
    except Exception:
        return ev


def describe(ev):
    bad = ev['judge']['bad']
    outs = [o[:120] for o in ev['impl']['outs']][:6]
    txt = f'{bad}: chunks={[bytes.fromhex(c)[:80] for c in ev["case"]["chunks"]][:6]} dispatcher={ev["case"]["disp"]} sent={outs}'
    if ev['impl']['died']:
        txt += ' HANDLER DIED: ' + ev['impl']['died_text'].strip().splitlines()[-1]
    return txt


# ----------------------------------------------------------------------------------------
def run(ctx):
    res = Result()
    res.rule = ('byte streams of 1..25 request lines from a grammar of SECoP requests (actions of REQUEST2REPLY, *IDN?, unknown and '
                'handler-colliding actions), 45 % of the lines mutated at byte level (invalid UTF-8, broken JSON, missing/extra fields, '
                'white space incl. Unicode, CR/LF variants, blank lines, 1-64 KiB lines), delivered to the real TCPRequestHandler in '
                'random segmentations (all 2^(n-1) segmentations of the short streams), with a stub dispatcher doing per call one of '
                '27 things (fitting reply, reply after events, 6 SECoP errors, 6 other exceptions, 9 kinds of unusable return value) '
                'or the real Dispatcher over a two-module node; non-trivial = at least 2 request lines in at least 2 chunks with at '
                'least one positive and one error reply')
    rng = ctx.rng
    big = ctx.tier == 'thorough' or ctx.escalated
    cases = []
    cdir = os.path.join(ctx.verif, 'corpus', 'C07')
    if os.path.isdir(cdir):
        for fn in sorted(os.listdir(cdir)):
            if fn.endswith('.json'):
                cases.append(json.load(open(os.path.join(cdir, fn)))['case'])
    ncorpus = len(cases)
    # exhaustive segmentations of short streams
    shorts = list(SHORT_STREAMS)
    rng.shuffle(shorts)
    for s in shorts[:ctx.budget(2, 8)]:
        s = s[:12] if big else s[:11]
        disp = {'kind': 'stub', 'plan': gen_plan(rng)} if rng.random() < 0.7 else {'kind': 'real'}
        if disp['kind'] == 'real' and not big:
            disp = {'kind': 'stub', 'plan': ['ok', 'exc', 'none']}
        for chunks in all_segmentations(s):
            cases.append(case_of(chunks, disp))
        res.count('exhaustive-segmentation streams')
    # generated streams
    for i in range(ctx.budget(2500, 12000)):
        real = rng.random() < 0.2
        stream = gen_stream(rng, real, big)
        disp = {'kind': 'real', 'nan': rng.random() < 0.1} if real else {'kind': 'stub', 'plan': gen_plan(rng)}
        for _ in range(2 if len(stream) < 3000 else 1):
            cases.append(case_of(segment(rng, stream), disp))

    shrunk = 0
    seen_sigs = set()
    for lo in range(0, len(cases), 500):
        evs = evaluate(ctx, cases[lo:lo + 500])
        for ev in evs:
            res.evaluations += 1
            res.traces += 1
            im = ev['impl']
            case = ev['case']
            obs = [obs_frame(o) for o in im['outs']]
            nerr = sum(1 for o in obs if bytes.fromhex(o['a']).startswith(b'error_'))
            npos = sum(1 for o in obs if not bytes.fromhex(o['a']).startswith(b'error_')
                       and o['a'] not in (hx(b'_'), hx(b'update'), hx(b'log')))
            nlines = ev['stream'].count(b'\n')
            res.count('dispatcher.' + case['disp']['kind'])
            res.count('lines=%s' % (nlines if nlines < 4 else '4+'))
            res.count('chunks=%s' % (len(case['chunks']) if len(case['chunks']) < 4 else '4+'))
            res.count('replies.positive', npos)
            res.count('replies.error', nerr)
            for o in obs:
                if o['c'] and bytes.fromhex(o['a']).startswith(b'error_'):
                    res.count('error.' + bytes.fromhex(o['c']).decode('latin-1'))
            for rec in im['script']:
                res.count('dispatcher-did.' + rec.get('r', '?'))
            if len(ev['stream']) > 60000:
                res.count('stream>60000 bytes')
            if nlines >= 2 and len(case['chunks']) >= 2 and npos and nerr:
                res.nontriv(case)
            if len(res.samples) < 5 and nlines in (2, 3) and npos and nerr and len(ev['stream']) < 80:
                res.samples.append({'chunks': [bytes.fromhex(c).decode('latin-1') for c in case['chunks']], 'dispatcher': case['disp'],
                                    'sent': [o.decode('latin-1')[:100] for o in im['outs']]})
            if ctx.model_ok:
                dis = compare(ev)
                if dis is not None:
                    res.disagreements.append({'case': case, 'model': dis, 'impl': {'sent': [o[:100].decode('latin-1') for o in im['outs']][:8]}})
            if ev['judge']['bad'] is not None:
                sig = signature(ev)
                if sig in seen_sigs:
                    continue
                seen_sigs.add(sig)
                if shrunk < 6:
                    ev = shrink(ctx, ev)
                    shrunk += 1
                res.violations.append({'sig': sig, 'what': describe(ev), 'case': ev['case'],
                                       'detail': {'verdict': ev['judge']['bad'], 'died': ev['impl']['died_text']}})
    res.notes.append(f'{ncorpus} corpus cases run first')
    return res


def replay(ctx, rp):
    case = rp['case']
    ev = evaluate(ctx, [case])[0]
    print('chunks :', [bytes.fromhex(c)[:200] for c in case['chunks']])
    print('disp   :', case['disp'])
    print('impl   :', [o[:200] for o in ev['impl']['outs']])
    print('did    :', [r.get('r') for r in ev['impl']['script']])
    if ev['impl']['died']:
        print('HANDLER DIED:', ev['impl']['died_text'])
    print('model  :', [(o['k'], bytes.fromhex(o['a']), bytes.fromhex(o['s']), o['c'] and bytes.fromhex(o['c'])) for o in ev['model']['outs']])
    print('corr   :', compare(ev))
    print('judge  :', ev['judge'])
    return 0 if ev['judge']['bad'] is None else 1
