"""C07 — One well-formed reply per request line, for any bytes and any chunking; codec inverse."""
import contextlib
import io
import json
import logging
import os

from check import Result
from vlib.shrink import ddmin

META = {
    'level_text': 'Theorems for all byte streams, all segmentations and all dispatchers: feed_chunks_eq_concat (lines and residual '
                  'buffer depend only on the concatenation), one_reply_per_line, serve_total (whatever the dispatcher returns or '
                  'raises), reply_action_fits (table generated from REQUEST2REPLY, table facts by decide), error_class_is_secop, '
                  'independent_lines, lines_whole (no frame contains a newline of its own; any number of senders doing acquire / partial writes / release '
                  'in any interleaving leave a concatenation of whole frames), codec_inverse over an abstract JSON layer; '
                  'neutral_lines_removable / other_connections_unaffected ("no input changes the answers given to other lines": leaving out any request '
                  'lines other than read/change/do -- describe, ping, activate, blank lines, unknown actions, undecodable bytes -- on this or on an earlier '
                  'connection of the same dispatcher leaves every other reply as it is, for a dispatcher satisfying DispNeutral); a model of '
                  'Dispatcher.handle_request and the handle_* methods over an abstract node (Wire/Dispatch) for which DispNeutral, the FitsOk half of DispFits '
                  'and finiteness of the data handed on are proved (dispatcher_answers_independent, dispatcher_reply_fits, dispatcher_emitted_strict); '
                  'peer_gone_prefix / peer_gone_sound / peer_gone_partial (a socket whose sendall call n raises, any n, after any k bytes of its frame went out: '
                  'the peer has exactly the first n frames of the run without failure followed by an unterminated rest without newline, the line being processed is '
                  'finished, no later line reaches the dispatcher, sendall is never called again whatever the socket would do); the concurrent senders model has the '
                  'same failure (steps fail / skip) and lines_whole, senders_keep_order, replies_in_order_among_events hold for it; the whole-line and peer-gone theorems '
                  'assume of the dispatcher only DispNoEol (no newline in action and specifier of what it sends, for requests cut from lines), reply_action_fits only DispAnswers; '
                  'both are proved for the dispatcher model over any node (dispatcher_no_newline, dispatch_answers), giving dispatcher_lines_whole and '
                  'dispatcher_reply_action_fits without any hypothesis on the dispatcher; a model of the text of error reports (SECoPError.format on '
                  'BaseException.__str__, Wire/ErrText) with error_text_usual / error_text_any_args / error_text_unregistered.  The models are tied to '
                  'frappy/protocol/interface/{__init__,handler,tcp}.py and frappy/protocol/dispatcher.py by a correspondence run on the real TCPRequestHandler over a '
                  'scripted socket (stub dispatcher doing anything -- including SECoP errors of 16 classes with 23 shapes of arguments and 0-3 raising methods -- + the '
                  'real Dispatcher over a small real node whose driver functions may fail with such errors, also with sockets whose sendall raises after a part of the frame and then '
                  'stay dead or take data again; the text of every error report against the ErrText model; the dispatcher model '
                  'against the real Dispatcher per call, its request-only functions taken from fresh nodes; sessions of several connections one after the other on one '
                  'node; two connections and an updater thread on one real dispatcher under a deterministic scheduler with partial writes), and the Lean monitors judge the bytes '
                  'actually sent -- and, when a send failed, the bytes the peer has received cut at their newlines (judgeReceived) --: whole lines, one fitting reply per request '
                  'line, no events of modules the connection did not subscribe to, and -- on pairs of runs, '
                  'the second without some neutral lines -- unchanged answers to all other lines.',
    'level_note': 'Trusted: Lean kernel + axioms propext/Classical.choice/Quot.sound; Python json and the UTF-8 codec enter the '
                  'model as parameters with the laws of Spec.C07.LibLaws; strictness of emitted JSON (judged on runs with the real Dispatcher; '
                  'what a stub dispatcher hands over is harness input) and validity of emitted UTF-8 are tested on the implementation side only; '
                  'ThreadingTCPServer and the socket are not modelled (sendall = a sequence of partial writes, after any of which it may raise; '
                  'send_lock = a lock acquired only when free); str() and repr() of the argument objects of an error are parameters of the error text model (the '
                  'functions of Python itself in the correspondence run; objects whose __str__ / __repr__ raise are outside).  The answers compared by the independence monitor are canonicalised by the harness: time stamps '
                  'masked, error reports reduced to the class name.',
    'trusted': [
        'LibLaws: json.loads(json.dumps(x)) == x; json.dumps output is non-empty ASCII without newline that begins and ends with a '
        'printable non-blank character; UTF-8 validity of a text joined by blanks is validity of the parts',
        'splitting a decoded text at U+0020 is splitting its UTF-8 bytes at 0x20',
        'driver glue: utf8ok / json.loads of the model are answered by the real Python functions on the arguments the model passes '
        '(oracle tables); for the dispatcher model: descriptive data and the checks of activate / logging are tables computed on fresh nodes, '
        'what a module did with read/change/do is what the real module did in that call, Python truth values of request data come from Python',
        'the dispatcher raises only subclasses of Exception (KeyboardInterrupt/SystemExit are not answered)',
        'a failing sendall has written a proper prefix of its frame (never the whole frame); exceptions of sendall are subclasses of Exception',
        'str() / repr() of the arguments of an error raised by driver code do not raise',
    ],
    'modelled_not_verified': [
        'socketserver.ThreadingTCPServer / socket.recv / sendall (scripted fake socket)',
        'threading.Lock (send_lock): modelled as SendStep.acquire enabled only when nobody holds it; sendall as partial writes by the holder',
        'formatException / formatExtendedStack texts inside error reports (not observed; formatExtendedStack is replaced by a stub during the run because it repr()s every local of the harness frames)',
        'SecNode / modules / datatypes behind the dispatcher: parameters of the dispatcher model (NodeIf); subscriptions and remote log levels only as '
        'abstract bookkeeping that never influences a reply; the events a request causes are not compared with the dispatcher model (abstract function)',
    ],
    'assumptions': [
        'DispAnswers (hypothesis of reply_action_fits / error_class_is_secop: positive replies carry the reply action and specifier of the request, raised '
        'SECoP errors a class name of errors.py) and DispNoEol (hypothesis of the whole-line and peer-gone theorems) replace the former DispFits; both are '
        'proved for the dispatcher model (dispatch_answers, dispatcher_no_newline), so that dispatcher_reply_action_fits and dispatcher_lines_whole assume only, '
        'of the node, NodeClasses (its errors carry class names of errors.py) and NodeEventsNoEol (module / parameter names in events contain no newline); '
        'both are checked on the real node by the monitors (error class of every error reply, every sendall one line)',
        'DispNeutral (hypothesis of neutral_lines_removable): proved for the dispatcher model over any NodeIf, i.e. assuming that descriptive data and the '
        'checks of activate / logging are functions of the request alone and that no reply depends on subscriptions; checked on the real node by the '
        'correspondence run (fresh-node tables) and by the independence monitor',
        'NodeFinite (hypothesis of dispatcher_emitted_strict): the node hands only finite numbers to the dispatcher',
        'observation = per emitted line (action, specifier, error class, has data); for the independence monitor and the dispatcher model also the '
        'data (JSON text, time stamps masked); message texts and time stamps are not compared',
    ],
}


HERE = os.path.dirname(os.path.abspath(__file__))


# ----------------------------------------------------------------------------------------
# the real handler around a scripted socket
# ----------------------------------------------------------------------------------------
GONE = {'pipe': BrokenPipeError, 'reset': ConnectionResetError, 'os': OSError, 'timeout': TimeoutError, 'other': ValueError}


class FakeSock:
    def __init__(self, chunks, gone=None):
        self.chunks = list(chunks)
        self.out = []          # the byte strings of the sendall calls that completed
        self.wire = []         # every piece that went out, in order: what the peer receives
        self.ncalls = 0
        self.failed = []       # (number of the call, frame handed to it) of the calls that raised
        # {'after': n, 'exc': kind, 'written': k, 'back': bool}: the first n calls of sendall succeed; call n writes
        # min(k, len(frame) - 1) bytes of its frame and raises; later calls raise as well (the peer is gone for good),
        # or, with 'back', succeed (the peer was slow / the buffer was full, and takes data again)
        self.gone = gone

    def settimeout(self, t):
        pass

    def recv(self, n):
        return self.chunks.pop(0) if self.chunks else b''

    def recv_into(self, buf, nbytes=0):
        """the other receive call of a socket: fills the caller's buffer, returns the number of bytes"""
        data = self.recv(nbytes or len(buf))
        size = min(len(data), nbytes or len(buf))
        if size < len(data):
            self.chunks.insert(0, data[size:])
        buf[:size] = data[:size]
        return size

    def sendall(self, b):
        b = bytes(b)
        n = self.ncalls
        self.ncalls += 1
        g = self.gone
        if g is not None and n >= g['after'] and (n == g['after'] or not g.get('back')):
            self.failed.append((n, b))
            if n == g['after']:
                part = b[:max(0, min(g.get('written', 0), len(b) - 1))]
                if part:
                    self.wire.append(part)
            raise GONE[g['exc']]('the peer is gone')
        self.out.append(b)
        self.wire.append(b)

    def shutdown(self, how):
        pass

    def close(self):
        pass


class RecLog:
    def __init__(self):
        self.errors = []

    def error(self, *a):
        self.errors.append(a)

    def exception(self, *a):
        self.errors.append(a)

    def info(self, *a):
        pass

    debug = warning = info


def hx(b):
    return bytes(b).hex()


def enc(s):
    return None if s is None else s.encode('utf-8', 'surrogatepass')


def triple_rec(t):
    """a triple as the Lean side wants it, or None when it is not a sendable triple"""
    try:
        action, spec, data = t
        if not isinstance(action, str) or not (spec is None or isinstance(spec, str)):
            return None
        d = None if data is None else json.dumps(data)
        return {'a': hx(enc(action)), 's': None if spec is None else hx(enc(spec)), 'd': None if d is None else hx(d.encode())}
    except Exception:
        return None


def frame_rec(frame):
    """a triple record recovered from an emitted frame (used for lines the real dispatcher sends itself)"""
    p = frame.rstrip(b'\n').split(b' ', 2) + [b'', b'']
    return {'a': hx(p[0]), 's': hx(p[1]) if p[1] else None, 'd': hx(p[2]) if p[2] else None}


SECOP_BY_NAME = {}
_ORIG = {}


def secop_by_name():
    if not SECOP_BY_NAME:
        import frappy.errors as fe
        todo = [fe.SECoPError]
        while todo:
            c = todo.pop()
            if 'name' in c.__dict__ or c is fe.SECoPError:
                SECOP_BY_NAME.setdefault(c.name, c)
            todo += c.__subclasses__()
    return SECOP_BY_NAME


# ----------------------------------------------------------------------------------------
# errors as driver code raises them: any SECoPError class, with any arguments (none, several, objects that are not
# strings: the exception that was caught, an error code ...), having passed any number of read / write wrappers
# ----------------------------------------------------------------------------------------
ERR_CLASSES = ['HardwareError', 'CommunicationFailedError', 'SilentCommunicationFailedError', 'ProgrammingError', 'ConfigError',
               'NotImplementedSECoPError', 'RangeError', 'BadValueError', 'InternalError', 'SECoPError', 'TimeoutSECoPError',
               'ReadFailedError', 'WrongTypeError', 'IsErrorError', 'CommandFailedError', 'ImpossibleError']
ERR_ARGS = {
    'str': lambda: ('device says no',),
    'none': lambda: (),
    'empty': lambda: ('',),
    'int': lambda: (42,),
    'float': lambda: (2.5,),
    'None': lambda: (None,),
    'bool': lambda: (False,),
    'exc': lambda: (OSError(5, 'Input/output error'),),
    'exc0': lambda: (ValueError(),),
    'keyerr': lambda: (KeyError('k'),),
    'secop': lambda: (__import__('frappy.errors').errors.HardwareError('inner', 3),),
    'bytes': lambda: (b'x\xff\n',),
    'two': lambda: ('a', 'b'),
    'fmt': lambda: ('bad reply %r', b'\x00?'),
    'mixed': lambda: ('text', 3, None, 1.5),
    'tuple': lambda: (('a', 1),),
    'dict': lambda: ({'code': 7},),
    'list': lambda: ([1, 'x'],),
    'unicode': lambda: ('gr\u00fc\u00df \u2028 \U0001f600',),
    'newline': lambda: ('line1\nline2',),
    'surrogate': lambda: ('\ud800',),
    'type': lambda: (KeyError,),
    'kw': lambda: ('msg',),
}
ERR_METHODS = [[], [], ['m.write_target'], ['m.read_value'], ['m.read_value', 'n.read_x'], ['a.read_b', 'c.write_d', 'e.read_f']]
PLAIN_EXC = {'exc': lambda: KeyError('k'), 'excz': ZeroDivisionError, 'excu': lambda: UnicodeDecodeError('utf-8', b'\xff', 0, 1, 'x'),
             'excr': RecursionError, 'exca': lambda: AssertionError('a\nb'), 'excs': StopIteration,
             'exco': lambda: OSError(5, 'Input/output error'), 'excn': Exception, 'excm': lambda: Exception('a', 3, None),
             'excb': lambda: ValueError(b'\xff', ValueError())}


def build_error(spec):
    """`Class:args:methods` -> the error object, as driver code would have raised it and the wrappers marked it"""
    import frappy.errors as fe
    cname, shape, nm = (spec.split(':') + ['0'])[:3]
    cls = getattr(fe, cname, fe.HardwareError)
    e = cls(*ERR_ARGS[shape](), **({'reply': b'\x15'} if shape == 'kw' else {}))
    e.raising_methods.extend(ERR_METHODS[int(nm) % len(ERR_METHODS)])
    return e


def err_info(e):
    """what SECoPError.format looks at, for the model of the error text; str() / repr() of the argument objects
    are Python's (parameters of the model)"""
    try:
        return {'registered': type(e).name2class.get(e.name) == type(e), 'tname': hx(enc(type(e).__name__)),
                'methods': [hx(enc(m)) for m in (e.raising_methods or [])],
                'args': [{'s': hx(enc(str(a))), 'r': hx(enc(repr(a)))} for a in e.args]}
    except Exception:
        return None


def gen_err_kind(rng):
    return 'err:%s:%s:%d' % (rng.choice(ERR_CLASSES), rng.choice(sorted(ERR_ARGS)), rng.randrange(len(ERR_METHODS)))


class StubDispatcher:
    """does, per call, what the plan says (cyclic); records what it was asked and what it did"""

    def __init__(self, plan, by_request=False):
        self.plan = plan or ['ok']
        self.by_request = by_request     # what it does is a function of the request alone (no state at all)
        self.calls = []
        self.script = []
        self.sock = None

    def add_connection(self, conn):
        pass

    def remove_connection(self, conn):
        pass

    def handle_request(self, conn, msg):
        from frappy.protocol.messages import REQUEST2REPLY, IDENTREQUEST, IDENTREPLY, EVENTREPLY, LOG_EVENT
        from frappy.errors import ProtocolError
        if self.by_request:
            import zlib
            kind = self.plan[zlib.crc32(repr(msg).encode('utf-8', 'replace')) % len(self.plan)]
        else:
            kind = self.plan[len(self.calls) % len(self.plan)]
        self.calls.append(msg)
        action, spec, data = msg
        rec = {'async': []}
        self.script.append(rec)
        if kind.startswith('ok'):
            if action == IDENTREQUEST:
                reply = (IDENTREPLY, None, None)
            elif action in REQUEST2REPLY:
                rdata = {'ok': None, 'okd': [1.5, {'t': 12.25}], 'oka': None, 'oke': data}[kind]
                reply = (REQUEST2REPLY[action], spec, rdata)
            else:
                rec.update(r='secop', cls=hx(b'ProtocolError'))
                raise ProtocolError('unhandled message')
            if kind == 'oka':
                for m in [(EVENTREPLY, 'm:value', [1, {}]), (LOG_EVENT, 'm:error', 'text'), (EVENTREPLY, 'm:_s', ['x y  z', {}])]:
                    rec['async'].append(triple_rec(m))
                    conn.send_reply(m)
            rec.update(r='ok', **triple_rec(reply))
            return reply
        if kind.startswith('secop:'):
            e = secop_by_name()[kind[6:]]('scripted %s' % kind)
            rec.update(r='secop', cls=hx(e.name.encode()), err=err_info(e))
            raise e
        if kind.startswith('err:'):
            e = build_error(kind[4:])
            rec.update(r='secop', cls=hx(str(e.name).encode()), err=err_info(e))
            raise e
        if kind.startswith('exc'):
            rec.update(r='exc')
            raise PLAIN_EXC[kind]()
        rec.update(r='garbage')
        return {'none': None, 'empty': (), 'int': 5, 'unser': ('reply', spec, {1, 2}),
                'errshape': ('error_x', None, None), 'nonstr': (5, None, None), 'list0': [], 'str0': '',
                'obj': ('done', spec, object())}[kind]


STUB_KINDS = ['ok', 'ok', 'okd', 'okd', 'oka', 'oke', 'secop:NoSuchModule', 'secop:ProtocolError', 'secop:RangeError',
              'secop:InternalError', 'secop:TimeoutError', 'secop:NotImplemented', 'exc', 'excz', 'excu', 'excr', 'exca', 'excs',
              'exco', 'excn', 'excm', 'excb',
              'none', 'empty', 'int', 'unser', 'errshape', 'nonstr', 'list0', 'str0', 'obj']


class RecordingDispatcher:
    """the real dispatcher; records per call what it did, so that the wire model can be run with the same dispatcher behaviour"""

    def __init__(self, real):
        self.real = real
        self.calls = []
        self.script = []
        self.sock = None

    def add_connection(self, conn):
        self.real.add_connection(conn)

    def remove_connection(self, conn):
        self.real.remove_connection(conn)

    def handle_request(self, conn, msg):
        from frappy.errors import SECoPError
        self.calls.append(msg)
        rec = {'async': []}
        self.script.append(rec)
        concurrent = getattr(self, 'concurrent', False)
        tried = []
        if not concurrent:
            # what the dispatcher sends itself during this call (also when the connection has stopped sending)
            send = conn.send_reply
            conn.send_reply = lambda data: (tried.append(data), send(data))[1]
        try:
            reply = self.real.handle_request(conn, msg)
        except SECoPError as e:
            rec.update(r='secop', cls=hx(str(e.name).encode()), err=err_info(e))
            raise
        except Exception:
            rec.update(r='exc')
            raise
        finally:
            if not concurrent:
                del conn.send_reply
            rec['async'] = [t for t in map(triple_rec, tried) if t is not None]
        t = triple_rec(reply) if reply else None
        if t is None:
            rec.update(r='garbage')
        else:
            rec.update(r='ok', **t)
        return reply


class ServerStub:
    def __init__(self, dispatcher):
        self.dispatcher = dispatcher
        self.log = RecLog()
        self.detailed_errors = False


_node_counter = [0]


FAULT_PLACES = ['read_value', 'write_target', 'write_s', 'twice', 'stop']


def gen_faults(rng):
    """which driver functions of module m / n fail, and how"""
    res = {}
    for _ in range(rng.choice([1, 1, 2, 3])):
        spec = gen_err_kind(rng)[4:] if rng.random() < 0.8 else rng.choice(sorted(PLAIN_EXC))
        res[rng.choice('mmn') + '.' + rng.choice(FAULT_PLACES)] = spec
    return res


def make_real_node(nan, faults=None):
    """a small real node: SecNode + Dispatcher + two modules, without Server"""
    import mlzlog
    import frappy.secnode
    frappy.secnode.get_version = lambda *a: 'verif'
    from frappy.datatypes import FloatRange, StringType
    from frappy.logging import RemoteLogHandler
    from frappy.modules import Command, Parameter, Writable
    from frappy.protocol.dispatcher import Dispatcher
    from frappy.secnode import SecNode

    class Mod(Writable):
        value = Parameter('v', FloatRange(), default=1.5)
        target = Parameter('t', FloatRange(), default=0)
        s = Parameter('s', StringType(), default='', readonly=False)
        raw = 0.5
        faults = {}      # driver function -> the error it raises (`Class:args:methods` or the name of a plain exception)

        def fault(self, where):
            spec = self.faults.get(where)
            if spec:
                raise PLAIN_EXC[spec]() if spec in PLAIN_EXC else build_error(spec)

        def read_value(self):
            self.fault('read_value')
            return self.raw

        def write_target(self, v):
            self.fault('write_target')
            self.raw = v
            return v

        def write_s(self, v):
            self.fault('write_s')
            return v

        @Command(FloatRange(), result=FloatRange())
        def twice(self, x):
            """twice"""
            self.fault('twice')
            return 2 * x

        @Command()
        def stop(self):
            """stop"""
            self.fault('stop')

    class Srv:
        restart = shutdown = None

    _node_counter[0] += 1
    # the loggers of the nodes made before are garbage (one node is in use at a time), but the logging module keeps
    # every logger ever made and walks through all of them at each setLevel: forget them
    known = logging.Logger.manager.loggerDict
    for name in [n for n in known if n.startswith('c07n')]:
        del known[name]
    root = mlzlog.MLZLogger('c07n%d' % _node_counter[0])
    root.setLevel(logging.DEBUG)
    root.addHandler(RemoteLogHandler())
    srv = Srv()
    srv.log = root.getChild('srv')
    srv.rootlog = root
    srv.module_cfg = {'m': {'cls': Mod, 'description': 'a module'}, 'n': {'cls': Mod, 'description': 'another'}}
    seclog = root.getChild('secnode')
    seclog.parent = root
    srv.secnode = SecNode('node', seclog, {}, srv)
    srv.dispatcher = Dispatcher('disp', root.getChild('dispatcher'), {}, srv)
    srv.secnode.add_secnode_property('description', 'node')
    srv.secnode.create_modules()
    for name in list(srv.secnode.modules):
        srv.secnode.get_module(name)
    if nan:
        srv.secnode.modules['m'].raw = float('nan')
    for key, spec in (faults or {}).items():
        mod = srv.secnode.modules[key.split('.')[0]]
        mod.faults = dict(mod.faults, **{key.split('.')[1]: spec})
    return srv


def _reject(name):
    raise ValueError('not strict JSON: ' + name)


def line_flags(frame, check_strict=True):
    """the two implementation-side tests of the statement, per emitted line; strictness of the data part is tested
    only when a real frappy layer (the real Dispatcher and datatypes) produced the data: what a stub dispatcher hands
    over is the harness's own input -- there the data part must still be a JSON text for Python's lenient parser"""
    try:
        text = frame.decode('utf-8')
        utf8 = True
    except UnicodeDecodeError:
        return [False, True]
    data = (text.rstrip('\n').split(' ', 2) + ['', ''])[2]
    strict = True
    if data != '':
        try:
            if check_strict:
                json.loads(data, parse_constant=_reject)
            else:
                json.loads(data)     # a JSON text at least (a line spliced from two frames has none)
        except Exception:
            strict = False
    return [utf8, strict]


def async_actions():
    """hex of the actions of lines that are not replies (same list as the generated table)"""
    from frappy.protocol.messages import EVENTREPLY, ERRORPREFIX, LOG_EVENT
    return {hx(a.encode()) for a in (EVENTREPLY, ERRORPREFIX + EVENTREPLY, LOG_EVENT, '_')}


def obs_frame(frame):
    """(action, specifier, error class, has data) of an emitted line; canonicalisation only"""
    p = (frame[:-1] if frame.endswith(b'\n') else frame).split(b' ', 2) + [b'', b'']
    cls = None
    if p[2].startswith(b'["') and b'"' in p[2][2:]:
        cls = hx(p[2][2:p[2].index(b'"', 2)])
    return {'a': hx(p[0]), 's': hx(p[1]), 'c': cls, 'd': p[2] != b''}


def set_stack_dump(detailed):
    import frappy.protocol.interface.handler as fh
    # the stack dumps inside error reports repr() every local of every frame (including the harness's case lists);
    # their text is not observed (detailed_errors is off, the dict is cleared before sending)
    if 'stack' not in _ORIG:
        _ORIG['stack'], _ORIG['tb'] = fh.formatExtendedStack, fh.formatExtendedTraceback
    if detailed:      # the detailed_errors=True path with the real stack dump
        fh.formatExtendedStack, fh.formatExtendedTraceback = _ORIG['stack'], _ORIG['tb']
    else:
        fh.formatExtendedStack = lambda *a, **k: ''
        fh.formatExtendedTraceback = lambda *a, **k: ''
    return detailed


def make_dispatcher(disp):
    """the dispatcher of a case: a stub, or the real Dispatcher of a fresh small node (returned unwrapped)"""
    if disp['kind'] == 'stub':
        return StubDispatcher(disp['plan'], disp.get('by_request', False))
    node = make_real_node(disp.get('nan', False), disp.get('faults'))
    if disp.get('ts'):
        # a time stamp handed in from outside (proxy / sea modules relay the remote node's), here not finite
        node.secnode.modules['m'].announceUpdate('value', 2.0, None, float(disp['ts']))
    return node.dispatcher


def run_impl(case, shared=None):
    """deliver the chunks to a real TCPRequestHandler; returns what it sent and what the dispatcher saw/did.
    `shared`: the dispatcher of a node that lives longer than this connection (sessions)"""
    from frappy.protocol.interface.tcp import TCPRequestHandler
    detailed = set_stack_dump(bool(case['disp'].get('detailed')))
    chunks = [bytes.fromhex(c) for c in case['chunks']]
    sock = FakeSock(chunks, case.get('gone'))
    d = shared if shared is not None else make_dispatcher(case['disp'])
    if not isinstance(d, StubDispatcher):
        d = RecordingDispatcher(d)
    d.sock = sock
    srv = ServerStub(d)
    srv.detailed_errors = detailed
    with contextlib.redirect_stdout(io.StringIO()):
        TCPRequestHandler(sock, ('127.0.0.1', 4711), srv)
    died = [e for e in srv.log.errors if e and isinstance(e[0], str) and e[0].startswith('Traceback')]
    return {'outs': sock.out, 'calls': d.calls, 'script': d.script, 'died': bool(died),
            'died_text': died[0][0][-400:] if died else None, 'received': b''.join(sock.wire),
            'torn': sock.failed[0][1] if sock.failed else None, 'send_calls': sock.ncalls}


# ----------------------------------------------------------------------------------------
# concurrency: two connections on one real dispatcher + an updater thread, under the deterministic scheduler
# ----------------------------------------------------------------------------------------
B_SCRIPT = [b'*IDN?', b'activate n', b'ping b1', b'read n:value', b'change n:_s "bee"', b'ping b2', b'describe n:value',
            b'do n:_twice 21', b'deactivate n', b'ping b3']
B_SUBSCRIBED = [b'n']


class SchedSock(FakeSock):
    """scripted socket whose recv and every partial write of sendall are yield points of the scheduler"""

    def __init__(self, sched, name, chunks, piece, gone=None):
        super().__init__(chunks)
        self.sched = sched
        self.name = name
        self.piece = piece
        self.calls = []          # the byte strings handed to sendall
        # {'after': n, 'pieces': j, 'exc': kind, 'back': bool}: call n of sendall raises after j of its pieces went out
        # (never all of them); later calls raise at once, or (`back`) succeed
        self.fails = gone

    def recv(self, n):
        self.sched.yield_(('recv', self.name))
        return super().recv(n)

    def recv_into(self, buf, nbytes=0):
        size = super().recv_into(buf, nbytes)
        self.sched.yield_(('received', self.name))     # the thread may lose the processor before it looks at the buffer
        return size

    def sendall(self, b):
        b = bytes(b)
        n = len(self.calls)
        self.calls.append(b)
        pieces = [b[i:i + self.piece] for i in range(0, len(b), self.piece)]    # sendall hands the frame to the socket in pieces
        g = self.fails
        if g is not None and n >= g['after'] and (n == g['after'] or not g.get('back')):
            for p in (pieces[:min(g['pieces'], len(pieces) - 1)] if n == g['after'] else []):
                self.sched.yield_(('write', self.name))
                self.out.append(p)
            self.sched.yield_(('write-fails', self.name))
            raise GONE[g['exc']]('send failed')
        for p in pieces:
            self.sched.yield_(('write', self.name))
            self.out.append(p)


def run_concurrent(case):
    """connection A gets the (hostile) chunks, connection B a fixed script, a third thread announces updates of module m;
    all three run under the deterministic scheduler with yield points at recv, at send_lock / dispatcher lock / update lock
    acquire and release, and at every partial write.  Returns per connection the received byte stream cut into lines."""
    import random
    import frappy.modulebase
    import frappy.protocol.dispatcher
    import frappy.protocol.interface.handler as fh
    from frappy.protocol.interface.tcp import TCPRequestHandler
    from vlib.sched import Scheduler, RandomPolicy
    fh.formatExtendedStack = lambda *a, **k: ''
    fh.formatExtendedTraceback = lambda *a, **k: ''
    s = Scheduler(policy=RandomPolicy(random.Random(case['sched_seed']), case.get('preempt', 0.4)), max_steps=400000)
    res = {}
    with contextlib.ExitStack() as stack:
        for mod in (fh, frappy.protocol.dispatcher, frappy.modulebase):
            stack.enter_context(s.patched(mod, threading=s.threading))
        node = make_real_node(False)
        # the RemoteLogHandler's own lock must be a scheduler lock too: emit() sends (a yield point) while holding it
        for h in node.rootlog.handlers:
            h.lock = s.threading.RLock()
        socks, disps = {}, {}
        for name, chunks in (('A', [bytes.fromhex(c) for c in case['chunks']]),
                             ('B', [b''.join(ln + b'\n' for ln in B_SCRIPT)][:1] if case.get('b_one_chunk', True)
                              else [ln + b'\n' for ln in B_SCRIPT])):
            sock = SchedSock(s, name, chunks, case.get('piece', 5), case.get('a_gone') if name == 'A' else None)
            d = RecordingDispatcher(node.dispatcher)
            d.sock = sock
            d.concurrent = True
            socks[name], disps[name] = sock, d

        def handler(name):
            TCPRequestHandler(socks[name], ('127.0.0.1', 1000 + ord(name)), ServerStub(disps[name]))

        def updater():
            mod = node.secnode.modules['m']
            for k in range(case.get('updates', 6)):
                s.yield_(('update', k))
                mod.announceUpdate('value', 10.0 + k)
                mod.announceUpdate('s', 'u%d' % k)

        with contextlib.redirect_stdout(io.StringIO()):
            s.spawn('A', handler, ('A',))
            s.spawn('B', handler, ('B',))
            s.spawn('U', updater)
            out = s.run(wall_timeout=60.0)
    if out['aborted'] or out['deadlock']:
        raise RuntimeError(f'concurrent run did not finish: {out}')
    for name in 'AB':
        data = b''.join(socks[name].out)
        lines = data.split(b'\n')
        res[name] = {'received': data, 'lines': [ln + b'\n' for ln in lines[:-1]] + ([lines[-1]] if lines[-1] else []),
                     'frames_sent': socks[name].calls, 'script': disps[name].script, 'calls': disps[name].calls}
    res['errors'] = out['errors']
    res['steps'] = out['steps']
    return res


def evaluate_concurrent(ctx, case):
    """run and judge one concurrent case; returns {'bad': None | {...}, 'res': ...}"""
    return evaluate_concurrent_many(ctx, [case])[0]


def evaluate_concurrent_many(ctx, cases):
    """run the concurrent cases, then judge all of them (two driver batches)"""
    stream_b = b''.join(ln + b'\n' for ln in B_SCRIPT)
    orc = oracles_for(ctx, [b''.join(bytes.fromhex(c) for c in case['chunks']) for case in cases] + [stream_b])
    runs, reqs = [], []
    for case in cases:
        res = run_concurrent(case)
        streams = {'A': b''.join(bytes.fromhex(c) for c in case['chunks']), 'B': stream_b}
        for name in 'AB':
            outs = res[name]['lines']
            if name == 'A' and case.get('a_gone'):
                # a send on A fails in the middle of a frame: what A has received by then -- from all threads -- is judged
                got = res['A']['received']
                reqs.append({'p': 'C07', 'k': 'judge_received', 'stream': hx(streams['A']), 'received': hx(got),
                             'flags': [line_flags(ln + b'\n', True) for ln in got.split(b'\n')[:-1]]})
                continue
            reqs.append({'p': 'C07', 'k': 'judge', 'stream': hx(streams[name]), 'outs': [hx(o) for o in outs],
                         'flags': [line_flags(o, True) for o in outs]})
        reqs.append({'p': 'C07', 'k': 'judge_events', 'outs': [hx(o) for o in res['B']['lines']],
                     'subscribed': [hx(x) for x in B_SUBSCRIBED]})
        reqs.append(dict({'p': 'C07', 'k': 'neutral', 'stream': hx(streams['A'])}, **orc[streams['A']]))
        runs.append((case, res, streams))
    ans = ctx.driver.batch(reqs)
    for a in ans:
        if 'driver_error' in a:
            raise RuntimeError(a)
    reqs2, idx = [], []
    for i, (case, res, streams) in enumerate(runs):
        na = ans[4 * i + 3]
        if all(na['neutral']):
            # nothing A sends is carried out by a module: B must be answered as if A (all of it left out) had never connected
            alone = run_session({'kind': 'real'}, [[hx(stream_b)]])[0]
            res['B_alone'] = alone['outs']
            idx.append(i)
            reqs2.append({'p': 'C07', 'k': 'judge_indep', 'conns': [
                dict({'stream': hx(streams['A']), 'keep': [False] * len(na['neutral']),
                      'all': [hx(canon_frame(o)) for o in res['A']['lines']], 'kept': []}, **orc[streams['A']]),
                dict({'stream': hx(stream_b), 'keep': [True] * len(B_SCRIPT),
                      'all': [hx(canon_frame(o)) for o in res['B']['lines']], 'kept': [hx(canon_frame(o)) for o in alone['outs']]},
                     **orc[stream_b])]})
    indep = dict(zip(idx, ctx.driver.batch(reqs2))) if reqs2 else {}
    out = []
    for i, (case, res, streams) in enumerate(runs):
        ja, jb, je = ans[4 * i:4 * i + 3]
        ji = indep.get(i)
        if ji is not None and 'driver_error' in ji:
            raise RuntimeError(ji)
        bad = None
        if res['errors']:
            bad = {'clause': 'thread_died', 'errors': res['errors']}
        elif ja['bad'] is not None:
            bad = dict(ja['bad'], conn='A')
        elif jb['bad'] is not None:
            bad = dict(jb['bad'], conn='B')
        elif je['bad'] is not None:
            bad = {'clause': 'no_leak', 'i': je['bad'], 'conn': 'B'}
        elif ji is not None and ji['bad'] is not None:
            bad = dict(ji['bad'], conn='AB'[ji['bad']['conn']])
        out.append({'bad': bad, 'res': res, 'case': case, 'compared_with_B_alone': ji is not None})
    return out


def gen_concurrent(rng):
    lines = []
    probes = rng.random() < 0.4      # A asks for nothing a module carries out: B is then compared with B alone on a fresh node
    for _ in range(rng.choice([2, 3, 4, 6])):
        ln = gen_probe(rng) if probes else gen_request(rng, True)
        if rng.random() < (0.15 if probes else 0.4):
            ln = mutate(rng, ln)
        lines.append(ln)
    if rng.random() < 0.7:
        lines.insert(rng.randrange(len(lines) + 1), rng.choice([b'activate', b'activate m', b'activate m:value', b'logging . "debug"']))
    stream = b''.join(ln + b'\n' for ln in lines)
    return {'kind': 'concurrent', 'chunks': [hx(c) for c in segment(rng, stream) if c], 'sched_seed': rng.randrange(1 << 30),
            'preempt': rng.choice([0.2, 0.5, 0.8]), 'piece': rng.choice([1, 3, 5, 16, 4096]), 'updates': rng.choice([2, 6]),
            'b_one_chunk': rng.random() < 0.5,
            **({'a_gone': {'after': rng.choice([0, 1, 2, 3, 5, 8]), 'pieces': rng.choice([0, 1, 1, 2, 3, 100]),
                           'exc': rng.choice(sorted(GONE)), 'back': rng.random() < 0.7}} if rng.random() < 0.3 else {})}


# ----------------------------------------------------------------------------------------
# sessions: several connections one after the other on ONE node (the dispatcher is shared by all connections of a node),
# and the same session again on a fresh node with some neutral request lines left out -- "no input changes the answers
# given to other lines".  Which lines are neutral is decided in Lean (verb `neutral`), and so is the verdict (`judge_indep`).
# ----------------------------------------------------------------------------------------
def canon_frame(frame):
    """an emitted line without what legitimately differs between two runs: the time stamp in the qualifiers of
    `[value, {qualifiers}]` is masked, an error report is reduced to its class name (canonicalisation only)"""
    body = frame[:-1] if frame.endswith(b'\n') else frame
    p = body.split(b' ', 2)
    if len(p) < 3:
        return frame
    try:
        data = json.loads(p[2])
    except Exception:
        return frame
    if p[0].startswith(b'error_'):
        if isinstance(data, list) and data and isinstance(data[0], str):
            data = [data[0]]
    elif isinstance(data, list) and len(data) == 2 and isinstance(data[1], dict) and 't' in data[1]:
        data = [data[0], dict(data[1], t=0)]
    return b' '.join(p[:2] + [json.dumps(data).encode()]) + (b'\n' if frame.endswith(b'\n') else b'')


def run_session(disp, conns):
    """`conns`: one chunk list (hex) per connection; the connections are served one after the other by real
    TCPRequestHandlers on one dispatcher.  Returns one run_impl result per connection."""
    d = make_dispatcher(disp)
    res = []
    for chunks in conns:
        n0 = len(d.calls) if isinstance(d, StubDispatcher) else 0
        r = run_impl({'chunks': chunks, 'disp': disp}, shared=d)
        if n0:
            r['calls'], r['script'] = r['calls'][n0:], r['script'][n0:]
        elif isinstance(d, StubDispatcher):
            r['calls'], r['script'] = list(r['calls']), list(r['script'])
        res.append(r)
    return res


PROBE_ACTIONS = ['describe', 'describe', 'describe', 'activate', 'deactivate', 'ping', 'logging', '*IDN?', 'help']


def gen_probe(rng):
    """a request that asks for nothing a module carries out, with any specifier"""
    action = rng.choice(PROBE_ACTIONS) if rng.random() < 0.85 else rng.choice(COLLIDING)
    spec = rng.choice(SPECS) if rng.random() < 0.8 else ''
    data = ''
    if action == 'logging':
        data = rng.choice(['"debug"', '"off"', '"error"', '1', ''])
    elif rng.random() < 0.1:
        data = rng.choice(DATA)
    if data and not spec:
        spec = rng.choice(SPECS[1:])
    return ' '.join([action, spec, data] if data else ([action, spec] if spec else [action])).encode('utf-8')


def gen_session(rng):
    """the streams of 1-3 connections of one node"""
    streams = []
    for _ in range(rng.choice([1, 2, 2, 3])):
        lines = []
        for _ in range(rng.choice([1, 2, 3, 4, 6])):
            ln = gen_probe(rng) if rng.random() < 0.55 else gen_request(rng, True)
            if rng.random() < 0.25:
                ln = mutate(rng, ln)
            elif ln.split(b' ')[0] in (b'read', b'change', b'do') and rng.random() < 0.3:
                # a request for a module that is not a message: broken JSON or invalid UTF-8 (may be left out as well)
                if rng.random() < 0.5:
                    ln = b' '.join((ln.split(b' ', 2) + [b'm'])[:2] + [rng.choice(BROKEN_JSON).encode()])
                else:
                    pos = rng.randrange(len(ln) + 1)
                    ln = ln[:pos] + rng.choice(BAD_UTF8) + ln[pos:]
            lines.append(ln)
        stream = b''.join(ln + rng.choice(EOLS) for ln in lines)
        if rng.random() < 0.1:
            stream += gen_request(rng, True)[:rng.randrange(1, 8)]
        streams.append(stream)
    if rng.random() < 0.75:
        disp = {'kind': 'real', 'nan': rng.random() < 0.1}
        if rng.random() < 0.15:
            disp['faults'] = gen_faults(rng)
    else:
        disp = {'kind': 'stub', 'plan': gen_plan(rng), 'by_request': True}
    return streams, disp


def choose_marks(rng, neutral):
    """which lines stay (`neutral`: per connection, per line, may the line be left out?)"""
    mode = rng.randrange(5)
    cand = [(i, k) for i, ns in enumerate(neutral) for k, n in enumerate(ns) if n]
    keep = [[True] * len(ns) for ns in neutral]
    if not cand:
        return keep
    if mode == 0:        # one line
        drop = [rng.choice(cand)]
    elif mode == 1:      # all of them
        drop = cand
    elif mode == 2:      # all of them on one connection: the others must not notice
        c = rng.choice(cand)[0]
        drop = [x for x in cand if x[0] == c]
    else:
        drop = [x for x in cand if rng.random() < 0.5] or [rng.choice(cand)]
    for i, k in drop:
        keep[i][k] = False
    return keep


def kept_stream(stream, keep):
    pieces = stream.split(b'\n')
    return b''.join(ln + b'\n' for ln, k in zip(pieces[:-1], keep) if k) + pieces[-1]


def session_case(rng, streams, disp, keep):
    return {'kind': 'session', 'disp': disp,
            'conns': [{'chunks': [hx(c) for c in segment(rng, s) if c], 'keep': k,
                       'kept_chunks': [hx(c) for c in segment(rng, kept_stream(s, k)) if c]} for s, k in zip(streams, keep)]}


def evaluate_sessions(ctx, cases):
    """both runs of every session on the implementation; every connection of both runs goes through the wire model and
    the per-connection judge like any other case; then the pair of runs is judged for independence"""
    out = []
    flat_cases, flat_impls = [], []
    for case in cases:
        full = run_session(case['disp'], [c['chunks'] for c in case['conns']])
        kept = run_session(case['disp'], [c['kept_chunks'] for c in case['conns']])
        for c, r in zip(case['conns'], full):
            flat_cases.append({'chunks': c['chunks'], 'disp': case['disp']})
            flat_impls.append(r)
        for c, r in zip(case['conns'], kept):
            flat_cases.append({'chunks': c['kept_chunks'], 'disp': case['disp']})
            flat_impls.append(r)
        out.append({'case': case, 'full': full, 'kept': kept})
    evs = evaluate(ctx, flat_cases, flat_impls)
    orc = oracles_for(ctx, [bytes.fromhex(''.join(c['chunks'])) for case in cases for c in case['conns']])
    reqs = []
    pos = 0
    for o in out:
        n = len(o['case']['conns'])
        o['evs'] = evs[pos:pos + 2 * n]
        pos += 2 * n
        reqs.append({'p': 'C07', 'k': 'judge_indep', 'conns': [
            dict({'stream': ''.join(c['chunks']), 'keep': c['keep'], 'all': [hx(canon_frame(x)) for x in f['outs']],
                  'kept': [hx(canon_frame(x)) for x in k['outs']]}, **orc[bytes.fromhex(''.join(c['chunks']))])
            for c, f, k in zip(o['case']['conns'], o['full'], o['kept'])]})
    for o, a in zip(out, ctx.driver.batch(reqs)):
        if 'driver_error' in a:
            raise RuntimeError(f'driver error: {a} on {o["case"]}')
        if a['bad'] is not None and a['bad']['clause'] == 'case_drops_state_request':
            raise RuntimeError(f'session case leaves out a line that is not neutral: {a} {o["case"]}')
        o['bad'] = a['bad']
    return out


def session_lines(case):
    return [b''.join(bytes.fromhex(x) for x in c['chunks']).split(b'\n')[:-1] for c in case['conns']]


def session_signature(o):
    """the request class of the line whose answer changed"""
    bad = o['bad']
    kept = [ln for ln, k in zip(session_lines(o['case'])[bad['conn']], o['case']['conns'][bad['conn']]['keep']) if k]
    return 'C07:independent:answer_changed:' + (request_class(kept[bad['k']]) if bad['k'] < len(kept) else '?')


def describe_session(o):
    bad = o['bad']
    txt = f"{bad}: dispatcher={o['case']['disp']}"
    for i, (lines, c, f, k) in enumerate(zip(session_lines(o['case']), o['case']['conns'], o['full'], o['kept'])):
        txt += (f" | connection {i}: lines={[ln[:60] for ln in lines]} left out={[j for j, x in enumerate(c['keep']) if not x]}"
                f" answers with all lines={[x[:70] for x in f['outs']][:8]} answers without them={[x[:70] for x in k['outs']][:8]}")
    return txt


def shrink_session(ctx, o):
    """fewest lines (each in one chunk, '\\n' as terminator) that still make the judge complain in the same way"""
    sig = session_signature(o)
    case = o['case']
    items = [(i, ln, k) for i, (lines, c) in enumerate(zip(session_lines(case), case['conns'])) for ln, k in zip(lines, c['keep'])]

    def build(its):
        conns = []
        for i in sorted({j for j, _, _ in its}):      # connections left without a line are not opened
            mine = [(ln, k) for j, ln, k in its if j == i]
            conns.append({'chunks': [hx(b''.join(ln + b'\n' for ln, _ in mine))] if mine else [],
                          'keep': [k for _, k in mine],
                          'kept_chunks': [hx(b''.join(ln + b'\n' for ln, k in mine if k))] if any(k for _, k in mine) else []})
        return {'kind': 'session', 'disp': case['disp'], 'conns': conns}

    def fails(its):
        e = evaluate_sessions(ctx, [build(its)])[0]
        return e['bad'] is not None and session_signature(e) == sig

    try:
        if not fails(items):
            return o
        small = ddmin(items, fails, max_tests=80)
        return evaluate_sessions(ctx, [build(small)])[0]
    except Exception:
        return o


# ----------------------------------------------------------------------------------------
# the dispatcher model: what is a function of the request alone (descriptive data, the checks of activate / logging) is
# computed on a FRESH node per entry -- the node under test, whatever it has been through, must answer alike
# ----------------------------------------------------------------------------------------
_STATIC = {}


class _NullConn:
    def send_reply(self, msg):
        pass


def _outcome(func):
    """{'r': 'ok', 'd': hex of the JSON text | None} / {'r': 'secop', 'cls': hex} / {'r': 'exc'}"""
    from frappy.errors import SECoPError
    try:
        data = func()
        return {'r': 'ok', 'd': None if data is None else hx(json.dumps(data).encode())}
    except SECoPError as e:
        return {'r': 'secop', 'cls': hx(str(e.name).encode())}
    except Exception:
        return {'r': 'exc'}


def static_entry(kind, spec, level=None):
    key = (kind, spec, json.dumps(level))
    if key not in _STATIC:
        node = make_real_node(False)
        with contextlib.redirect_stdout(io.StringIO()):
            if kind == 'describe':
                _STATIC[key] = _outcome(lambda: node.secnode.get_descriptive_data(spec))
            elif kind == 'activate':
                _STATIC[key] = _outcome(lambda: node.dispatcher.handle_activate(_NullConn(), spec, None) and None)
            else:
                _STATIC[key] = _outcome(lambda: node.dispatcher.handle_logging(_NullConn(), spec, level) and None)
    return _STATIC[key]


def dispatch_request(im):
    """the request for the dispatcher model: the calls the real dispatcher got, what the module did in each, the tables"""
    from frappy.protocol.messages import DESCRIPTIONREQUEST, ENABLEEVENTSREQUEST, LOGGING_REQUEST
    calls, descr, act, logg, truthy = [], {}, {}, {}, {}
    for (action, spec, data), rec in zip(im['calls'], im['script']):
        d = None if data is None else hx(json.dumps(data).encode())
        mod = {'r': rec.get('r'), 'd': rec.get('d'), 'cls': rec.get('cls')} if rec.get('r') in ('ok', 'secop') else {'r': 'exc'}
        calls.append({'a': hx(enc(action)), 's': None if spec is None else hx(enc(spec)), 'd': d, 'mod': mod})
        if d is not None:
            truthy[d] = bool(data)
        if action == DESCRIPTIONREQUEST:
            descr[hx(enc(spec or ''))] = static_entry('describe', spec or '')
        elif action == ENABLEEVENTSREQUEST and spec:
            act[hx(enc(spec))] = static_entry('activate', spec).get('cls')
        elif action == LOGGING_REQUEST:
            logg[(None if spec is None else hx(enc(spec)), d)] = static_entry('logging', spec, data)
    return {'p': 'C07', 'k': 'dispatch', 'calls': calls,
            'describe': [dict(v, s=k) for k, v in descr.items()],
            'activate': [{'s': k, 'cls': v} for k, v in act.items()],
            'logging': [dict(v, s=k[0], lv=k[1]) for k, v in logg.items()],
            'truthy': [[k, v] for k, v in truthy.items()]}


def count_dispatch(res, ev):
    if 'dmodel' in ev:
        for call, mr in zip(ev['impl']['calls'], ev['dmodel']['results']):
            res.count('dispatcher-model.%s.%s' % (call[0] if call[0] in known_actions() else 'other', mr['r']))


def compare_dispatch(ev):
    """dispatcher model vs the real Dispatcher, per call: kind of outcome, reply action, specifier, error class, and the
    data (as JSON text; not for `ping`, whose data is a time stamp)"""
    from frappy.protocol.messages import HEARTBEATREQUEST
    im = ev['impl']
    for k, (call, rec, mr) in enumerate(zip(im['calls'], im['script'], ev['dmodel']['results'])):
        impl = {'r': rec.get('r')}
        if impl['r'] == 'ok':
            impl.update(a=rec['a'], s=rec['s'], d=rec['d'])
        elif impl['r'] == 'secop':
            impl.update(cls=rec['cls'])
        model = dict(mr)
        if call[0] == HEARTBEATREQUEST and impl['r'] == 'ok' and model['r'] == 'ok':
            impl['d'], model['d'] = impl['d'] is not None, model['d'] is not None
        if impl != model:
            def short(x):
                return {kk: (bytes.fromhex(v)[:80] if isinstance(v, str) and kk != 'r' else v) for kk, v in x.items()}
            return {'what': 'what the dispatcher did with a request', 'index': k, 'request': repr(call)[:120],
                    'model': short(model), 'impl': short(impl)}
    return None


def oracle_tables(ctx, streams):
    """utf8ok / json.loads answers of the real Python functions on the arguments the model will pass"""
    answers = ctx.driver.batch([{'p': 'C07', 'k': 'split', 'stream': hx(s)} for s in streams])
    res = []
    for a in answers:
        if 'driver_error' in a:
            raise RuntimeError(a)
        utf8, js = {}, {}
        for ln in a['lines']:
            s = bytes.fromhex(ln['s'])
            if ln['s'] not in utf8:
                try:
                    s.decode('utf-8')
                    utf8[ln['s']] = True
                except UnicodeDecodeError:
                    utf8[ln['s']] = False
            if utf8[ln['s']] and ln['d'] and ln['d'] not in js:
                try:
                    json.loads(bytes.fromhex(ln['d']).decode('utf-8'))
                    js[ln['d']] = True
                except Exception:   # JSONDecodeError, RecursionError
                    js[ln['d']] = False
        res.append(([[k, v] for k, v in utf8.items()], [[k, v] for k, v in js.items()]))
    return res


def oracles_for(ctx, streams):
    """stream -> {'utf8': …, 'json': …}: the oracle tables as request fields"""
    distinct = list(dict.fromkeys(streams))
    return {s: {'utf8': u, 'json': j} for s, (u, j) in zip(distinct, oracle_tables(ctx, distinct))}


def same_data(model_hex, impl_data):
    if model_hex is None:
        return impl_data is None
    try:
        return json.dumps(json.loads(bytes.fromhex(model_hex).decode('utf-8'))) == json.dumps(impl_data)
    except Exception:
        return False


def evaluate(ctx, cases, impls=None):
    """runs cases on implementation and model; returns list of dicts (impl, model answer, judge answer)"""
    if impls is None:
        impls = [run_impl(c) for c in cases]
    streams = [b''.join(bytes.fromhex(x) for x in c['chunks']) for c in cases]
    # one oracle table per distinct stream
    distinct = list(dict.fromkeys(streams))
    tables = dict(zip(distinct, oracle_tables(ctx, distinct)))
    reqs = []
    slots = []       # per case: where its answers are in the batch
    for c, im, s in zip(cases, impls, streams):
        utf8, js = tables[s]
        gone = c.get('gone')
        real = c['disp']['kind'] == 'real'
        slot = {'model': len(reqs)}
        reqs.append({'p': 'C07', 'k': 'serve', 'chunks': c['chunks'], 'utf8': utf8, 'json': js, 'script': im['script'],
                     'fail_after': gone['after'] if gone else None})
        slot['judge'] = len(reqs)
        if gone:
            reqs.append({'p': 'C07', 'k': 'judge_gone', 'stream': hx(s), 'outs': [hx(o) for o in im['outs']]})
            # what the peer has received, byte for byte (with the part of the frame whose send failed), cut at newlines
            slot['received'] = len(reqs)
            got = im['received']
            reqs.append({'p': 'C07', 'k': 'judge_received', 'stream': hx(s), 'received': hx(got),
                         'flags': [line_flags(ln + b'\n', real) for ln in got.split(b'\n')[:-1]]})
        else:
            reqs.append({'p': 'C07', 'k': 'judge', 'stream': hx(s), 'outs': [hx(o) for o in im['outs']],
                         'flags': [line_flags(o, real) for o in im['outs']]})
        errs = [rec['err'] for rec in im['script'] if rec.get('err')]
        if errs:
            slot['errtext'] = len(reqs)
            reqs.append({'p': 'C07', 'k': 'errtext', 'errors': errs})
        if real:
            slot['dmodel'] = len(reqs)
            reqs.append(dispatch_request(im))
        slots.append(slot)
    ans = ctx.driver.batch(reqs)
    out = []
    for c, im, s, slot in zip(cases, impls, streams, slots):
        for a in slot.values():
            if 'driver_error' in ans[a]:
                raise RuntimeError(f'driver error: {ans[a]} on {c}')
        model, judge = ans[slot['model']], ans[slot['judge']]
        if 'received' in slot and judge['bad'] is None:
            judge = dict(ans[slot['received']], on='received')
        ev = {'case': c, 'impl': im, 'model': model, 'judge': judge, 'stream': s}
        if 'errtext' in slot:
            ev['errtext'] = ans[slot['errtext']]['texts']
        if 'dmodel' in slot:
            ev['dmodel'] = ans[slot['dmodel']]
        out.append(ev)
    return out


def reply_texts(im, model):
    """per dispatcher call the text of the error report in the reply to it (None: no such reply / no text): the
    replies are the emitted lines which the model calls replies, one per request line, in order; the model says which
    request lines reach the dispatcher"""
    replies = [o for o, mo in zip(im['outs'], model['outs']) if mo['k'] == 'reply']
    res = []
    for ln, call in enumerate(model.get('callidx', [])):
        if call is None:
            continue
        text = None
        if ln < len(replies):
            body = replies[ln][:-1].split(b' ', 2)
            try:
                data = json.loads(body[2]) if len(body) == 3 else None
                if isinstance(data, list) and len(data) == 3 and isinstance(data[1], str):
                    text = data[1]
            except Exception:
                pass
        res.append(text)
    return res


def compare_errtext(ev):
    """the text of the error report (`str(err)` evaluated by the request loop) vs the model of SECoPError.format"""
    im, model = ev['impl'], ev['model']
    texts = reply_texts(im, model)
    expected = iter(ev['errtext'])
    for k, rec in enumerate(im['script']):
        if not rec.get('err'):
            continue
        want = bytes.fromhex(next(expected))
        if k < len(texts) and texts[k] is not None and enc(texts[k]) != want:
            return {'what': 'text of the error report', 'index': k, 'model': want[:120], 'impl': enc(texts[k])[:120]}
    return None


def compare(ev):
    """model vs implementation through the observation function; returns None or a disagreement record"""
    im, model = ev['impl'], ev['model']
    impl_obs = [obs_frame(o) for o in im['outs']]
    model_obs = [{k: o[k] for k in 'ascd'} for o in model['outs']]
    if impl_obs != model_obs:
        k = next((i for i, (a, b) in enumerate(zip(impl_obs, model_obs)) if a != b), min(len(impl_obs), len(model_obs)))
        return {'what': 'emitted lines', 'index': k, 'model': model_obs[k:k + 2], 'impl': impl_obs[k:k + 2],
                'n_model': len(model_obs), 'n_impl': len(impl_obs)}
    if len(im['calls']) != len(model['calls']):
        return {'what': 'number of dispatcher calls', 'model': len(model['calls']), 'impl': len(im['calls'])}
    for k, (ic, mc) in enumerate(zip(im['calls'], model['calls'])):
        a, s, d = ic
        if hx(enc(a)) != mc['a'] or (None if s is None else hx(enc(s))) != mc['s'] or not same_data(mc['d'], d):
            return {'what': 'request seen by the dispatcher', 'index': k, 'model': mc, 'impl': repr(ic)[:200]}
    if not model['same_as_unsegmented']:
        return {'what': 'model output depends on the segmentation', 'model': None, 'impl': None}
    if ev['case'].get('gone'):
        # the frame handed to the sendall call that raised, and no call of sendall after it
        mt = None if model['torn'] is None else {k: model['torn'][k] for k in 'ascd'}
        it = None if im['torn'] is None else obs_frame(im['torn'])
        if mt != it:
            return {'what': 'frame whose send failed', 'model': mt, 'impl': it}
        want = len(model['outs']) + (1 if mt is not None else 0)
        if im['send_calls'] != want:
            return {'what': 'number of sendall calls', 'model': want, 'impl': im['send_calls']}
    if 'errtext' in ev:
        dis = compare_errtext(ev)
        if dis is not None:
            return dis
    if 'dmodel' in ev:
        return compare_dispatch(ev)
    return None


# ----------------------------------------------------------------------------------------
# generators
# ----------------------------------------------------------------------------------------
ACTIONS = ['*IDN?', 'describe', 'activate', 'deactivate', 'do', 'change', 'read', 'ping', 'help', 'logging']
COLLIDING = ['_ident', 'request', 'help', 'logging', '__class__', '_lock', 'error_read', 'update', 'log', '_', 'reply', 'error_',
             'handle_read', '*IDN?x', 'READ', 'idn', 'restart', 'shutdown']
SPECS = ['', 'm', 'm:value', 'm:target', 'm:_s', 'n', 'n:value', 'm:status', 'nix', 'm:nix', '.', ':', 'm:', ':value', 'm:stop',
         'm:_twice', 'x' * 40, 'm:value:1', 'mä', 'tok']
DATA = ['', '1', '1.5', '-0.0', '"x"', '"debug"', '"off"', '[1, 2]', '{"a": 1}', 'null', 'true', 'false', '0', '[]', '{}', '""',
        'NaN', 'Infinity', '-Infinity', '1e999', '"\\ud800"', '"ä"', '" a  b "', '3', '[1.5, {"t": 1}]', '12345678901234567890',
        '"a\\nb"', ' 2', '2 ', '[NaN]']
BROKEN_JSON = ['{', '[1,', '"abc', 'nul', '1 2', "'x'", '{"a"}', '[1,]', '\x01', '01', '.5', '+1', 'tru', '{"a":1,}', '"\t"', '\\']
BAD_UTF8 = [b'\xff', b'\xc3', b'\xed\xa0\x80', b'\xc0\x80', b'\xf8\x88\x80\x80\x80', b'\x80', b'\xe2\x82', b'\xf4\x90\x80\x80', b'\xe4']
WS = [b' ', b'  ', b'\t', b'\r', b'\x0b', b'\x0c', b'\x1f', b'\x1c', b'\xc2\xa0', b'\xc2\x85', b'\xe2\x80\xa8', b'\xe3\x80\x80', b'\x00']
EOLS = [b'\n', b'\n', b'\n', b'\r\n', b'\n\r', b'\r\r\n', b' \n', b'\n\n']


def gen_request(rng, real):
    r = rng.random()
    action = rng.choice(ACTIONS if r < 0.8 else COLLIDING)
    if real and rng.random() < 0.75:
        # steer towards requests the small node answers positively
        action, spec, data = rng.choice([
            ('read', 'm', ''), ('read', 'm:value', ''), ('read', 'n:_s', ''), ('change', 'm', '3'), ('change', 'm:target', '2.5'),
            ('change', 'm:_s', '"abc"'), ('do', 'm:stop', ''), ('do', 'm:_twice', '4'), ('do', 'm', ''), ('ping', 'tok', ''),
            ('ping', '', ''), ('activate', '', ''), ('activate', 'm', ''), ('activate', 'n:value', ''), ('deactivate', '', ''),
            ('deactivate', 'm', ''), ('describe', '', ''), ('describe', '.', ''), ('describe', 'm', ''), ('logging', '.', '"debug"'),
            ('logging', 'm', '"off"'), ('logging', '', '"error"'), ('*IDN?', '', ''), ('help', '', ''), ('change', 'm', 'NaN'),
            ('change', 'm', 'Infinity'), ('read', 'm:status', ''), ('_ident', '', ''), ('request', '', ''), ('*IDN?', 'x', ''),
            ('help', 'x', '1'), ('read', 'nix', ''), ('change', 'm:value', '1'), ('logging', 'nix', '"debug"')])
    else:
        spec = rng.choice(SPECS) if rng.random() < 0.8 else ''
        data = rng.choice(DATA) if rng.random() < 0.5 else ''
    if data and not spec and rng.random() < 0.5:
        spec = rng.choice(SPECS[1:])
    fields = [action, spec, data] if data else ([action, spec] if spec else [action])
    return ' '.join(fields).encode('utf-8')


def mutate(rng, line):
    """byte-level mutation of one request line (without its terminator)"""
    k = rng.randrange(14)
    b = bytearray(line)
    pos = rng.randrange(len(b) + 1)
    if k == 0:      # invalid UTF-8 somewhere
        b[pos:pos] = rng.choice(BAD_UTF8)
    elif k == 1:    # broken JSON as data
        parts = line.split(b' ', 2)
        while len(parts) < 2:
            parts.append(b'x')
        b = bytearray(b' '.join(parts[:2] + [rng.choice(BROKEN_JSON).encode()]))
    elif k == 2:    # white space variants inside / around
        b[pos:pos] = rng.choice(WS)
    elif k == 3:    # leading / trailing white space
        if rng.random() < 0.5:
            b[0:0] = rng.choice(WS)
        else:
            b += rng.choice(WS)
    elif k == 4:    # missing field: cut at a blank
        if b' ' in b:
            b = b[:bytes(b).rindex(b' ') + rng.choice([0, 1])]
    elif k == 5:    # extra field
        b += b' ' + rng.choice(DATA + SPECS).encode('utf-8')
    elif k == 6 and b:    # flip a byte
        i = rng.randrange(len(b))
        b[i] = rng.choice([0, 9, 32, 34, 58, 91, 127, 128, 255, b[i] ^ 0x20, b[i] ^ 0x80])
    elif k == 7 and b:    # delete a byte
        del b[rng.randrange(len(b))]
    elif k == 8:    # non-ASCII action / specifier
        b[pos:pos] = rng.choice(['ä', 'ÿ', '€', ' ', '😀']).encode('utf-8')
    elif k == 9:    # broken JSON together with leading blanks or non-ASCII action
        b = bytearray(rng.choice([b' ', b'\t ', b'\xc3\xa4', b'']) + bytes(b) + b' ' + rng.choice(BROKEN_JSON).encode())
    elif k == 10:   # duplicate the line's first field
        b[0:0] = bytes(b).split(b' ')[0] + b' '
    elif k == 11:   # only blanks
        b = bytearray(rng.choice([b'', b' ', b'\t\r', b'   ', b'\x0b\x0c']))
    elif k == 12:   # bad UTF-8 at the very start or end
        if rng.random() < 0.5:
            b[0:0] = rng.choice(BAD_UTF8)
        else:
            b += rng.choice(BAD_UTF8)
    return bytes(b).replace(b'\n', b'')


def long_line(rng, n):
    k = rng.randrange(6)
    if k == 0:
        return b'read ' + b'm' * n
    if k == 1:
        return b'x' * n
    if k == 2:
        return b'change m:_s "' + b'a' * n + b'"'
    if k == 3:
        return b'change m ' + b'[' * n
    if k == 4:
        return b'change m ' + b'[' * (n // 2) + b']' * (n // 2)
    return b' ' * n + b'read m {'


def gen_stream(rng, real, big):
    r = rng.random()
    nlines = rng.choice([1, 1, 2, 2, 3, 4, 6] + ([12, 25] if big else []))
    lines = []
    for _ in range(nlines):
        ln = gen_request(rng, real)
        m = rng.random()
        if m < 0.45:
            ln = mutate(rng, ln)
            if rng.random() < 0.2:
                ln = mutate(rng, ln)
        lines.append(ln)
    if r < 0.04:
        lines[rng.randrange(len(lines))] = long_line(rng, rng.choice([1023, 1024, 1025, 5000, 65536]))
    stream = b''.join(ln + rng.choice(EOLS) for ln in lines)
    if rng.random() < 0.2:    # unterminated tail: not a request
        stream += gen_request(rng, real)[:rng.randrange(1, 8)]
    return stream


def segment(rng, stream):
    """random segmentation into non-empty chunks"""
    n = len(stream)
    if n <= 1:
        return [stream] if stream else []
    mode = rng.randrange(6)
    if mode == 0:
        cuts = []
    elif mode == 1 and n <= 3000:
        cuts = list(range(1, n))
    elif mode == 2:    # around the line ends
        cuts = sorted({i + d for i, c in enumerate(stream) if c == 10 for d in (0, 1) if 0 < i + d < n and rng.random() < 0.7})
    elif mode == 3:    # recv size of the real handler
        cuts = list(range(1024, n, 1024))
    else:
        k = rng.randint(1, min(n - 1, 8))
        cuts = sorted(rng.sample(range(1, n), k))
    res, last = [], 0
    for c in cuts + [n]:
        res.append(stream[last:c])
        last = c
    return res


def all_segmentations(stream):
    n = len(stream)
    for mask in range(1 << (n - 1)):
        res, last = [], 0
        for i in range(1, n):
            if mask >> (i - 1) & 1:
                res.append(stream[last:i])
                last = i
        res.append(stream[last:])
        yield res


SHORT_STREAMS = [b'ping\nping x\n', b'\n\r\n*IDN?\n', b'do m\nx {\n', b' a {\n\xff\n', b'read m\n\nx', b'a\nb\nc\nd\ne\nf\n', b'\n\n\n\n',
                 b'help\n_ident\n', b'\xc3\xa4 {\n\xe4\n', b'ping  1\nx\n', b'x\r\n\ny\n\r', b'describe\n']


def gen_plan(rng):
    n = rng.choice([1, 2, 3, 5])
    if rng.random() < 0.35:
        return [rng.choice(['ok', 'okd', 'oka', 'oke']) for _ in range(n)]
    return [rng.choice(STUB_KINDS) if rng.random() < 0.7 else gen_err_kind(rng) for _ in range(n)]


def gen_gone(rng):
    """a send that fails: the first `after` calls of sendall succeed, the next one writes `written` bytes of its frame
    (never all of it) and raises; after that the peer is gone for good, or (`back`) takes data again"""
    return {'after': rng.choice([0, 1, 1, 2, 3, 5, 11, 12, 13, 14, 20]), 'exc': rng.choice(sorted(GONE)),
            'written': rng.choice([0, 0, 1, 3, 5, 6, 8, 12, 20, 10 ** 6]), 'back': rng.random() < 0.6}


def case_of(chunks, disp):
    return {'chunks': [hx(c) for c in chunks if c], 'disp': disp}


# ----------------------------------------------------------------------------------------
# signatures / shrinking
# ----------------------------------------------------------------------------------------
def known_actions():
    from frappy.protocol.messages import REQUEST2REPLY, IDENTREQUEST
    from frappy.protocol.dispatcher import Dispatcher
    return set(REQUEST2REPLY) | {IDENTREQUEST} | {n[7:] for n in dir(Dispatcher) if n.startswith('handle_')}


def request_class(line):
    s = line.strip(b' \t\n\r\x0b\x0c')
    if not s:
        return 'blank'
    first = s.split(b' ')[0]
    try:
        a = first.decode('utf-8')
    except UnicodeDecodeError:
        return 'non-utf8'
    if a in known_actions():
        return a
    if any(ord(ch) > 127 for ch in a):
        return 'non-ascii'
    return 'other'


def signature(ev):
    if ev['case'].get('gone'):
        return 'C07:peer_gone:' + ev['judge']['bad']['clause'] + (':received' if ev['judge'].get('on') else '')
    bad = ev['judge']['bad']
    clause = bad['clause']
    lines = ev['stream'].split(b'\n')[:-1]
    if clause == 'one_reply_per_line':
        if ev['impl']['died']:
            import re
            funcs = re.findall(r', in (\w+)', ev['impl']['died_text'])
            return 'C07:one_reply_per_line:handler-died-in-' + (funcs[-1] if funcs else '?')
        return 'C07:one_reply_per_line:count'
    if clause == 'reply_fits':
        k = bad['k']
        replies = [o for o in ev['impl']['outs'] if obs_frame(o)['a'] not in async_actions()]
        rep = obs_frame(replies[k]) if k < len(replies) else None
        if rep and bytes.fromhex(rep['a']).startswith(b'error_'):
            return 'C07:reply_fits:error-reply'
        return f'C07:reply_fits:positive-reply:{request_class(lines[k]) if k < len(lines) else "?"}'
    if clause == 'strict_json':
        data = (ev['impl']['outs'][bad['i']].strip().split(b' ', 2) + [b'', b''])[2]
        import re
        unquoted = re.sub(rb'"(\\.|[^"\\])*"', b'""', data)
        if re.search(rb'"": ?-?(NaN|Infinity)\}', unquoted):
            return 'C07:strict_json:nonfinite-timestamp'     # the qualifier {"t": NaN}
        return 'C07:strict_json:' + ('nan-token' if re.search(rb'NaN|Infinity', unquoted) else 'other')
    if clause == 'valid_utf8':
        return 'C07:valid_utf8'
    return 'C07:' + clause


def shrink(ctx, ev):
    """fewest request lines (delivered in one chunk) that still make the judge complain in the same way"""
    case = ev['case']
    sig = signature(ev)
    stream = ev['stream']
    pieces = stream.split(b'\n')
    lines, tail = pieces[:-1], pieces[-1]

    def build(ls, with_tail=False):
        c = case_of([b''.join(x + b'\n' for x in ls) + (tail if with_tail else b'')], case['disp'])
        if case.get('gone'):
            c['gone'] = case['gone']
        return c

    def fails(ls):
        e = evaluate(ctx, [build(ls)])[0]
        return e['judge']['bad'] is not None and signature(e) == sig

    try:
        if not fails(lines):
            return ev
        small = ddmin(lines, fails, max_tests=60)
        return evaluate(ctx, [build(small)])[0]
    except Exception:
        return ev


def describe(ev):
    bad = ev['judge']['bad']
    outs = [o[:120] for o in ev['impl']['outs']]
    if len(outs) > 8:
        outs = outs[:4] + [f'... {len(outs) - 7} more ...'] + outs[-3:]
    txt = f'{bad}: chunks={[bytes.fromhex(c)[:80] for c in ev["case"]["chunks"]][:6]} dispatcher={ev["case"]["disp"]} sent={outs}'
    if ev['case'].get('gone'):
        g = ev['case']['gone']
        txt += (f" (sendall call {g['after']} raises {GONE[g['exc']].__name__} after {g.get('written', 0)} bytes of its frame"
                f"{', later calls succeed' if g.get('back') else ', all later calls raise'}); the peer has received "
                f"{[ln[:80] for ln in ev['impl']['received'].split(bytes([10]))][max(0, g['after'] - 1):g['after'] + 3]}"
                f" (lines {max(0, g['after'] - 1)}..)")
    if ev['impl']['died']:
        txt += ' HANDLER DIED: ' + ev['impl']['died_text'].strip().splitlines()[-1]
    return txt


# ----------------------------------------------------------------------------------------
def run(ctx):
    res = Result()
    res.rule = ('byte streams of 1..25 request lines from a grammar of SECoP requests (actions of REQUEST2REPLY, *IDN?, unknown and '
                'handler-colliding actions), 45 % of the lines mutated at byte level (invalid UTF-8, broken JSON, missing/extra fields, '
                'white space incl. Unicode, CR/LF variants, blank lines, 1-64 KiB lines), delivered to the real TCPRequestHandler in '
                'random segmentations (all 2^(n-1) segmentations of the short streams), with a stub dispatcher doing per call one of '
                '31 things (fitting reply, reply after events, 6 SECoP errors, 10 other exceptions, 9 kinds of unusable return value) or, 30 % of '
                'the calls, raising a SECoP error of one of 16 classes with one of 23 shapes of arguments (none, several, not strings) and 0-3 raising methods, '
                'or the real Dispatcher over a two-module node, 30 % of them with driver functions (read / write / commands) that raise such errors; plus concurrent cases (connection A with such a stream, connection B with a fixed '
                'script, a third thread announcing updates, all on one real dispatcher under the deterministic scheduler with partial '
                'writes; when nothing A sends is carried out by a module, B is compared with B alone on a fresh node); 10 % of the streams with a '
                'socket whose sendall call n raises (5 kinds of exception) after 0 .. all-but-one bytes of its frame went out, later calls raising too or '
                '(60 %) succeeding -- the same for connection A in 30 % of the concurrent cases; sessions (1-3 connections one after the other on one node, 55 % of the '
                'lines requests that no module carries out with any specifier) run twice, the second time on a fresh node without some of the '
                'neutral lines (one / all / all of one connection / random half); non-trivial = at least 2 request lines in at least 2 chunks with at '
                'least one positive and one error reply; for sessions: at least 2 connections, lines left out and lines kept')
    rng = ctx.rng
    big = ctx.tier == 'thorough' or ctx.escalated
    cases = []
    conc_corpus = []
    sess_corpus = []
    cdir = os.path.join(ctx.verif, 'corpus', 'C07')
    if os.path.isdir(cdir):
        for fn in sorted(os.listdir(cdir)):
            if fn.endswith('.json'):
                c = json.load(open(os.path.join(cdir, fn)))['case']
                {'concurrent': conc_corpus, 'session': sess_corpus}.get(c.get('kind'), cases).append(c)
    ncorpus = len(cases)
    # exhaustive segmentations of short streams
    shorts = list(SHORT_STREAMS)
    rng.shuffle(shorts)
    for s in shorts[:ctx.budget(2, 8)]:
        s = s[:12] if big else s[:11]
        disp = {'kind': 'stub', 'plan': gen_plan(rng)} if rng.random() < 0.7 else {'kind': 'real'}
        if disp['kind'] == 'real' and not big:
            disp = {'kind': 'stub', 'plan': ['ok', 'exc', 'none']}
        for chunks in all_segmentations(s):
            cases.append(case_of(chunks, disp))
        res.count('exhaustive-segmentation streams')
    # generated streams
    for i in range(ctx.budget(2200, 12000)):
        real = rng.random() < 0.2
        stream = gen_stream(rng, real, big)
        disp = {'kind': 'real', 'nan': rng.random() < 0.1} if real else {'kind': 'stub', 'plan': gen_plan(rng)}
        if real and rng.random() < 0.1:
            disp['ts'] = rng.choice(['nan', 'inf', '-inf'])
        if real and rng.random() < 0.3:
            disp['faults'] = gen_faults(rng)      # driver code that fails, with errors carrying any arguments
        if len(stream) < 300 and rng.random() < 0.02:
            disp['detailed'] = True      # detailed_errors=True: error reports keep exception text and stack dump
            if 'plan' in disp:           # an `error_x` triple without report is sent as it is when reports are not cleared
                disp['plan'] = [k if k != 'errshape' else 'none' for k in disp['plan']]
        for _ in range(2 if len(stream) < 3000 else 1):
            cases.append(case_of(segment(rng, stream), disp))
            if rng.random() < 0.1:      # the peer goes away: sendall fails from some call on
                cases[-1]['gone'] = gen_gone(rng)

    shrunk = 0
    seen_sigs = set()
    asy = async_actions()
    for lo in range(0, len(cases), 500):
        evs = evaluate(ctx, cases[lo:lo + 500])
        for ev in evs:
            res.evaluations += 1
            res.traces += 1
            im = ev['impl']
            case = ev['case']
            obs = [obs_frame(o) for o in im['outs']]
            nerr = sum(1 for o in obs if bytes.fromhex(o['a']).startswith(b'error_') and o['a'] not in asy)
            npos = sum(1 for o in obs if not bytes.fromhex(o['a']).startswith(b'error_') and o['a'] not in asy)
            res.count('lines.async', sum(1 for o in obs if o['a'] in asy))
            nlines = ev['stream'].count(b'\n')
            res.count('dispatcher.' + case['disp']['kind'])
            if case.get('gone'):
                res.count('peer-gone.' + case['gone']['exc'])
                res.count('peer-gone.later-calls-' + ('succeed' if case['gone'].get('back') else 'raise'))
                if im['torn'] is not None:
                    npart = len(im['received']) - sum(len(o) for o in im['outs'])
                    res.count('peer-gone.part-of-frame-written=%s' % ('0' if npart == 0 else '1-5' if npart < 6 else '6+'))
                res.count('peer-gone.lines-processed=%s' % (ev['model'].get('done') if ev['model'].get('done', 9) < 4 else '4+'))
                res.count('peer-gone.loop-stopped' if len(im['outs']) == case['gone']['after'] and
                          ev['model'].get('done', 0) < nlines else 'peer-gone.all-lines-processed')
            if case['disp'].get('detailed'):
                res.count('detailed_errors=True')
                res.count('detailed_errors=True.reports-with-traceback', sum(1 for o in im['outs'] if b'"traceback": "' in o))
            res.count('lines=%s' % (nlines if nlines < 4 else '4+'))
            res.count('chunks=%s' % (len(case['chunks']) if len(case['chunks']) < 4 else '4+'))
            res.count('replies.positive', npos)
            res.count('replies.error', nerr)
            for o in obs:
                if o['c'] and bytes.fromhex(o['a']).startswith(b'error_'):
                    res.count('error.' + bytes.fromhex(o['c']).decode('latin-1'))
            for rec in im['script']:
                res.count('dispatcher-did.' + rec.get('r', '?'))
                if rec.get('err'):
                    na = len(rec['err']['args'])
                    res.count('secop-error.args=%s' % (na if na < 2 else '2+'))
                    res.count('secop-error.' + ('registered-class' if rec['err']['registered'] else 'class-name-in-text'))
                    res.count('secop-error.raising-methods=%d' % len(rec['err']['methods']))
            if case['disp'].get('faults'):
                res.count('real-node.with-failing-driver-functions')
            if len(ev['stream']) > 60000:
                res.count('stream>60000 bytes')
            if nlines >= 2 and len(case['chunks']) >= 2 and npos and nerr:
                res.nontriv(case)
            if len(res.samples) < 5 and nlines in (2, 3) and npos and nerr and len(ev['stream']) < 80:
                res.samples.append({'chunks': [bytes.fromhex(c).decode('latin-1') for c in case['chunks']], 'dispatcher': case['disp'],
                                    'sent': [o.decode('latin-1')[:100] for o in im['outs']]})
            count_dispatch(res, ev)
            if ctx.model_ok:
                dis = compare(ev)
                if dis is not None:
                    res.disagreements.append({'case': case, 'model': dis, 'impl': {'sent': [o[:100].decode('latin-1') for o in im['outs']][:8]}})
            if ev['judge']['bad'] is not None:
                sig = signature(ev)
                if sig in seen_sigs:
                    continue
                seen_sigs.add(sig)
                if shrunk < 6:
                    ev = shrink(ctx, ev)
                    shrunk += 1
                res.violations.append({'sig': sig, 'what': describe(ev), 'case': ev['case'],
                                       'detail': {'verdict': ev['judge']['bad'], 'died': ev['impl']['died_text']}})
    res.notes.append(f'{ncorpus} corpus cases run first')
    # ---------- sessions: connections one after the other on one node, run again with neutral lines left out ----------
    gen = [gen_session(rng) for _ in range(ctx.budget(250, 2500))]
    orc = oracles_for(ctx, [s for streams, _ in gen for s in streams])
    answers = ctx.driver.batch([dict({'p': 'C07', 'k': 'neutral', 'stream': hx(s)}, **orc[s]) for streams, _ in gen for s in streams])
    sessions = list(sess_corpus)
    pos = 0
    for streams, disp in gen:
        neutral = []
        for _ in streams:
            if 'driver_error' in answers[pos]:
                raise RuntimeError(answers[pos])
            neutral.append(answers[pos]['neutral'])
            pos += 1
        sessions.append(session_case(rng, streams, disp, choose_marks(rng, neutral)))
    for lo in range(0, len(sessions), 200):
        for o in evaluate_sessions(ctx, sessions[lo:lo + 200]):
            case = o['case']
            res.evaluations += 1
            res.traces += 2 * len(case['conns'])
            res.count('session.cases')
            res.count('session.dispatcher.' + case['disp']['kind'])
            res.count('session.connections=%d' % len(case['conns']))
            ndrop = sum(1 for c in case['conns'] for k in c['keep'] if not k)
            nkeep = sum(1 for c in case['conns'] for k in c['keep'] if k)
            res.count('session.lines-left-out=%s' % (ndrop if ndrop < 4 else '4+'))
            res.count('session.lines-kept=%s' % (nkeep if nkeep < 4 else '4+'))
            for lines, c in zip(session_lines(case), case['conns']):
                for ln, k in zip(lines, c['keep']):
                    res.count(('session.kept.' if k else 'session.left-out.') + request_class(ln))
            if ndrop and nkeep and len(case['conns']) > 1:
                res.nontriv(case)
            for ev in o['evs']:
                count_dispatch(res, ev)
                if ctx.model_ok:
                    dis = compare(ev)
                    if dis is not None:
                        res.disagreements.append({'case': ev['case'], 'model': dis,
                                                  'impl': {'sent': [x[:100].decode('latin-1') for x in ev['impl']['outs']][:8]}})
                if ev['judge']['bad'] is not None:
                    sig = signature(ev)
                    if sig not in seen_sigs:
                        seen_sigs.add(sig)
                        res.violations.append({'sig': sig, 'what': 'in a session: ' + describe(ev), 'case': ev['case'],
                                               'detail': {'verdict': ev['judge']['bad'], 'died': ev['impl']['died_text']}})
            if o['bad'] is not None:
                sig = session_signature(o)
                if sig in seen_sigs:
                    continue
                seen_sigs.add(sig)
                if shrunk < 8:
                    o = shrink_session(ctx, o)
                    shrunk += 1
                res.violations.append({'sig': sig, 'what': describe_session(o), 'case': o['case'], 'detail': {'verdict': o['bad']}})
    # ---------- concurrency: two connections + an updater thread on one real dispatcher, scheduled deterministically ----------
    conc = [c for c in conc_corpus]
    for _ in range(ctx.budget(80, 1200)):
        conc.append(gen_concurrent(rng))
    for ev in (e for lo in range(0, len(conc), 100) for e in evaluate_concurrent_many(ctx, conc[lo:lo + 100])):
        case = ev['case']
        res.evaluations += 1
        res.traces += 2
        res.count('concurrent.cases')
        res.count('concurrent.piece=%s' % case.get('piece'))
        if case.get('a_gone'):
            res.count('concurrent.a-send-on-A-fails')
            if len(ev['res']['A']['frames_sent']) > case['a_gone']['after']:
                res.count('concurrent.a-send-on-A-fails.reached')
        r = ev['res']
        nupd_a = sum(1 for ln in r['A']['lines'] if ln.startswith(b'update '))
        res.count('concurrent.A-got-events' if nupd_a else 'concurrent.A-no-events')
        if ev['compared_with_B_alone']:
            res.count('concurrent.A-all-neutral:B-compared-with-B-alone')
        if nupd_a and len(r['A']['lines']) > nupd_a:
            res.nontriv(case)
        if ev['bad'] is not None:
            sig = 'C07:concurrent:' + ev['bad']['clause']
            if sig in seen_sigs:
                continue
            seen_sigs.add(sig)
            res.violations.append({'sig': sig, 'what': f"{ev['bad']}: concurrent case {case}; A received {r['A']['lines'][:8]}; "
                                                       f"B received {r['B']['lines'][:8]}"
                                                       + (f"; B alone on a fresh node receives {r['B_alone'][:12]}" if 'B_alone' in r else ''),
                                   'case': case, 'detail': {'verdict': ev['bad'], 'steps': r['steps']}})
    return res


def replay(ctx, rp):
    case = rp['case']
    if case.get('kind') == 'concurrent':
        ev = evaluate_concurrent(ctx, case)
        print('case   :', case)
        for name in 'AB':
            print(f'{name} received:')
            for ln in ev['res'][name]['lines']:
                print('   ', ln[:160])
        if 'B_alone' in ev['res']:
            print('B alone on a fresh node receives:')
            for ln in ev['res']['B_alone']:
                print('   ', ln[:160])
        print('thread errors:', ev['res']['errors'], 'steps:', ev['res']['steps'])
        print('judge  :', ev['bad'])
        return 0 if ev['bad'] is None else 1
    if case.get('kind') == 'session':
        o = evaluate_sessions(ctx, [case])[0]
        print('disp   :', case['disp'])
        for i, (lines, c, f, k) in enumerate(zip(session_lines(case), case['conns'], o['full'], o['kept'])):
            print(f'connection {i}:')
            for ln, keep in zip(lines, c['keep']):
                print('   ', 'request      ' if keep else 'request (out)', ln[:160])
            print('    answers with all lines       :', [x[:160] for x in f['outs']])
            print('    answers without the marked   :', [x[:160] for x in k['outs']])
        wire = [ev['judge']['bad'] for ev in o['evs'] if ev['judge']['bad'] is not None]
        print('judge  :', o['bad'], wire)
        return 0 if o['bad'] is None and not wire else 1
    ev = evaluate(ctx, [case])[0]
    print('chunks :', [bytes.fromhex(c)[:200] for c in case['chunks']])
    print('disp   :', case['disp'], 'peer gone:', case.get('gone'))
    print('impl   :', [o[:200] for o in ev['impl']['outs']])
    if case.get('gone'):
        print('peer received:', [ln[:200] for ln in ev['impl']['received'].split(bytes([10]))])
    print('did    :', [r.get('r') for r in ev['impl']['script']])
    if ev['impl']['died']:
        print('HANDLER DIED:', ev['impl']['died_text'])
    print('model  :', [(o['k'], bytes.fromhex(o['a']), bytes.fromhex(o['s']), o['c'] and bytes.fromhex(o['c'])) for o in ev['model']['outs']])
    print('corr   :', compare(ev))
    print('judge  :', ev['judge'])
    return 0 if ev['judge']['bad'] is None else 1
