"""C03 — Datatype descriptions, copies and compatibility verdicts are faithful."""
import json
import math
import os
import sys

from check import Result
from vlib import dtcodec, dicodec, gen
from vlib.dtcodec import fj, bits2f

META = {
    'level_text': 'Theorems for every lawful float carrier and every datatype tree of any depth: rebuild_equiv (get_datatype of '
                  'the exported datainfo of a well-formed exportable tree exists, exports the identical datainfo again, validate / '
                  'import_value are the same functions; rebuild_exact: it is the tree itself up to the enum name and the client mark when '
                  'optional is in member order), copy_equiv (copy() of such a tree '
                  'is the tree itself), copyH_fresh / copyH_frame on an explicit object heap (no object of the copy is reachable from '
                  'anything allocated before; mutating the copy leaves every older object unchanged), compatible_sound_partial (a passing '
                  'check implies every value of the first value set is accepted by the second type), compatible_complete (the check '
                  'passes on the nested pairings of the statement), compatible_self.  Derived classes (TextType, LimitsType, StatusType, at '
                  'any depth, on either side): compatibleC_as_described (the verdict is the one of the kinds they are described as), '
                  'compatibleC_complete, compatibleC_sound_partial, compatible_with_own_description (a datatype and the type rebuilt from its '
                  'description are compatible both ways), copyC_equiv (the copy validates like the original, LimitsType order test included), '
                  'rebuildC_equiv_partial.  Scaled limits: scaled_description_exact / _only_if (the integers exported as min / max denote the '
                  'limits exactly when the limits are grid aligned, wherever the float quotient limit/scale lands), snapLimits_same_behaviour '
                  '(repaired ScaledInteger.validate, 5b4d2cd: a tree and the tree with every scaled limit moved to its grid value have the same '
                  'validate / __call__ / import_value), rebuild_snaps / copy_snaps / copy_equiv_snaps / command_rebuild_snaps (rebuild_equiv and '
                  'copy_equiv for EVERY well-formed tree whose scaled limits have finite grid values, on the grid or NOT: the description is a fixed '
                  'point of the round trip, the rebuilt type / the copy validates and imports exactly like the ORIGINAL, the copy is the tree with '
                  'every scaled limit moved to its grid value; hypothesis GridStable), snapLimits_aligned.  '
                  'Commands: compatibleCmd_reduces / compatibleCmd_complete, command_rebuild_equiv (export_datatype / '
                  "DATATYPES['command'] / copy of a CommandType).  Users of compatible(): "
                  'proxy_own_description_silent, proxy_own_command_silent (the proxy check logs nothing against the own description), '
                  'writable_same_datatype_ok; proxy_direction (which way round the proxy asks compatible() follows from the readonly flag of its '
                  'OWN parameter: writable and no incompatible-warning = proxy -> remote passed, no datatype warning = remote -> proxy passed), '
                  'proxy_flow_sound_partial (then the values really fit).  Histories on ONE object (description asked for, main unit / properties of '
                  'any member changed - also through the enclosing arrays -, asked again): history_description_current (the description given at the '
                  'end is the one of the object as it is then), history_rebuild_equiv / history_copy_equiv, set_main_unit_same_behaviour.  '
                  'Table facts of DATATYPES / exported properties by decide.  Models '
                  'tied to frappy/datatypes.py, frappy/proxy.py (_check_descriptive_data) and frappy/modules.py (Writable.__init__) by a '
                  'correspondence run on the real classes; Lean monitors judge every observed rebuild, '
                  'copy (sharing partition, mutation of every object of the copy) and verdict (datatypes and commands), with a witness '
                  'search through the real validate for passing verdicts; the proxy check is judged on the direction in which values flow '
                  '(witnesses of both value sets through the real validate of the other side); aged objects are judged at the end of their history '
                  '(rebuild / copy as above, and the datainfo against that of a twin built from the state read off the object).',
    'level_note': 'Partial: compatible_sound excludes a struct of the first type with all members optional against a mandatory member '
                  '(recorded finding, counterexample compatible_sound_fails proved) and relative_resolution >= 1 (recorded finding, '
                  'counterexample compatible_sound_fails_resolution proved); compatibleC_sound_partial additionally needs that the second '
                  'type holds no LimitsType (plain tuple against LimitsType: recorded finding, compatibleC_sound_fails_limits proved; '
                  'LimitsType against LimitsType: needs monotonicity of validate, not proved, judged by the monitors only); '
                  'rebuildC_equiv_partial excludes LimitsType (its order test is not in the description: recorded finding, '
                  'rebuildC_equiv_fails_limits proved); proxy_flow_sound_partial has the side conditions of compatibleC_sound_partial; '
                  'history_rebuild_equiv assumes that the object at the end of the history is well formed (that set_properties / set_main_unit keep '
                  'DInfo.WF is not proved). '
                  'Trusted: Lean kernel + axioms propext/Classical.choice/Quot.sound; LawfulFloatOps and CompatLaws for binary64 (both '
                  'proved for the exact carrier Rat); scaled limits within the grid-law region (|index| <= 2^31); compatible_* : scaled limits grid aligned.',
    'trusted': [
        'binary64 restricted to non-NaN values satisfies LawfulFloatOps (Base/Num.lean) and CompatLaws (Base/NumCompat.lean): tolerance '
        'band order convex for relative_resolution <= 1, x - p <= x <= x + p for p >= 0, integers between convertible integers convert, '
        'integers up to 2^64 convert to finite floats, round() defined between defined points, finiteness between finite bounds; both classes are proved for the Rat carrier '
        '(FrappyProofs/Lemmas/CompatLawsRat.lean)',
        'CompatLaws.grid_ge_lt / grid_le_lt (a number whose grid value is >= m lies above m - scale, dually) are false for binary64 when '
        'scale < ulp(limit); assumed for the limits drawn (|grid index| <= 2^31)',
        'GridStable (hypothesis of rebuild_snaps / copy_snaps: round((k*scale)/scale) = k) for binary64 within |k| < 2^51; proved for Rat '
        '(rat_gridStable).  CompatLaws and GridStable are re-tested with the Float instance on 4 000 / 60 000 tuples of the region drawn in '
        'every run (driver verb laws; a test, not a proof)',
        'FrappyDrive/FloatInst.lean: Float instance of FloatOps',
    ],
    'modelled_not_verified': [
        'frappy.properties.HasProperties (propertyDict order, setProperty/checkProperties) — DInfo.WF is what it enforces',
        'frappy.lib.enum.Enum (members sorted by value, dict keyed by names and values)',
        'json.dumps / json.loads of the datainfo (floats stay floats, integers stay integers, member order kept)',
        'id()-walk over DataType instances, propertyValues dicts, member dicts / tuples, optional lists, Enum and EnumMember objects: '
        'the heap model copyH = read, copy, build allocates new objects by construction',
        'Python method resolution for the derived classes (none overrides compatible / export_datatype / __call__ / import_value; '
        'LimitsType overrides validate and copy, TextType copy): compatibleC / cvalidate / copyC transcribe it, tied by correspondence',
        'frappy.params.Parameter copies the declared datatype before Writable.__init__ compares value and target (the model applies copyC)',
        'datatype objects are changed through set_main_unit / set_properties on the object or on a member object (History.lean: setMainUnit, '
        'setProp with the delegation of ArrayOf.setProperty, checkProps); not modelled: scale of a ScaledInteger set later, set_name, histories on '
        'derived classes and on CommandType; the property datatypes are modelled for values of the right kind only',
        'the proxy check is run on stand-ins for the proxy module and the SecopClient (parameters / commands dicts, a log collecting '
        'the warnings); the remote datatypes are rebuilt from their description by the real get_datatype',
    ],
    'assumptions': ['generalConfig.lazy_number_validation is False (default)',
                    'scaled integers have grid-aligned limits in the strict sense limit == index * scale as floats (quantifier of the '
                    'property; compatible_sound_partial / compatible_complete have it as GridAligned); a limit written as a decimal literal that is not '
                    'such a product (0.7 with scale 0.1: 7 * 0.1 = 0.7000000000000001) is outside: the round trip moves it by one ulp '
                    '(remark in ScaledInteger.checkProperties) — since the repair 5b4d2cd this changes no behaviour, and the rebuild / copy streams '
                    'judge ALL clauses (behaviour included) for such trees too, as long as the grid values of the limits are finite (judgeRebuilt: snapLimits)',
                    'relative_resolution < 1 on the second type of a pair (hypothesis ResLeOne of compatible_sound_partial; recorded finding otherwise)',
                    'datainfo given to get_datatype: enum values are JSON integers, scale is a JSON number, optional is a list',
                    'the member of a LimitsType is a number kind (FloatRange, IntRange, ScaledInteger); TextType as constructed '
                    '(minchars 0, not UTF-8)',
                    'CommandType: argument and result are datatypes of the modelled kinds or None (derived classes in the compatible() '
                    'stream, the ten kinds in the rebuild / copy stream); a command as the argument of a command and the old syntax '
                    "['command', {...}] are not modelled"],
}

FMAX = sys.float_info.max
UNITS = ['', '', 'K', '$', '$/s', 'µm', 'm/s']
FMTS = ['%g', '%g', '%.3f', '%.6g', '%e']


# ---------------------------------------------------------------------------------------------
# running the real code
# ---------------------------------------------------------------------------------------------
def _outcome(f):
    from frappy.errors import RangeError, WrongTypeError
    try:
        r = f()
    except (RangeError, WrongTypeError):
        return 'bad', None
    except Exception as e:
        return 'other', type(e).__name__
    return 'ok', r


def _enc(out):
    kind, x = out
    if kind == 'ok':
        try:
            return {'ok': dtcodec.canon(dtcodec.py_to_json(x))}
        except TypeError:
            return {'other': 'unencodable:' + type(x).__name__}
    if kind == 'bad':
        return 'bad'
    return {'other': x}


def jround(x):
    return json.loads(json.dumps(x))


def datainfo_json(d):
    """a datainfo (Python object) as a protocol JSON value, members of objects sorted"""
    return dtcodec.canon(dtcodec.py_to_json(d))


def run_probe(dt, probe):
    cand = dtcodec.json_to_py(probe['cand'])
    if probe['mode'] == 'wire':
        return _enc(_outcome(lambda: dt.import_value(jround(cand))))
    if probe['mode'] == 'call':
        return _enc(_outcome(lambda: dt(cand)))
    prev = dtcodec.json_to_py(probe['prev']) if probe.get('prev') is not None else None
    return _enc(_outcome(lambda: dt.validate(cand, prev)))


# ---------------------------------------------------------------------------------------------
# generators
# ---------------------------------------------------------------------------------------------
C03_SCALES = gen.SCALES + [0.5, 2.0, 0.2, 0.01, 0.3, 0.7, 0.05, 1e-6, 1 / 3, 3.3, 1e3]


def quotient_class(k, scale):
    """where the float quotient `(k*scale)/scale` lands relative to the grid index k it stands for (what
    `int(round(limit / scale))` of export_datatype / export_value / __call__ has to undo): exact / below / above;
    None when k*scale is not a grid point in the strict sense (round(quotient) * scale gives another float)"""
    try:
        x = k * scale
        q = x / scale
        if math.isinf(x) or int(round(q)) != k or float(int(round(q)) * scale) != x:
            return None
    except (OverflowError, ValueError):
        return None
    return 'exact' if q == k else 'below' if q < k else 'above'


def draw_index(rng, scale, want=None):
    """a grid index; with `want` one whose quotient class is `want` (searched from random starting points: which indices have an
    inexact quotient depends on the bits of the scale)"""
    for _ in range(400):
        k = rng.choice([rng.randint(-20, 20), rng.randint(-300, 300), rng.randint(-5000, 5000), rng.randint(-2 ** 31, 2 ** 31)])
        c = quotient_class(k, scale)
        if c is not None and (want is None or c == want):
            return k
    return None


def aligned_scaled(rng):
    """a scaled leaf with grid-aligned limits (limit == index * scale as floats).  The indices come from a small catalogue (zero,
    degenerate, huge) or from a search that covers, for both limits, the three ways the float quotient limit/scale can relate to
    the index: exact, a hair below, a hair above (decimal scales like 0.1 give all three)"""
    scale = rng.choice(C03_SCALES)
    r = rng.random()
    ks = None
    if r < 0.12:
        ks = (-16777216, 16777216)
    elif r < 0.2:
        k = rng.choice([0, 1, -3, 10, 2 ** 24])
        ks = (k, k)
    elif r < 0.45:
        ks = tuple(sorted(rng.sample([0, 1, -1, 5, -5, 10, 100, -100, 1000, 2 ** 24, -2 ** 24, 2 ** 31, -2 ** 31, 3, 7], 2)))
    elif r < 0.8:
        # at least one limit with an inexact quotient (when the scale has such indices at all)
        k1 = draw_index(rng, scale, rng.choice(['below', 'below', 'above']))
        k2 = draw_index(rng, scale, rng.choice([None, None, 'below', 'above', 'exact']))
        if k1 is not None and k2 is not None:
            ks = tuple(sorted((k1, k2))) if rng.random() < 0.85 else (k1, k1)
    if ks is None or quotient_class(ks[0], scale) is None or quotient_class(ks[1], scale) is None:
        k1, k2 = draw_index(rng, scale), draw_index(rng, scale)
        ks = tuple(sorted((k1 or 0, k2 or 0)))
    klo, khi = ks
    lo, hi = klo * scale, khi * scale
    ar = rng.choice([scale, scale, 0.0, 0.5, 0.03])
    rr = rng.choice([1.2e-7, 1.2e-7, 0.0, 0.01])
    return {'t': 'scaled', 'scale': fj(scale), 'min': fj(lo), 'max': fj(hi), 'ar': fj(ar), 'rr': fj(rr)}


def scaled_leaves(tree):
    t = tree['t']
    if t == 'scaled':
        yield tree
    elif t == 'array':
        yield from scaled_leaves(tree['elem'])
    elif t == 'tuple':
        for e in tree['elems']:
            yield from scaled_leaves(e)
    elif t == 'struct':
        for _, m in tree['members']:
            yield from scaled_leaves(m)


def quotient_classes(tree):
    """evidence: quotient classes of the limits of the scaled leaves of a tree"""
    out = []
    for lt in scaled_leaves(tree):
        s = _f(lt['scale'])
        for lim in ('min', 'max'):
            x = _f(lt[lim])
            try:
                k = int(round(x / s))
                out.append(quotient_class(k, s) if k * s == x else 'not-aligned')
            except (OverflowError, ValueError):
                out.append('overflow')
    return out


def fix_scaled(rng, tree):
    """replace scaled leaves by ones with grid-aligned limits (quantifier of the property)"""
    t = tree['t']
    if t == 'scaled':
        return aligned_scaled(rng)
    if t == 'array':
        return dict(tree, elem=fix_scaled(rng, tree['elem']))
    if t == 'tuple':
        return dict(tree, elems=[fix_scaled(rng, e) for e in tree['elems']])
    if t == 'struct':
        return dict(tree, members=[[k, fix_scaled(rng, m)] for k, m in tree['members']])
    return tree


def unalign_scaled(rng, tree):
    """move limits of scaled leaves off the grid (outside the quantifier: only the description is judged there, and the model
    of export / get_datatype / copy is compared with the real code): a fraction of a step, one ulp, a decimal literal"""
    t = tree['t']
    if t == 'scaled':
        s, lo, hi = _f(tree['scale']), _f(tree['min']), _f(tree['max'])

        def off(x):
            r = rng.random()
            if r < 0.25:
                return x
            if r < 0.6:
                return x + rng.choice([0.1, -0.1, 0.3, -0.3, 0.49, -0.49, 0.5, -0.5]) * s
            if r < 0.8:
                return math.nextafter(x, rng.choice([math.inf, -math.inf]))
            return float('%.6g' % x)
        lo2, hi2 = off(lo), off(hi)
        if not lo2 <= hi2:
            lo2, hi2 = lo, off(hi) if off(hi) >= lo else hi
        return dict(tree, min=fj(lo2), max=fj(hi2))
    if t == 'array':
        return dict(tree, elem=unalign_scaled(rng, tree['elem']))
    if t == 'tuple':
        return dict(tree, elems=[unalign_scaled(rng, e) for e in tree['elems']])
    if t == 'struct':
        return dict(tree, members=[[k, unalign_scaled(rng, m)] for k, m in tree['members']])
    return tree


def permute_optional(rng, tree):
    """structs whose members are all optional: sometimes name them in another order (the datainfo leaves `optional` out)"""
    t = tree['t']
    if t == 'array':
        return dict(tree, elem=permute_optional(rng, tree['elem']))
    if t == 'tuple':
        return dict(tree, elems=[permute_optional(rng, e) for e in tree['elems']])
    if t == 'struct':
        members = [[k, permute_optional(rng, m)] for k, m in tree['members']]
        optional = list(tree['optional'])
        if len(optional) > 1 and set(optional) == set(k for k, _ in members) and rng.random() < 0.4:
            optional = optional[::-1] if rng.random() < 0.7 else optional + optional[:1]
        return dict(tree, members=members, optional=optional)
    return tree


def gen_di(rng, maxdepth, kind=None):
    tree = fix_scaled(rng, gen.gen_tree(rng, maxdepth, kind))
    if rng.random() < 0.12:
        tree = unalign_scaled(rng, tree)
    tree = permute_optional(rng, tree)
    if tree['t'] == 'string' and rng.random() < 0.3:
        tree = dict(tree, min=rng.choice([1, 3, 5]), max=gen.UNLIMITED)
    if rng.random() < 0.25:
        # derived classes (TextType, LimitsType, StatusType) at any depth
        tree = plant_variants(rng, tree, 0.5)
    return dicodec.annotate(rng, tree, UNITS, FMTS)


def limit_values(lt, wire):
    """the described limits of a numeric leaf themselves and their neighbours on the grid / around the clamping band: what a
    description that moved a limit by one step (or by one ulp) answers differently"""
    t = lt['t']
    if t == 'int':
        lo, hi = lt['min'], lt['max']
        return [lo, hi, lo - 1, hi + 1]
    lo, hi = _f(lt['min']), _f(lt['max'])
    if t == 'double':
        return [lo, hi] if not wire or (abs(lo) < 1e300 and abs(hi) < 1e300) else []
    s = _f(lt['scale'])
    if wire:
        kb = gen.grid_bounds(lt)
        if kb is None:
            return []
        klo, khi = kb
        return [klo, khi, klo + 1, khi - 1, klo - 1, khi + 1]
    out = [lo, hi, lo + s, hi - s, lo - 0.4 * s, hi + 0.4 * s, lo - 0.6 * s, hi + 0.6 * s]
    for x in (lo - s, hi + s):
        out += [x, math.nextafter(x, math.inf), math.nextafter(x, -math.inf)]
    return [x for x in out if not math.isinf(x)]


def limit_probes(rng, plain, cap=36):
    """probes at the limits of the numeric leaves (every run, not sampled): a valid value with one numeric leaf replaced"""
    out, seen = [], set()
    for attempt in range(3):
        v = gen.gen_valid(rng, plain)
        if v is None:
            break
        for wire in (False, True):
            cand0 = gen.to_wire(rng, plain, v) if wire else gen.to_driver(rng, plain, v)
            for path, lt in list(gen.numeric_leaf_paths(plain, cand0))[:4]:
                if (path, wire) in seen:
                    continue
                seen.add((path, wire))
                for x in limit_values(lt, wire):
                    cand = gen.subst(cand0, path, x)
                    if (wire and not dtcodec.is_json_value(cand)) or not dtcodec.encodable(cand):
                        continue
                    out.append({'mode': 'wire' if wire else 'py', 'cand': dtcodec.py_to_json(cand), 'prev': None})
        if len(out) >= cap:
            break
    return out[:cap]


def gen_probes(rng, plain, n):
    """probe values from the boundary catalogues of a plain tree: [{'mode','cand','prev'}] (protocol JSON)"""
    out = []
    for _ in range(n):
        v = gen.gen_valid(rng, plain)
        r = rng.random()
        mode = 'wire' if rng.random() < 0.5 else 'py'
        if v is None:
            cand = rng.choice(gen.WIRE_KINDS)
        else:
            cand = gen.to_wire(rng, plain, v) if mode == 'wire' else gen.to_driver(rng, plain, v)
            if r < 0.25:
                leaves = list(gen.numeric_leaf_paths(plain, cand))
                if leaves:
                    path, lt = rng.choice(leaves)
                    nums = gen.boundary_wire_ints(lt) if (mode == 'wire' and lt['t'] == 'scaled') else gen.boundary_numbers(rng, lt)
                    cand = gen.subst(cand, path, rng.choice(nums))
            elif r < 0.4:
                vs = gen.shape_variants(rng, plain, cand)
                if vs:
                    cand = rng.choice(vs)
            elif r < 0.5:
                cs = gen.subst_candidates(rng, cand, mode == 'wire', 3)
                if cs:
                    cand = rng.choice(cs)
        if mode == 'wire' and not dtcodec.is_json_value(cand):
            mode = 'py'
        if not dtcodec.encodable(cand):
            continue
        prev = None
        if mode == 'py' and rng.random() < 0.3:
            prev = gen.gen_previous(rng, plain)
            if prev is not None and not dtcodec.encodable(prev):
                prev = None
        out.append({'mode': mode, 'cand': dtcodec.py_to_json(cand),
                    'prev': dtcodec.py_to_json(prev) if prev is not None else None})
    out += limit_probes(rng, plain)
    # string lengths around the limits (the rebuild table's defaults are about lengths)
    for path, sub in dicodec.subtrees(plain):
        if sub['t'] == 'string' and not path:
            for n_ in {sub['min'], sub['min'] + 1, min(sub['max'], sub['min'] + 7)}:
                out.append({'mode': 'py', 'cand': 'a' * n_, 'prev': None})
        if sub['t'] == 'blob' and not path:
            for n_ in {sub['min'], sub['min'] + 1, min(sub['max'], 64)}:
                out.append({'mode': 'py', 'cand': {'b': (b'\x01' * n_).hex()}, 'prev': None})
    return out


# ---------------------------------------------------------------------------------------------
# rebuild
# ---------------------------------------------------------------------------------------------
def eval_rebuild(case):
    """export -> json round trip -> get_datatype -> export again, probes through both"""
    from frappy.datatypes import get_datatype
    dt = dicodec.di_to_dt(case['tree'])
    impl = {'built': False, 'datainfo': None, 'datainfo2': None, 'tree2': None, 'classes': None, 'probes': [], 'error': None}
    ex = _outcome(dt.export_datatype)
    if ex[0] != 'ok':
        impl['error'] = 'export:' + str(ex[1])
        return dt, None, impl
    impl['datainfo'] = datainfo_json(ex[1])
    rb = _outcome(lambda: get_datatype(jround(ex[1])))
    if rb[0] != 'ok':
        impl['error'] = 'get_datatype:' + (rb[1] or 'bad')
        return dt, None, impl
    dt2 = rb[1]
    impl['built'] = True
    try:
        impl['tree2'] = dicodec.dt_to_di(dt2)
        impl['classes'] = dicodec.skeleton(impl['tree2'])
    except Exception as e:
        impl['error'] = 'tree2:' + type(e).__name__
    ex2 = _outcome(dt2.export_datatype)
    if ex2[0] == 'ok':
        impl['datainfo2'] = datainfo_json(ex2[1])
    for p in case['probes']:
        impl['probes'].append({'o': run_probe(dt, p), 'd': run_probe(dt2, p)})
    return dt, dt2, impl


def canon_model_json(j):
    return dtcodec.canon(j) if j is not None else None


# ---------------------------------------------------------------------------------------------
# copy: sharing partition and mutation
# ---------------------------------------------------------------------------------------------
def walk(dt, acc=None):
    """{id: kind} of the mutable objects a datatype consists of"""
    from frappy.datatypes import ArrayOf, EnumType, StructOf, TupleOf, DataType
    acc = {} if acc is None else acc
    if id(dt) in acc:
        return acc
    acc[id(dt)] = 'datatype:' + type(dt).__name__
    pv = getattr(dt, 'propertyValues', None)
    if isinstance(pv, dict):
        acc[id(pv)] = 'propertyValues'
    if isinstance(dt, EnumType):
        acc[id(dt._enum)] = 'Enum'
        for m in dt._enum.members:
            acc[id(m)] = 'EnumMember'
    elif isinstance(dt, ArrayOf):
        walk(dt.members, acc)
    elif isinstance(dt, TupleOf):
        for m in dt.members:
            walk(m, acc)
    elif isinstance(dt, StructOf):
        acc[id(dt.members)] = 'members'
        acc[id(dt.optional)] = 'optional'
        for m in dt.members.values():
            if isinstance(m, DataType):
                walk(m, acc)
    return acc


def mutate(dt):
    """change every mutable object of a datatype (the copy): properties, enum name and members, member dicts, optional"""
    from frappy.datatypes import ArrayOf, BLOBType, EnumType, FloatRange, IntRange, ScaledInteger, StringType, StructOf, \
        TupleOf, BoolType
    if isinstance(dt, FloatRange):
        dt.set_properties(min=12345.0, max=12345.5, unit='mutated', fmtstr='%.9f', absolute_resolution=7.0,
                          relative_resolution=0.25)
    elif isinstance(dt, IntRange):
        dt.set_properties(min=12345, max=12346)
    elif isinstance(dt, ScaledInteger):
        dt.set_properties(min=0.0, max=0.0, unit='mutated', fmtstr='%.9f', relative_resolution=0.25)
    elif isinstance(dt, StringType):
        dt.set_properties(minchars=0, maxchars=0, isUTF8=not dt.isUTF8)
        dt.set_properties(minchars=0, maxchars=1)
    elif isinstance(dt, BLOBType):
        dt.set_properties(minbytes=0, maxbytes=0)
        dt.set_properties(maxbytes=1)
    elif isinstance(dt, EnumType):
        dt.set_name('mutated')
        # brute force: what a shared Enum / EnumMember would suffer
        e = dt._enum
        dict.clear(e)
        object.__setattr__(e, 'members', ())
    elif isinstance(dt, ArrayOf):
        mutate(dt.members)
        dt.set_properties(minlen=0, maxlen=0)
    elif isinstance(dt, TupleOf):
        for m in dt.members:
            mutate(m)
    elif isinstance(dt, StructOf):
        for m in list(dt.members.values()):
            mutate(m)
        dt.optional.clear()
        dt.members.clear()
        dt.members['mutated'] = BoolType()
    pv = getattr(dt, 'propertyValues', None)
    if isinstance(pv, dict):
        pv['mutated'] = 1


def snapshot(dt):
    """everything observable of the original: datainfo and the annotated tree (enum names, client marks)"""
    ex = _outcome(dt.export_datatype)
    try:
        tree = dicodec.dt_to_di(dt)
    except Exception as e:
        tree = 'unreadable:' + type(e).__name__
    return datainfo_json({'datainfo': ex[1] if ex[0] == 'ok' else str(ex), 'tree': json.dumps(tree, sort_keys=True)})


def eval_copy(case):
    dt = dicodec.di_to_dt(case['tree'])
    impl = {'built': False, 'datainfo': None, 'datainfo2': None, 'tree2': None, 'classes': None, 'probes': [], 'shared': [],
            'before': None, 'after': None, 'mprobes': [], 'error': None}
    ex = _outcome(dt.export_datatype)
    if ex[0] == 'ok':
        impl['datainfo'] = datainfo_json(ex[1])
    cp = _outcome(dt.copy)
    if cp[0] != 'ok':
        impl['error'] = 'copy:' + (cp[1] or 'bad')
        return impl
    c = cp[1]
    impl['built'] = True
    try:
        impl['tree2'] = dicodec.dt_to_di(c)
        impl['classes'] = dicodec.skeleton(impl['tree2'])
    except Exception as e:
        impl['error'] = 'tree2:' + type(e).__name__
    ex2 = _outcome(c.export_datatype)
    if ex2[0] == 'ok':
        impl['datainfo2'] = datainfo_json(ex2[1])
    before_out = []
    for p in case['probes']:
        o = run_probe(dt, p)
        before_out.append(o)
        impl['probes'].append({'o': o, 'd': run_probe(c, p)})
    a, b = walk(dt), walk(c)
    impl['shared'] = sorted(a[i] for i in a if i in b)
    impl['before'] = snapshot(dt)
    try:
        mutate(c)
    except Exception as e:
        impl['error'] = 'mutate:' + type(e).__name__
    impl['after'] = snapshot(dt)
    for p, o in zip(case['probes'], before_out):
        impl['mprobes'].append({'o': o, 'd': run_probe(dt, p)})
    return impl


# ---------------------------------------------------------------------------------------------
# histories on ONE datatype object: export, change (main unit, properties of any member, also through the enclosing
# arrays), export again ... then rebuild / copy; the description must be that of the datatype as it is NOW
# ---------------------------------------------------------------------------------------------
def node_at(dt, path):
    """the member object at `path` (array: 0; tuple, struct: position)"""
    from frappy.datatypes import ArrayOf, StructOf, TupleOf
    for i in path:
        if isinstance(dt, ArrayOf):
            if i != 0:
                raise IndexError(i)
            dt = dt.members
        elif isinstance(dt, TupleOf):
            dt = dt.members[i]
        elif isinstance(dt, StructOf):
            dt = list(dt.members.values())[i]
        else:
            raise IndexError(i)
    return dt


def tree_paths(tree, path=()):
    """(path, subtree) of every node of an annotated tree, with positions as path elements"""
    yield path, tree
    t = tree['t']
    if t == 'array':
        yield from tree_paths(tree['elem'], path + (0,))
    elif t == 'tuple':
        for i, e in enumerate(tree['elems']):
            yield from tree_paths(e, path + (i,))
    elif t == 'struct':
        for i, (_, m) in enumerate(tree['members']):
            yield from tree_paths(m, path + (i,))


def _propval(v):
    """a property value of a step -> the Python value"""
    return bits2f(v['f']) if isinstance(v, dict) else v


def apply_step(dt, s):
    """one step on the real object: outcome as _outcome does"""
    node = node_at(dt, s['path'])
    if s['op'] == 'export':
        return _outcome(node.export_datatype)
    if s['op'] == 'unit':
        return _outcome(lambda: node.set_main_unit(s['unit']))
    return _outcome(lambda: node.set_properties(**{k: _propval(v) for k, v in s['props']}))


def draw_change(rng, tree):
    """a change of the properties of one node of the (current) tree: [(key, value)], mostly one that checkProperties accepts"""
    cands = [(p, n) for p, n in tree_paths(tree) if n['t'] in ('double', 'int', 'scaled', 'string', 'blob', 'array')]
    if not cands:
        return None
    path, n = rng.choice(cands)
    t = n['t']
    bad = rng.random() < 0.04
    props = []

    def pv(x):
        return fj(x) if isinstance(x, float) else x
    if t in ('double', 'scaled'):
        r = rng.random()
        lo, hi = _f(n['min']), _f(n['max'])
        if r < 0.45:
            if t == 'double':
                pts = sorted(rng.sample([-1e9, -100.0, -2.5, 0.0, 1.0, 5.0, 10.0, 1e3, 7.25e6], 2))
            else:
                sc = _f(n['scale'])
                k1, k2 = sorted((draw_index(rng, sc) or 0, draw_index(rng, sc) or 0))
                pts = [k1 * sc, k2 * sc]
            if bad and pts[0] != pts[1]:
                pts = pts[::-1]
            if t == 'double' and rng.random() < 0.3:
                # a float property takes integers as well (FloatRange.validate: value += 0.0)
                pts = [int(x) if float(x).is_integer() and abs(x) < 2 ** 53 else x for x in pts]
            which = rng.random()
            if rng.random() < 0.03:
                props = [[rng.choice(['min', 'max']), '5']]          # a string is refused
            elif which < 0.4 and pts[0] <= hi:
                props = [['min', pv(pts[0])]]
            elif which < 0.8 and lo <= pts[1]:
                props = [['max', pv(pts[1])]]
            else:
                props = [['min', pv(pts[0])], ['max', pv(pts[1])]]
                if rng.random() < 0.5:
                    props.reverse()
        elif r < 0.75:
            props = [['unit', rng.choice(['$', '$/min', 'K', '', 'm/$', '$$'])]]
        elif r < 0.87:
            props = [['fmtstr', rng.choice(['%g', '%.2f', '%.4e', '%d' if not bad else 'nopercent'])]]
        else:
            props = [[rng.choice(['absolute_resolution', 'relative_resolution']), fj(rng.choice([0.0, 0.5, 0.001, 0.25]))]]
    elif t == 'int':
        a, b = sorted(rng.sample([-1000, -3, 0, 1, 2, 7, 100, 65536], 2))
        if bad:
            a, b = b, a
        props = rng.choice([[['min', a], ['max', b]], [['max', b], ['min', a]]])
        if rng.random() < 0.5:
            props = [x for x in props if (x[0] == 'min' and x[1] <= n['max']) or (x[0] == 'max' and x[1] >= n['min'])][:1] or props
    elif t in ('string', 'blob', 'array'):
        names = {'string': ('minchars', 'maxchars'), 'blob': ('minbytes', 'maxbytes'), 'array': ('minlen', 'maxlen')}[t]
        a, b = sorted(rng.sample([0, 1, 2, 3, 5, 8, 64], 2))
        if bad:
            a, b = b, a
        r = rng.random()
        if r < 0.35 and a <= n['max']:
            props = [[names[0], a]]
        elif r < 0.7 and b >= n['min']:
            props = [[names[1], b]]
        else:
            props = [[names[0], a], [names[1], b]]
        if t == 'string' and rng.random() < 0.25:
            props.append(['isUTF8', not n['utf8']])
    # the call may be made on an enclosing array: ArrayOf.setProperty hands the keys it does not know to its members
    if t != 'array':
        up = 0
        nodes_ = dict(tree_paths(tree))
        while len(path) > up and nodes_[path[:len(path) - up - 1]]['t'] == 'array' and rng.random() < 0.6:
            up += 1
        path = path[:len(path) - up]
    return {'op': 'set', 'path': list(path), 'props': props}


def gen_history(rng, maxdepth):
    """a tree, steps drawn against the state of a real object after the steps before, the way the end is looked at, and
    probes from the catalogues of the tree at the END"""
    tree0 = fix_scaled(rng, gen.gen_tree(rng, maxdepth, rng.choice(['array', 'array', 'tuple', 'struct', 'double', 'scaled', None, None])))
    tree0 = dicodec.annotate(rng, permute_optional(rng, tree0), UNITS + ['$', '$/min'], FMTS)
    dt = dicodec.di_to_dt(tree0)
    tree = dicodec.dt_to_di(dt)
    steps = []
    cur = tree
    exported = False
    for i in range(rng.choice([1, 1, 2, 3])):
        if rng.random() < (0.8 if i == 0 else 0.4):
            paths = [p for p, _ in tree_paths(cur)]
            steps.append({'op': 'export', 'path': list(rng.choice(paths)) if rng.random() < 0.3 else []})
            apply_step(dt, steps[-1])
            exported = True
        has_dollar = any('$' in n.get('unit', '') for _, n in tree_paths(cur))
        if rng.random() < (0.5 if has_dollar else 0.05):
            paths = [p for p, n in tree_paths(cur) if n['t'] in ('array', 'tuple', 'struct')]
            s = {'op': 'unit', 'path': list(rng.choice(paths)) if paths and rng.random() < 0.3 else [], 'unit': rng.choice(['K', 'mbar', 'm', 'µm'])}
        else:
            s = draw_change(rng, cur)
            if s is None:
                break
        steps.append(s)
        if apply_step(dt, s)[0] != 'ok':
            break               # the object is left half changed: the history ends with the refusal
        cur = dicodec.dt_to_di(dt)
    probes = gen_probes(rng, dicodec.erase(cur), 4)
    final = rng.choice(['rebuild', 'copy'])
    if final == 'copy':
        probes = probes + [dict(p, mode='call', prev=None) for p in probes if p['mode'] == 'py'][:4]
    return {'k': 'history', 'tree': tree, 'steps': steps, 'final': final, 'probes': probes, 'exported-before': exported}


def eval_history(case):
    """the steps on ONE real object; then: the state read off the object, its datainfo, the datainfo of a twin built by the
    constructors from that state, and the rebuild / copy with the probes through both"""
    from frappy.datatypes import get_datatype
    dt = dicodec.di_to_dt(case['tree'])
    impl = {'built': False, 'datainfo': None, 'datainfo2': None, 'tree': None, 'tree2': None, 'probes': [], 'exports': [],
            'twin': None, 'error': None}
    for i, s in enumerate(case['steps']):
        out = apply_step(dt, s)
        if s['op'] == 'export':
            impl['exports'].append(datainfo_json(out[1]) if out[0] == 'ok' else 'bad' if out[0] == 'bad' else {'other': out[1]})
        elif out[0] != 'ok':
            impl['refused'] = 'bad' if out[0] == 'bad' else str(out[1])
            impl['refused-at'] = i
            return impl
    try:
        impl['tree'] = dicodec.dt_to_di(dt)
    except Exception as e:
        impl['error'] = 'tree:' + type(e).__name__
        return impl
    ex = _outcome(dt.export_datatype)
    if ex[0] != 'ok':
        impl['error'] = 'export:' + str(ex[1])
        return impl
    impl['datainfo'] = datainfo_json(ex[1])
    try:
        twin = dicodec.di_to_dt(impl['tree'])
        if tree_eq(dicodec.dt_to_di(twin), impl['tree']):
            impl['twin'] = datainfo_json(twin.export_datatype())
    except Exception:
        pass
    d2 = _outcome(dt.copy) if case['final'] == 'copy' else _outcome(lambda: get_datatype(jround(ex[1])))
    if d2[0] != 'ok':
        impl['error'] = case['final'] + ':' + (d2[1] or 'bad')
        return impl
    dt2 = d2[1]
    impl['built'] = True
    try:
        impl['tree2'] = dicodec.dt_to_di(dt2)
    except Exception as e:
        impl['error'] = 'tree2:' + type(e).__name__
    ex2 = _outcome(dt2.export_datatype)
    if ex2[0] == 'ok':
        impl['datainfo2'] = datainfo_json(ex2[1])
    for p in case['probes']:
        impl['probes'].append({'o': run_probe(dt, p), 'd': run_probe(dt2, p)})
    return impl


def node_kind_at(tree, path):
    return dict((tuple(p), n) for p, n in tree_paths(tree)).get(tuple(path), {}).get('t')


def show_step(s):
    where = ''.join(f'[{i}]' for i in s['path'])
    if s['op'] == 'export':
        return f'dt{where}.export_datatype()'
    if s['op'] == 'unit':
        return f"dt{where}.set_main_unit({s['unit']!r})"
    return f'dt{where}.set_properties(%s)' % ', '.join(f'{k}={_propval(v)!r}' for k, v in s['props'])


# ---------------------------------------------------------------------------------------------
# malformed datainfo (correspondence of get_datatype only)
# ---------------------------------------------------------------------------------------------
def nodes(d, path=()):
    """paths of the datainfo objects inside a datainfo"""
    if isinstance(d, dict) and 'type' in d:
        yield path
        t = d['type']
        m = d.get('members')
        if t == 'array' and isinstance(m, dict):
            yield from nodes(m, path + ('members',))
        elif t == 'tuple' and isinstance(m, list):
            for i, x in enumerate(m):
                yield from nodes(x, path + ('members', i))
        elif t == 'struct' and isinstance(m, dict):
            for k, x in m.items():
                yield from nodes(x, path + ('members', k))


def at(d, path):
    for h in path:
        d = d[h]
    return d


def mutate_datainfo(rng, d):
    """one of: unknown key added, key dropped, value null, value of another kind"""
    d = json.loads(json.dumps(d))
    path = rng.choice(list(nodes(d)))
    node = at(d, path)
    keys = [k for k in node if k != 'type']
    r = rng.random()
    what = 'unknown-key'
    if r < 0.35 or not keys:
        node[rng.choice(['_custom', 'description', 'zz', 'Min', 'unit2'])] = rng.choice([1, 'x', None, [1], {'a': 1}, 2.5])
    elif r < 0.55:
        del node[rng.choice(keys)]
        what = 'key-dropped'
    elif r < 0.7:
        node[rng.choice(keys)] = None
        what = 'null'
    else:
        k = rng.choice(keys)
        if k in ('members', 'optional', 'scale'):
            node['_x'] = 0
        elif node['type'] == 'scaled' and k in ('min', 'max'):
            node[k] = rng.choice([True, 3, -2, 0])
        elif k in ('unit', 'fmtstr'):
            node[k] = rng.choice(['%d', 'abc', 'ü', 5, True, '%', ''])
        elif k == 'isUTF8':
            node[k] = rng.choice([0, 1, 2, 1.0, 'yes'])
        else:
            node[k] = rng.choice([True, 3, 2.5, -1, 0, 2.0, 'x', [], {}, 2 ** 70, 1e300])
        what = 'kind'
    return d, what


def eval_get(d):
    from frappy.datatypes import get_datatype
    out = _outcome(lambda: get_datatype(jround(d)))
    if out[0] == 'ok':
        try:
            return dicodec.dt_to_di(out[1])
        except Exception as e:
            return {'other': 'unreadable:' + type(e).__name__}
    return 'bad' if out[0] == 'bad' else {'other': out[1]}


# ---------------------------------------------------------------------------------------------
# pairs
# ---------------------------------------------------------------------------------------------
def _f(j):
    return bits2f(j['f'])


def derive(rng, a, mode):
    """a second plain tree related to `a`: mode in wider / equal / narrower / shifted / cross"""
    t = a['t']
    cross = mode == 'cross'
    if t == 'double':
        lo, hi = _f(a['min']), _f(a['max'])
        if cross:
            return rng.choice([lambda: gen.gen_leaf(rng, 'int'), lambda: aligned_scaled(rng), lambda: gen.gen_leaf(rng, 'string')])()
        lo2, hi2 = _limits(rng, lo, hi, mode, [x for x in gen.FLOAT_CAT], -FMAX, FMAX)
        b = dict(a, min=fj(lo2), max=fj(hi2), ar=fj(rng.choice([_f(a['ar']), 0.0, 0.5])),
                 rr=fj(rng.choice([_f(a['rr']), 1.2e-7, 0.0, 0.01, 0.01, 1.0, 2.0])))
        if rng.random() < 0.2:
            scale = rng.choice([0.5, 0.25, 1.0, 0.1])
            if abs(lo2) < 1e9 and abs(hi2) < 1e9:
                klo, khi = int(lo2 // scale), int(-(-hi2 // scale))
                b = {'t': 'scaled', 'scale': fj(scale), 'min': fj(klo * scale), 'max': fj(khi * scale), 'ar': fj(scale),
                     'rr': fj(1.2e-7)}
        return b
    if t == 'int':
        lo, hi = a['min'], a['max']
        if cross:
            r = rng.random()
            if r < 0.3 and hi - lo <= 6:
                vals = list(range(lo, hi + 1))
                q = rng.random()
                if q < 0.3 and len(vals) > 2:
                    vals.remove(rng.choice(vals[1:-1]))          # a hole strictly inside, both limits members
                elif q < 0.5 and vals:
                    vals.remove(rng.choice(vals))
                vals += rng.sample([v for v in gen.ENUM_VALUES if v not in range(lo, hi + 1)], rng.choice([0, 1]))
                vals = sorted(set(vals)) or [0]
                names = rng.sample(gen.ENUM_NAMES, len(vals)) if len(vals) <= len(gen.ENUM_NAMES) else None
                if names:
                    return {'t': 'enum', 'members': [[n, v] for n, v in zip(names, vals)]}
            if r < 0.45:
                return {'t': 'bool'}
            if r < 0.55:
                return gen.gen_leaf(rng, 'enum')
            if r < 0.7:
                return gen.gen_leaf(rng, 'string')
            if abs(lo) <= 2 ** 53 and abs(hi) <= 2 ** 53:
                lo2, hi2 = _limits(rng, float(lo), float(hi), rng.choice(['wider', 'equal', 'narrower', 'shifted']),
                                   gen.FLOAT_CAT, -FMAX, FMAX)
                if rng.random() < 0.6:
                    return {'t': 'double', 'min': fj(lo2), 'max': fj(hi2), 'ar': fj(rng.choice([0.0, 0.5])),
                            'rr': fj(rng.choice([1.2e-7, 0.0, 0.01]))}
                scale = rng.choice([0.5, 0.25, 1.0, 0.1])
                if abs(lo2) < 1e9 and abs(hi2) < 1e9:
                    klo, khi = int(lo2 // scale), int(-(-hi2 // scale))
                    return {'t': 'scaled', 'scale': fj(scale), 'min': fj(klo * scale), 'max': fj(khi * scale), 'ar': fj(scale),
                            'rr': fj(1.2e-7)}
            return gen.gen_leaf(rng, 'double')
        lo2, hi2 = _limits(rng, lo, hi, mode, gen.INT_CAT, -2 ** 64, 2 ** 64)
        return {'t': 'int', 'min': int(lo2), 'max': int(hi2)}
    if t == 'scaled':
        lo, hi, s = _f(a['min']), _f(a['max']), _f(a['scale'])
        if cross:
            r = rng.random()
            if r < 0.6:
                lo2, hi2 = _limits(rng, lo, hi, rng.choice(['wider', 'equal', 'narrower']), gen.FLOAT_CAT, -FMAX, FMAX)
                return {'t': 'double', 'min': fj(lo2), 'max': fj(hi2), 'ar': fj(rng.choice([0.0, 0.5])),
                        'rr': fj(rng.choice([1.2e-7, 0.0]))}
            if r < 0.8:
                return aligned_scaled(rng)
            return gen.gen_leaf(rng, 'int')
        klo, khi = int(round(lo / s)), int(round(hi / s))
        klo2, khi2 = _limits(rng, klo, khi, mode, [0, 1, -1, 5, -5, 10, 100, -100, 1000, 2 ** 24, -2 ** 24], -2 ** 31, 2 ** 31)
        return dict(a, min=fj(int(klo2) * s), max=fj(int(khi2) * s))
    if t == 'bool':
        if cross:
            return rng.choice([{'t': 'int', 'min': 0, 'max': 1}, {'t': 'int', 'min': 1, 'max': 5}, {'t': 'int', 'min': -3, 'max': 7},
                               {'t': 'enum', 'members': [['off', 0], ['on', 1]]}, {'t': 'enum', 'members': [['on', 1], ['x', 2]]},
                               {'t': 'double', 'min': fj(0.0), 'max': fj(1.0), 'ar': fj(0.0), 'rr': fj(1.2e-7)},
                               {'t': 'double', 'min': fj(0.5), 'max': fj(6.0), 'ar': fj(0.0), 'rr': fj(1.2e-7)},
                               {'t': 'string', 'min': 0, 'max': 5, 'utf8': False},
                               {'t': 'scaled', 'scale': fj(0.5), 'min': fj(0.0), 'max': fj(1.0), 'ar': fj(0.5), 'rr': fj(1.2e-7)}])
        return {'t': 'bool'}
    if t == 'enum':
        ms = [list(m) for m in a['members']]
        if cross:
            vals = [v for _, v in ms]
            return rng.choice([{'t': 'bool'}, {'t': 'int', 'min': min(vals), 'max': max(vals)},
                               {'t': 'double', 'min': fj(-1e9), 'max': fj(1e9), 'ar': fj(0.0), 'rr': fj(0.0)},
                               gen.gen_leaf(rng, 'string')])
        if mode == 'wider':
            free_n = [n for n in gen.ENUM_NAMES if n not in [m[0] for m in ms]]
            free_v = [v for v in gen.ENUM_VALUES + [7, 8, 9] if v not in [m[1] for m in ms]]
            if free_n and free_v:
                ms.append([rng.choice(free_n), rng.choice(free_v)])
        elif mode == 'narrower' and len(ms) > 1:
            ms.remove(rng.choice(ms))
        elif mode == 'shifted':
            m = rng.choice(ms)
            free_v = [v for v in gen.ENUM_VALUES + [7, 8, 9] if v not in [x[1] for x in ms]]
            if rng.random() < 0.5 and free_v:
                m[1] = rng.choice(free_v)
            else:
                free_n = [n for n in gen.ENUM_NAMES if n not in [x[0] for x in ms]]
                if free_n:
                    m[0] = rng.choice(free_n)
        return {'t': 'enum', 'members': sorted(ms, key=lambda m: m[1])}
    if t in ('string', 'blob'):
        if cross:
            return gen.gen_leaf(rng, 'blob' if t == 'string' else 'string')
        cap = gen.UNLIMITED if t == 'string' else 2 ** 24
        lo2, hi2 = _limits(rng, a['min'], a['max'], mode, [0, 1, 2, 3, 5, 10, 255, 300], 0, cap)
        b = dict(a, min=int(lo2), max=int(hi2))
        if t == 'string' and rng.random() < 0.4:
            b['utf8'] = not a['utf8']
        return b
    if t == 'array':
        if cross:
            return rng.choice([{'t': 'tuple', 'elems': [a['elem']]}, gen.gen_leaf(rng, 'blob'),
                               {'t': 'struct', 'members': [['members', a['elem']]], 'optional': [], 'client': False}])
        lo2, hi2 = _limits(rng, a['min'], a['max'], mode, [0, 1, 2, 3, 5, 100], 0, 2 ** 24)
        return {'t': 'array', 'elem': derive_c(rng, a['elem'], rng.choice([mode, 'equal', 'wider'])), 'min': int(lo2), 'max': int(hi2)}
    if t == 'tuple':
        if cross:
            return rng.choice([{'t': 'array', 'elem': a['elems'][0], 'min': 0, 'max': 5},
                               {'t': 'tuple', 'elems': a['elems'] + [a['elems'][-1]]},
                               {'t': 'tuple', 'elems': a['elems'][:-1] or [{'t': 'bool'}]}])
        k = rng.randrange(len(a['elems']))
        return {'t': 'tuple', 'elems': [derive_c(rng, e, mode if i == k else rng.choice(['equal', 'wider']))
                                        for i, e in enumerate(a['elems'])]}
    if t == 'struct':
        if cross:
            return rng.choice([{'t': 'tuple', 'elems': [m for _, m in a['members']]},
                               {'t': 'array', 'elem': a['members'][0][1], 'min': 0, 'max': 5}, gen.gen_leaf(rng, 'int')])
        ms = a['members']
        k = rng.randrange(len(ms))
        members = [[n, derive_c(rng, m, mode if i == k else rng.choice(['equal', 'wider']))] for i, (n, m) in enumerate(ms)]
        names = [n for n, _ in members]
        r = rng.random()
        if r < 0.25:
            optional = list(a['optional'])
        elif r < 0.5:
            optional = list(names)
        elif r < 0.7:
            optional = []
        else:
            optional = [n for n in names if rng.random() < 0.5]
        r = rng.random()
        if r < 0.2:
            free = [n for n in gen.NAMES + ['q'] if n not in names]
            if free:
                n = rng.choice(free)
                members.append([n, gen.gen_leaf(rng, rng.choice(gen.LEAF_KINDS))])
                if rng.random() < 0.6:
                    optional.append(n)
        elif r < 0.3 and len(members) > 1:
            gone = members.pop(rng.randrange(len(members)))
            optional = [n for n in optional if n != gone[0]]
        if rng.random() < 0.2:
            rng.shuffle(members)
        return {'t': 'struct', 'members': members, 'optional': optional, 'client': rng.random() < 0.2}
    raise ValueError(t)


def _limits(rng, lo, hi, mode, cat, cmin, cmax):
    below = sorted([c for c in cat if cmin <= c < lo]) or [lo]
    above = sorted([c for c in cat if hi < c <= cmax]) or [hi]
    inside = sorted([c for c in cat if lo <= c <= hi]) or [lo]
    if mode == 'equal':
        return lo, hi
    if mode == 'wider':
        return rng.choice([lo, below[-1], rng.choice(below), cmin]), rng.choice([hi, above[0], rng.choice(above), cmax])
    if mode == 'narrower':
        a, b = sorted([rng.choice(inside), rng.choice(inside)])
        r = rng.random()
        return (a, hi) if r < 0.3 else (lo, b) if r < 0.6 else (a, b)
    # shifted: overlapping or disjoint
    r = rng.random()
    if r < 0.5:
        return rng.choice(inside), rng.choice(above)
    if r < 0.75:
        return rng.choice(below), rng.choice(inside)
    a, b = sorted([rng.choice(above), rng.choice(above)])
    return a, b


# ---------------------------------------------------------------------------------------------
# derived classes (TextType, LimitsType, StatusType): trees with class marks
# ---------------------------------------------------------------------------------------------
NUMERIC = ('double', 'int', 'scaled')
STATUS_TEXT = {'t': 'string', 'min': 0, 'max': gen.UNLIMITED, 'utf8': False}


def limits_of(m):
    return {'t': 'tuple', 'cls': 'limits', 'elems': [m, m]}


def status_of(enum):
    return {'t': 'tuple', 'cls': 'status', 'elems': [{'t': 'enum', 'members': enum['members']}, dict(STATUS_TEXT)]}


def text_of(maxchars):
    return {'t': 'string', 'cls': 'text', 'min': 0, 'max': maxchars, 'utf8': False}


def tag_top(rng, b, p):
    """a plain node whose shape is the one of a derived class becomes an instance of that class with probability p"""
    if b.get('cls'):
        return b
    t = b['t']
    if t == 'string' and b['min'] == 0 and not b['utf8'] and rng.random() < p:
        return dict(b, cls='text')
    if t == 'tuple' and len(b['elems']) == 2 and rng.random() < p:
        x, y = b['elems']
        if x == y and x['t'] in NUMERIC and not x.get('cls'):
            return dict(b, cls='limits')
        if x['t'] == 'enum' and y == STATUS_TEXT:
            return dict(b, cls='status')
    return b


def plant_variants(rng, tree, p):
    """a plain tree with derived classes planted: number leaves become LimitsType of that leaf, enums a StatusType, strings a
    TextType (each with probability p), at any depth"""
    t = tree['t']
    if t in NUMERIC and rng.random() < p:
        return limits_of(tree)
    if t == 'enum' and rng.random() < p:
        return status_of(tree)
    if t == 'string' and rng.random() < p:
        return text_of(tree['max'])
    if t == 'array':
        return dict(tree, elem=plant_variants(rng, tree['elem'], p))
    if t == 'tuple':
        return tag_top(rng, dict(tree, elems=[plant_variants(rng, e, p) for e in tree['elems']]), p)
    if t == 'struct':
        return dict(tree, members=[[k, plant_variants(rng, m, p)] for k, m in tree['members']])
    return tree


def derive_c(rng, a, mode):
    """`derive` for trees with class marks: the second tree is derived from the kind tree, and wherever a node of it has the shape
    of a derived class it is an instance of that class or of the plain class (both sides independently)"""
    cls = a.get('cls')
    if mode == 'cross' or not cls:
        return tag_top(rng, derive(rng, {k: v for k, v in a.items() if k != 'cls'}, mode), 0.4 if cls else 0.1)
    if cls == 'limits':
        m2 = derive(rng, a['elems'][0], mode)
        r = rng.random()
        if r < 0.4 and m2['t'] in NUMERIC:
            return limits_of(m2)
        if r < 0.8:
            return {'t': 'tuple', 'elems': [m2, m2]}
        return {'t': 'tuple', 'elems': [m2, derive(rng, a['elems'][0], rng.choice(['equal', 'wider']))]}
    if cls == 'status':
        e2 = derive(rng, a['elems'][0], mode)
        if e2['t'] != 'enum':
            return e2
        r = rng.random()
        if r < 0.45:
            return status_of(e2)
        txt = dict(STATUS_TEXT) if r < 0.85 else rng.choice([text_of(gen.UNLIMITED), {'t': 'string', 'min': 0, 'max': 5, 'utf8': False},
                                                               {'t': 'string', 'min': 0, 'max': gen.UNLIMITED, 'utf8': True}])
        return {'t': 'tuple', 'elems': [e2, txt]}
    # text
    return tag_top(rng, derive(rng, {k: v for k, v in a.items() if k != 'cls'}, mode), 0.5)


def order_limits(tree, v):
    """a value of the kind tree made a value of the tree: the pair held at every LimitsType put in order"""
    t = tree['t']
    try:
        if t == 'array':
            return type(v)(order_limits(tree['elem'], x) for x in v)
        if t == 'tuple':
            items = [order_limits(e, x) for e, x in zip(tree['elems'], v)]
            if tree.get('cls') == 'limits':
                items = sorted(items)
            return type(v)(items)
        if t == 'struct':
            ms = dict((k, m) for k, m in tree['members'])
            return {k: order_limits(ms[k], x) if k in ms else x for k, x in v.items()}
    except TypeError:
        pass
    return v


def variant_pairs():
    """systematic configuration class: every derived class against the plain class it is described as and against itself — equal,
    the second wider, the second narrower, both directions — each also inside an array, a tuple and a struct"""
    def dbl(lo, hi):
        return {'t': 'double', 'min': fj(lo), 'max': fj(hi), 'ar': fj(0.0), 'rr': fj(1.2e-7)}

    def integer(lo, hi):
        return {'t': 'int', 'min': lo, 'max': hi}

    def scaled(klo, khi):
        return {'t': 'scaled', 'scale': fj(0.5), 'min': fj(klo * 0.5), 'max': fj(khi * 0.5), 'ar': fj(0.5), 'rr': fj(1.2e-7)}

    def enum(*ms):
        return {'t': 'enum', 'members': [list(m) for m in ms]}

    def string(n, utf8=False):
        return {'t': 'string', 'min': 0, 'max': n, 'utf8': utf8}

    def plain2(x, y=None):
        return {'t': 'tuple', 'elems': [x, x if y is None else y]}
    pairs = []
    # LimitsType
    for m, wide, narrow in ((integer(0, 10), integer(-5, 20), integer(0, 5)), (dbl(0.0, 10.0), dbl(-5.0, 20.0), dbl(0.0, 5.0)),
                            (scaled(0, 20), scaled(-10, 40), scaled(0, 10)), (integer(0, 10), dbl(0.0, 10.0), dbl(1.0, 10.0))):
        for x in (m, wide, narrow):
            pairs += [(limits_of(m), limits_of(x)), (limits_of(m), plain2(x)), (plain2(m), limits_of(x)), (plain2(m), plain2(x))]
        pairs += [(limits_of(m), plain2(m, wide)), (limits_of(m), plain2(narrow, m)), (limits_of(m), {'t': 'tuple', 'elems': [m]}),
                  (limits_of(m), {'t': 'tuple', 'elems': [m, m, m]}), ({'t': 'tuple', 'elems': [m, m, m]}, limits_of(m)),
                  (limits_of(m), {'t': 'array', 'elem': m, 'min': 2, 'max': 2}), ({'t': 'array', 'elem': m, 'min': 2, 'max': 2}, limits_of(m)),
                  (limits_of(m), {'t': 'struct', 'members': [['min', m], ['max', m]], 'optional': [], 'client': False}), (limits_of(m), m)]
    # StatusType
    idle, busy, err = ['IDLE', 100], ['BUSY', 300], ['ERROR', 400]
    for ms, more, fewer in (([idle, busy], [idle, busy, err], [idle]), ([['a', 1], ['x y', 2]], [['a', 1], ['x y', 2], ['b', 3]], [['x y', 2]])):
        for x in (ms, more, fewer):
            pairs += [(status_of(enum(*ms)), status_of(enum(*x))), (status_of(enum(*ms)), plain2(enum(*x), dict(STATUS_TEXT))),
                      (plain2(enum(*ms), dict(STATUS_TEXT)), status_of(enum(*x)))]
        pairs += [(status_of(enum(*ms)), plain2(enum(*ms), string(5))), (status_of(enum(*ms)), plain2(enum(*ms), string(gen.UNLIMITED, True))),
                  (status_of(enum(*ms)), plain2(enum(*ms), text_of(gen.UNLIMITED))), (plain2(enum(*ms), string(5)), status_of(enum(*ms))),
                  (plain2(enum(*ms), string(5, True)), status_of(enum(*ms))), (status_of(enum(*ms)), {'t': 'tuple', 'elems': [enum(*ms)]}),
                  (status_of(enum(*ms)), {'t': 'array', 'elem': dict(STATUS_TEXT), 'min': 2, 'max': 2}),
                  (status_of(enum(*ms)), plain2(integer(0, 500), dict(STATUS_TEXT))), (plain2(integer(100, 100), dict(STATUS_TEXT)), status_of(enum(*ms)))]
    # TextType
    for n, more, fewer in ((5, 7, 3), (gen.UNLIMITED, gen.UNLIMITED, 255), (0, 1, 0)):
        for x in (n, more, fewer):
            pairs += [(text_of(n), text_of(x)), (text_of(n), string(x)), (string(n), text_of(x)), (text_of(n), string(x, True)),
                      (string(n, True), text_of(x))]
        pairs += [(text_of(n), {'t': 'blob', 'min': 0, 'max': 255}), ({'t': 'blob', 'min': 0, 'max': 0}, text_of(n)),
                  (text_of(n), {'t': 'string', 'min': 1, 'max': gen.UNLIMITED, 'utf8': False})]
    nested = []
    for i, (a, b) in enumerate(pairs):
        k = i % 4
        if k == 1:
            nested.append(({'t': 'array', 'elem': a, 'min': 0, 'max': 3}, {'t': 'array', 'elem': b, 'min': 0, 'max': 3}))
        elif k == 2:
            nested.append(({'t': 'tuple', 'elems': [{'t': 'bool'}, a]}, {'t': 'tuple', 'elems': [{'t': 'bool'}, b]}))
        elif k == 3:
            nested.append(({'t': 'struct', 'members': [['a', a]], 'optional': [], 'client': False},
                           {'t': 'struct', 'members': [['a', b], ['q', {'t': 'bool'}]], 'optional': ['q'], 'client': False}))
    return pairs + nested


def boundary_witnesses(a):
    """values of the first value set from its limits: at every node the extreme members, for a pair of numbers (max, min) as well
    as (min, max) — a plain tuple holds both, a LimitsType only the ordered one"""
    t = a['t']
    if t == 'int':
        return [a['min'], a['max']]
    if t in ('double', 'scaled'):
        return [_f(a['min']), _f(a['max'])]
    if t == 'tuple':
        per = [boundary_witnesses(e) for e in a['elems']]
        if all(per):
            out = [tuple(p[0] for p in per), tuple(p[-1] for p in per)]
            if len(per) == 2:
                out += [(per[0][-1], per[1][0]), (per[0][0], per[1][-1])]
            return [order_limits(a, v) for v in out] if a.get('cls') == 'limits' else out
        return []
    if t == 'array' and a['max'] >= 1:
        n = max(a['min'], 1)
        return [(v,) * n for v in boundary_witnesses(a['elem'])] if n <= 4 else []
    if t == 'struct':
        per = [(k, boundary_witnesses(m)) for k, m in a['members']]
        if all(p for _, p in per):
            return [{k: p[0] for k, p in per}, {k: p[-1] for k, p in per}]
    return []


def gen_pair(rng, maxdepth):
    r = rng.random()
    kind = rng.choice(gen.LEAF_KINDS + gen.CONTAINER_KINDS) if r < 0.8 else None
    a = fix_scaled(rng, gen.gen_tree(rng, maxdepth if kind in gen.CONTAINER_KINDS or kind is None else 1, kind))
    variants = rng.random() < 0.3
    if variants:
        # derived classes (TextType, LimitsType, StatusType) on either side, at any depth
        a = plant_variants(rng, a, 0.6)
    r = rng.random()
    if r < 0.12:
        b = fix_scaled(rng, gen.gen_tree(rng, maxdepth))
        if variants:
            b = plant_variants(rng, b, 0.5)
        mode = 'random'
    else:
        mode = rng.choice(['wider', 'wider', 'equal', 'narrower', 'shifted', 'cross', 'cross'])
        b = derive_c(rng, a, mode)
    return a, b, mode


def int_enum_pairs():
    """systematic configuration class: integer ranges against enums / booleans — enum equal to the range, with a hole strictly
    inside (each position), missing exactly the lower / the upper limit, with values only outside, a superset; booleans against
    [0,1], [0,2], [-1,1], [1,1], [0,0]; each also inside an array, a tuple and a struct"""
    names = gen.ENUM_NAMES

    def enum(vals):
        vals = sorted(set(vals))
        return {'t': 'enum', 'members': [[names[i % len(names)] + ('' if i < len(names) else str(i)), v] for i, v in enumerate(vals)]}
    pairs = []
    for lo in (-1, 0, 1, 5):
        for width in (0, 1, 2, 3, 4):
            hi = lo + width
            a = {'t': 'int', 'min': lo, 'max': hi}
            rng_vals = list(range(lo, hi + 1))
            configs = [rng_vals, rng_vals + [hi + 1], [lo - 2] + rng_vals + [hi + 3], rng_vals[1:], rng_vals[:-1],
                       [lo - 2, hi + 2], [lo - 1] + rng_vals[1:], rng_vals[:-1] + [hi + 1]]
            for hole in rng_vals[1:-1]:
                configs.append([v for v in rng_vals if v != hole])
                configs.append([lo - 1] + [v for v in rng_vals if v != hole] + [hi + 1])
            for vals in configs:
                if vals:
                    pairs.append((a, enum(vals)))
    for lo, hi in ((0, 1), (0, 2), (-1, 1), (1, 1), (0, 0), (1, 2), (-1, 0)):
        pairs.append(({'t': 'int', 'min': lo, 'max': hi}, {'t': 'bool'}))
    nested = []
    for i, (a, b) in enumerate(pairs):
        k = i % 4
        if k == 1:
            nested.append(({'t': 'array', 'elem': a, 'min': 0, 'max': 3}, {'t': 'array', 'elem': b, 'min': 0, 'max': 3}))
        elif k == 2:
            nested.append(({'t': 'tuple', 'elems': [{'t': 'bool'}, a]}, {'t': 'tuple', 'elems': [{'t': 'bool'}, b]}))
        elif k == 3:
            nested.append(({'t': 'struct', 'members': [['a', a]], 'optional': [], 'client': False},
                           {'t': 'struct', 'members': [['a', b]], 'optional': [], 'client': False}))
    return pairs + nested


def all_small_ints(a_plain):
    """every value of the small integer ranges inside a plain tree, as witnesses (one witness per integer at the first int leaf)"""
    t = a_plain['t']
    if t == 'int' and a_plain['max'] - a_plain['min'] <= 8:
        return list(range(a_plain['min'], a_plain['max'] + 1))
    if t == 'array' and a_plain['max'] >= 1:
        n = max(a_plain['min'], 1)
        return [(v,) * n for v in all_small_ints(a_plain['elem'])]
    if t == 'tuple' and a_plain['elems'][0]['t'] == 'bool' and len(a_plain['elems']) == 2:
        return [(False, v) for v in all_small_ints(a_plain['elems'][1])]
    if t == 'struct' and len(a_plain['members']) == 1:
        k, m = a_plain['members'][0]
        return [{k: v} for v in all_small_ints(m)]
    return []


def gen_witnesses(rng, a_plain, n):
    out = []
    for _ in range(n):
        v = gen.gen_valid(rng, a_plain)
        if v is not None:
            v = order_limits(a_plain, v)
        if v is not None and dtcodec.encodable(v):
            out.append(v)
    return out


# ---------------------------------------------------------------------------------------------
# users of compatible(): the proxy consistency check, the target-vs-value check of Writable
# ---------------------------------------------------------------------------------------------
PROXY_WARNINGS = (('does not exist', 'missing'), ('is read only', 'read-only'), ('is not fully compatible', 'not-fully'),
                  ('has an incompatible datatype', 'incompatible'))


class _Log:
    handlers = []

    def __init__(self):
        self.warnings = []

    def warning(self, fmt, *args):
        self.warnings.append((fmt, args))

    def debug(self, *args):
        pass
    info = exception = error = debug

    def getChild(self, *args, **kwds):
        return self


def gen_proxy_case(rng):
    """parameters of a proxy class with their datatypes, and the remote module: its parameters described by related datatypes
    (the very same, wider, narrower, of another kind …) which the client rebuilds from the description"""
    params = []
    for pname in rng.sample(['value', 'target', 'status', 'target_limits', 'p1', 'mode'], rng.choice([1, 2, 3])):
        a, b, mode = gen_pair(rng, 2)
        if rng.random() < 0.5:
            a = plant_variants(rng, dicodec.strip_cls(a), 0.7)
            b = derive_c(rng, a, rng.choice(['equal', 'equal', 'wider', 'narrower']))
        r = rng.random()
        remote = None if r < 0.12 else {'dt': a if r < 0.4 else b, 'readonly': rng.random() < 0.4}
        params.append({'name': pname, 'export': rng.random() < 0.85, 'readonly': rng.random() < 0.5, 'dt': a, 'remote': remote})
    commands = []
    for cname in rng.sample(['stop', 'go', 'reset'], rng.choice([0, 1, 1, 2])):
        a, b = gen_cmd_pair(rng)
        r = rng.random()
        commands.append({'name': cname, 'dt': a, 'remote': None if r < 0.15 else a if r < 0.45 else b})
    return {'k': 'proxy', 'params': params, 'commands': commands}


def eval_proxy(case):
    """the real ProxyModule._check_descriptive_data on stand-ins for the proxy module and the client; the remote datatypes are
    rebuilt from their description as SecopClient does; returns (params as built, warnings per parameter)"""
    from types import SimpleNamespace
    from frappy.datatypes import get_datatype
    from frappy.proxy import ProxyModule
    params, remote, built, undescribed = {}, {}, [], []
    for p in case['params']:
        dt = dicodec.di_to_dt(p['dt'])
        params[p['name']] = SimpleNamespace(export=p['export'], readonly=p['readonly'], datatype=dt)
        bp = dict(p, dt=dicodec.erase(dicodec.dt_to_di(dt)))
        if p['remote'] is not None:
            try:
                rdt = get_datatype(jround(dicodec.di_to_dt(p['remote']['dt']).export_datatype()), p['name'])
            except Exception as e:
                # a description the real get_datatype refuses: reported as a disagreement (the model has no such outcome)
                undescribed.append(f"{p['name']}:{type(e).__name__}")
                bp['remote'] = None
                built.append(bp)
                continue
            remote[p['name']] = {'datatype': rdt, 'readonly': p['remote']['readonly']}
            bp['remote'] = {'dt': dicodec.erase(dicodec.dt_to_di(rdt)), 'readonly': p['remote']['readonly']}
        built.append(bp)
    cmds, remotecmds, cbuilt = {}, {}, []
    for c in case.get('commands', []):
        cmds[c['name']] = SimpleNamespace(datatype=cmd_dt(c['dt']))
        bc = dict(c, dt=norm_cmd(c['dt']))
        if c['remote'] is not None:
            try:
                rdt = get_datatype(jround(cmd_dt(c['remote']).export_datatype()), c['name'])
            except Exception as e:
                undescribed.append(f"{c['name']}:{type(e).__name__}")
                bc['remote'] = None
                cbuilt.append(bc)
                continue
            remotecmds[c['name']] = {'datatype': rdt}
            bc['remote'] = {'arg': dicodec.erase(dicodec.dt_to_di(rdt.argument)) if rdt.argument is not None else None,
                            'res': dicodec.erase(dicodec.dt_to_di(rdt.result)) if rdt.result is not None else None}
        cbuilt.append(bc)
    log = _Log()
    proxy = SimpleNamespace(module='m', log=log, parameters=params, commands=cmds,
                            _secnode=SimpleNamespace(modules={'m': {'parameters': remote, 'commands': remotecmds}}))
    crashed = None
    try:
        ProxyModule._check_descriptive_data(proxy)   # pylint: disable=protected-access
    except Exception as e:
        crashed = type(e).__name__
    out = {p['name']: [] for p in case['params']}
    cout = {c['name']: [] for c in case.get('commands', [])}
    for fmt, args in log.warnings:
        if fmt.startswith('remote command'):
            cout[args[1]].append('missing' if 'does not exist' in fmt else 'not-compatible' if 'is not compatible' in fmt else 'unknown:' + fmt)
        else:
            kind = [k for text, k in PROXY_WARNINGS if text in fmt]
            out[args[1]].append(kind[0] if kind else 'unknown:' + fmt)
    order = [k for _, k in PROXY_WARNINGS]
    impl = {'params': [[p['name'], sorted(out[p['name']], key=lambda k: order.index(k) if k in order else 9)] for p in case['params']],
            'commands': [[c['name'], cout[c['name']]] for c in case.get('commands', [])]}
    if crashed:
        impl['crashed'] = crashed
    if undescribed:
        impl['remote-description-refused'] = undescribed
    # for the monitor: the complaints about the datatypes, and witnesses of both value sets through the real validate of the other side
    impl['obs'] = {}
    for p, bp in zip(case['params'], built):
        if bp['remote'] is None or p['name'] not in remote:
            continue
        own, rdt = params[p['name']].datatype, remote[p['name']]['datatype']

        def wits(values, target):
            ws = []
            for wj in values:
                v = dtcodec.json_to_py(wj)
                ws.append({'v': wj, 'acc': _outcome(lambda: target.validate(v))[0] == 'ok'})
            return ws
        bp['obs'] = {'incompatible': 'incompatible' in out[p['name']], 'notfully': 'not-fully' in out[p['name']],
                     'to_remote': wits(p.get('w_own', []), rdt), 'to_proxy': wits(p.get('w_remote', []), own)}
        impl['obs'][p['name']] = bp['obs']
    return {'params': built, 'commands': cbuilt}, impl


def eval_writable(case):
    """a Writable subclass declaring `value` and `target` with the two datatypes, instantiated"""
    from types import SimpleNamespace
    from frappy.errors import ConfigError, ProgrammingError
    from frappy.lib import generalConfig
    from frappy.modules import Writable
    from frappy.params import Parameter

    class Dispatcher:
        def announce_update(self, moduleobj, pobj):
            pass
    generalConfig.testinit(omit_unchanged_within=0)
    try:
        cls = type('W', (Writable,), {'value': Parameter('', dicodec.di_to_dt(case['value'])),
                                      'target': Parameter('', dicodec.di_to_dt(case['target']))})
    except Exception as e:
        return {'other': 'class:' + type(e).__name__}
    try:
        cls('w', _Log(), {'description': 'x'}, SimpleNamespace(dispatcher=Dispatcher(), secnode=None))
    except (ConfigError, ProgrammingError) as e:
        text = str(e)
        if 'the target range extends beyond the value range' in text:
            return 'ConfigError'
        if 'the datatypes of target and value are not compatible' in text:
            return 'ProgrammingError'
        return {'other': type(e).__name__ + ':' + text[:80]}
    except Exception as e:
        return {'other': type(e).__name__}
    return 'ok'


def gen_cmd_pair(rng):
    """two commands: argument and result of the second derived from those of the first (or dropped / added)"""
    def opt_tree():
        if rng.random() < 0.25:
            return None
        a, _, _ = gen_pair(rng, 2)
        return a
    a = {'arg': opt_tree(), 'res': opt_tree()}

    def rel(t):
        r = rng.random()
        if t is None:
            return None if r < 0.8 else opt_tree()
        if r < 0.1:
            return None
        if r < 0.35:
            return t
        return derive_c(rng, t, rng.choice(['wider', 'wider', 'equal', 'narrower', 'narrower', 'shifted', 'cross']))
    return a, {'arg': rel(a['arg']), 'res': rel(a['res'])}


def cmd_dt(c):
    from frappy.datatypes import CommandType
    return CommandType(dicodec.di_to_dt(c['arg']) if c['arg'] is not None else None,
                       dicodec.di_to_dt(c['res']) if c['res'] is not None else None)


def norm_cmd(c):
    return {k: dicodec.erase(dicodec.dt_to_di(dicodec.di_to_dt(c[k]))) if c[k] is not None else None for k in ('arg', 'res')}


def eval_cmd(case):
    a, b = cmd_dt(case['a']), cmd_dt(case['b'])
    out = _outcome(lambda: a.compatible(b))
    verdict = 'pass' if out[0] == 'ok' else 'bad' if out[0] == 'bad' else {'other': out[1]}

    def through(dt, ws):
        res = []
        for wj in ws:
            v = dtcodec.json_to_py(wj)
            res.append({'v': wj, 'acc': dt is not None and _outcome(lambda: dt.validate(v))[0] == 'ok'})
        return res
    return {'verdict': verdict, 'wa': through(b.argument, case['wa']), 'wr': through(a.result, case['wr'])}


def gen_cmdrebuild(rng):
    """a command whose argument / result are annotated trees of the ten kinds (or None), with probes for both"""
    def opt():
        if rng.random() < 0.25:
            return None, []
        tree0 = dicodec.strip_cls(gen_di(rng, rng.choice([1, 2, 2, 3])))
        tree = dicodec.dt_to_di(dicodec.di_to_dt(tree0))
        return tree, gen_probes(rng, dicodec.erase(tree), 4)
    (a, pa), (r, pr) = opt(), opt()
    return {'k': 'cmdrebuild', 'arg': a, 'res': r, 'argprobes': pa, 'resprobes': pr}


def eval_cmdrebuild(case):
    """CommandType.export_datatype -> json round trip -> get_datatype, and CommandType.copy(): datainfo again, argument / result
    of the derived command (trees, probes through the original's and the derived one's), objects shared with the original"""
    from frappy.datatypes import CommandType, get_datatype
    a = dicodec.di_to_dt(case['arg']) if case['arg'] is not None else None
    r = dicodec.di_to_dt(case['res']) if case['res'] is not None else None
    cmd = CommandType(a, r)
    ex = _outcome(cmd.export_datatype)
    impl = {}
    for name, build in (('rebuild', lambda: get_datatype(jround(ex[1]))), ('copy', cmd.copy)):
        o = {'built': False, 'datainfo': datainfo_json(ex[1]) if ex[0] == 'ok' else None, 'datainfo2': None, 'arg2': None, 'res2': None,
             'argp': None, 'resp': None, 'shared': [], 'error': None}
        impl[name] = o
        d = _outcome(build) if ex[0] == 'ok' else ('other', 'export:' + str(ex[1]))
        if d[0] != 'ok' or not isinstance(d[1], CommandType):
            o['error'] = d[1] if d[0] != 'ok' else 'not-a-command:' + type(d[1]).__name__
            if d[0] == 'bad':
                o['error'] = 'bad'
            continue
        c2 = d[1]
        o['built'] = True
        ex2 = _outcome(c2.export_datatype)
        if ex2[0] == 'ok':
            o['datainfo2'] = datainfo_json(ex2[1])
        for key, orig, der, probes in (('arg', a, c2.argument, case['argprobes']), ('res', r, c2.result, case['resprobes'])):
            if der is None:
                continue
            try:
                o[key + '2'] = dicodec.dt_to_di(der)
            except Exception as e:
                o[key + '2'] = {'other': 'unreadable:' + type(e).__name__}
            o[key + 'p'] = [{'o': run_probe(orig, p), 'd': run_probe(der, p)} for p in probes] if orig is not None else []
            if orig is not None:
                wa, wb = walk(orig), walk(der)
                o['shared'] += sorted(wa[i] for i in wa if i in wb)
        if c2 is cmd:
            o['shared'].append('datatype:CommandType')
    return impl


def show_cmd(c):
    return 'CommandType(%s, %s)' % (show(c['arg']) if c['arg'] is not None else None, show(c['res']) if c['res'] is not None else None)


def eval_compat(case):
    a = dicodec.di_to_dt(case['a'])
    b = dicodec.di_to_dt(case['b'])
    out = _outcome(lambda: a.compatible(b))
    verdict = 'pass' if out[0] == 'ok' else 'bad' if out[0] == 'bad' else {'other': out[1]}
    ws = []
    for wj in case['witnesses']:
        v = dtcodec.json_to_py(wj)
        acc = _outcome(lambda: b.validate(v))[0] == 'ok'
        ws.append({'v': wj, 'acc': acc})
    return {'verdict': verdict, 'witnesses': ws}


def sub_pairs(case):
    a, b = case['a'], case['b']
    out = []
    if a['t'] == b['t'] == 'array':
        out.append((a['elem'], b['elem']))
    elif a['t'] == b['t'] == 'tuple':
        out += list(zip(a['elems'], b['elems']))
    elif a['t'] == b['t'] == 'struct':
        mb = dict((k, m) for k, m in b['members'])
        out += [(m, mb[k]) for k, m in a['members'] if k in mb]
    return out


# ---------------------------------------------------------------------------------------------
def law_test(ctx, res):
    """evaluates every law of CompatLaws and the hypothesis GridStable with the Float instance of the driver on tuples from the
    region the generators draw (scales of C03_SCALES, grid indices up to 2^31, limits on and off the grid, values around the
    limits and the clamping / tolerance bands) — a test of the trusted base, not a proof"""
    rng = ctx.rng
    f2b = dtcodec.f2bits
    n = ctx.budget(4000, 60000)
    tuples = []
    cat = gen.FLOAT_CAT + [-0.0, 5e-324, -5e-324, 2.2250738585072014e-308, 16777216.0, 1e-7]
    for _ in range(n):
        r = rng.random()
        rr = rng.choice([1.2e-7, 1.2e-7, 0.0, 0.01, 0.5])
        ar = rng.choice([0.0, 0.0, 0.5, 1e-3, 1.0, 5e-324, 0.03])
        if r < 0.55:
            # the grid: a limit m on (or near) the grid of s, values around the limit and the clamping band
            sc = rng.choice(C03_SCALES) if rng.random() < 0.8 else math.ldexp(rng.random() + 0.5, rng.randint(-20, 20))
            k = draw_index(rng, sc, rng.choice([None, None, 'below', 'above'])) or 0
            m = k * sc
            if rng.random() < 0.25:
                m += rng.choice([0.1, -0.3, 0.49, 0.5, -0.5]) * sc
            x = m + rng.choice([0.0, 0.25, -0.25, 0.5, -0.5, 0.75, -0.75, 1.0, -1.0, 1.5, -1.5, 2.0, -2.0]) * sc
            if rng.random() < 0.5:
                x = math.nextafter(x, rng.choice([math.inf, -math.inf]))
            y = x + rng.choice([0.0, 0.5, 1.0, 3.0]) * sc if rng.random() < 0.7 else rng.choice(cat)
            s_ = sc
        else:
            # the tolerance band of a double: values around a limit by fractions / multiples of the tolerance
            m = rng.choice(cat)
            s_ = rng.choice(C03_SCALES)
            base = m if rng.random() < 0.7 else rng.choice(cat)
            prec = max(abs(base * rr), ar)
            x = base + rng.choice([0.0, -0.5, -1.0, -1.0000001, -2.0, 0.5, 1.0, 1.0000001, 2.0]) * prec
            if rng.random() < 0.4 and not math.isinf(x):
                x = math.nextafter(x, rng.choice([math.inf, -math.inf]))
            y = rng.choice([x, base, m, x + prec, x + 2 * prec, rng.choice(cat)])
            # the grid laws are assumed for |grid index| <= 2^31 only (false where the scale is below the float spacing)
            big = max([abs(v) for v in (m, x, y) if not math.isinf(v)] + [0.0])
            s_ = max(s_, math.ldexp(big, -30)) if big > 0 else s_
        if not x <= y:
            x, y = y, x
        lo, i, hi = sorted(rng.choice(gen.INT_CAT + [2 ** 70, -2 ** 70, 2 ** 64 + 1]) for _ in range(3))
        if any(isinstance(v, float) and math.isnan(v) for v in (m, x, y)):
            continue
        tuples.append([f2b(float(m)), f2b(float(s_)), f2b(float(x)), f2b(float(y)), f2b(rr), f2b(ar), lo, i, hi])
    ans = ctx.driver.batch([{'p': 'C03', 'k': 'laws', 'tuples': tuples[i:i + 2000]} for i in range(0, len(tuples), 2000)])
    fails, k = {}, 0
    for a in ans:
        if 'driver_error' in a:
            raise RuntimeError(f'driver error {a}')
        for names in a['fail']:
            for name in names:
                fails.setdefault(name, tuples[k])
            k += 1
    res.count('float-law re-test (a test): tuples', len(tuples))
    res.count('float-law re-test (a test): laws violated', len(fails))
    res.notes.append(f'float-law re-test (a test, not a proof): the laws of CompatLaws and the hypothesis GridStable evaluated with the '
                     f'Float instance on {len(tuples)} tuples from the region the generators draw (scales {len(C03_SCALES)} + random, '
                     f'grid indices up to 2^31, limits on / off the grid, values around limits and bands): {len(fails)} laws violated')
    for name, t in fails.items():
        res.disagreements.append({'case': {'k': 'law', 'law': name, 'tuple': t}, 'model': 'law / hypothesis assumed for binary64',
                                  'impl': 'fails on this tuple (bit patterns m, s, x, y, rr, ar; integers lo, i, hi)'})


def malformed_commands():
    """descriptions of commands around the `command` entry of DATATYPES: absent / null / malformed argument and result, unknown
    keys (must-ignore), the colliding key pname.  (A command as the argument of a command is accepted by the real table and not
    modelled: `CmdInfo` holds value types.)"""
    i, b, bad = {'type': 'int', 'min': 0, 'max': 5}, {'type': 'bool'}, {'type': 'int', 'min': 0}
    out = [{'type': 'command'}, {'type': 'command', 'argument': None}, {'type': 'command', 'argument': None, 'result': None},
           {'type': 'command', 'argument': i}, {'type': 'command', 'result': b}, {'type': 'command', 'argument': i, 'result': b},
           {'type': 'command', 'argument': bad}, {'type': 'command', 'result': bad}, {'type': 'command', 'argument': 5},
           {'type': 'command', 'argument': 'int'}, {'type': 'command', 'argument': [], 'result': b},
           {'type': 'command', 'argument': ['int', {'min': 0, 'max': 5}]}, {'type': 'command', 'result': ['bool', {}]},
           {'type': 'command', 'argument': i, 'description': 'x', '_custom': 1}, {'type': 'command', 'pname': 'x'},
           {'type': 'command', 'members': i},
           {'type': 'command', 'argument': {'type': 'struct', 'members': {'a': i, 'b': b}, 'optional': ['b']}, 'result': {'type': 'tuple', 'members': [i, b]}}]
    return out


def load_corpus(ctx):
    cases = []
    cdir = os.path.join(ctx.verif, 'corpus', 'C03')
    if os.path.isdir(cdir):
        for fn in sorted(os.listdir(cdir)):
            if fn.endswith('.json'):
                cases.append(json.load(open(os.path.join(cdir, fn)))['case'])
    return cases


def req_of(case):
    """(request, impl) for a case"""
    k = case['k']
    if k == 'rebuild':
        _, _, impl = eval_rebuild(case)
        return {'p': 'C03', 'k': 'rebuild', 'di': case['tree'], 'impl': impl}, impl
    if k == 'copy':
        impl = eval_copy(case)
        return {'p': 'C03', 'k': 'copy', 'di': case['tree'], 'impl': impl}, impl
    if k == 'compat':
        impl = eval_compat(case)
        return {'p': 'C03', 'k': 'compat', 'a': case['a'], 'b': case['b'], 'impl': impl}, impl
    if k == 'get':
        impl = eval_get(case['datainfo'])
        return {'p': 'C03', 'k': 'get', 'json': dtcodec.py_to_json(case['datainfo'])}, impl
    if k == 'proxy':
        built, impl = eval_proxy(case)
        return {'p': 'C03', 'k': 'proxy', 'params': built['params'], 'commands': built['commands']}, impl
    if k == 'cmdcompat':
        impl = eval_cmd(case)
        return {'p': 'C03', 'k': 'cmdcompat', 'a': case['a'], 'b': case['b'], 'impl': impl}, impl
    if k == 'cmdrebuild':
        impl = eval_cmdrebuild(case)
        return {'p': 'C03', 'k': 'cmdrebuild', 'arg': case['arg'], 'res': case['res'], 'impl': impl}, impl
    if k == 'getcmd':
        from frappy.datatypes import CommandType, get_datatype
        out = _outcome(lambda: get_datatype(jround(case['datainfo'])))
        if out[0] == 'ok' and isinstance(out[1], CommandType):
            try:
                impl = {key: dicodec.dt_to_di(x) if x is not None else None for key, x in (('arg', out[1].argument), ('res', out[1].result))}
            except Exception as e:
                impl = {'other': 'unreadable:' + type(e).__name__}
        else:
            impl = 'bad' if out[0] == 'bad' else {'other': out[1] if out[0] != 'ok' else 'not-a-command'}
        return {'p': 'C03', 'k': 'getcmd', 'json': dtcodec.py_to_json(case['datainfo'])}, impl
    if k == 'history':
        impl = eval_history(case)
        return {'p': 'C03', 'k': 'history', 'di': case['tree'], 'steps': case['steps'], 'final': case['final'], 'impl': impl}, impl
    if k == 'writable':
        impl = eval_writable(case)
        return {'p': 'C03', 'k': 'writable', 'value': case['value'], 'target': case['target']}, impl
    raise ValueError(k)


def tree_eq(x, y):
    return json.dumps(x, sort_keys=True) == json.dumps(y, sort_keys=True)


def _plain(tree):
    """the annotated tree without class marks (the `DInfo` of the model has none)"""
    return dicodec.strip_cls(tree) if isinstance(tree, dict) and 't' in tree else tree


def disagreement(case, impl, ans):
    """model vs implementation through the observation function; None when they agree"""
    k = case['k']
    m = ans.get('model')
    if k == 'rebuild':
        diffs = {}
        if canon_model_json(m['datainfo']) != (impl['datainfo'] if impl['datainfo'] is not None else 'bad'
                                                 if not str(impl['error']).startswith('export:') else {'other': impl['error'][7:]}):
            diffs['datainfo'] = (m['datainfo'], impl['datainfo'] or impl['error'])
        it2 = _plain(impl['tree2']) if impl['built'] else 'bad'
        if not tree_eq(m['tree2'], it2) and impl['datainfo'] is not None:
            diffs['tree2'] = (m['tree2'], it2)
        if impl['built'] and canon_model_json(m['datainfo2']) != impl['datainfo2']:
            diffs['datainfo2'] = (m['datainfo2'], impl['datainfo2'])
        if impl['built'] and impl['classes'] is not None and not tree_eq(m['classes'], impl['classes']):
            diffs['classes'] = (m['classes'], impl['classes'])
        return diffs or None
    if k == 'copy':
        diffs = {}
        it2 = _plain(impl['tree2']) if impl['built'] else ('bad' if impl['error'] == 'copy:bad' else {'other': str(impl['error'])[5:]})
        if not tree_eq(m['tree2'], it2):
            diffs['tree2'] = (m['tree2'], it2)
        if impl['built'] and impl['classes'] is not None and not tree_eq(m['classes'], impl['classes']):
            diffs['classes'] = (m['classes'], impl['classes'])
        if sorted(m['shared']) != impl['shared']:
            diffs['shared'] = (m['shared'], impl['shared'])
        return diffs or None
    if k == 'compat':
        diffs = {}
        if m != impl['verdict']:
            diffs['verdict'] = (m, impl['verdict'])
        # the model of the second type's validate (`cvalidate`: the kinds + the order test of every LimitsType) on the witnesses
        macc = ans.get('macc')
        iacc = [w['acc'] for w in impl['witnesses']]
        if macc is not None and macc != iacc:
            i = [x != y for x, y in zip(macc, iacc)].index(True)
            diffs['accepts'] = ({'witness': impl['witnesses'][i]['v'], 'accepted': macc[i]}, {'witness': impl['witnesses'][i]['v'], 'accepted': iacc[i]})
        return diffs or None
    if k == 'get':
        if not tree_eq(m, impl):
            return {'get': (m, impl)}
        return None
    if k == 'cmdrebuild':
        diffs = {}
        for name in ('rebuild', 'copy'):
            o = impl[name]
            if name == 'rebuild' and canon_model_json(m['datainfo']) != o['datainfo']:
                diffs['datainfo'] = (m['datainfo'], o['datainfo'])
            mt = m[name]
            it = {'arg': o['arg2'], 'res': o['res2']} if o['built'] else ('bad' if o['error'] == 'bad' else {'other': str(o['error'])})
            if not tree_eq(mt, it):
                diffs[name] = (mt, it)
        return diffs or None
    if k == 'getcmd':
        return None if tree_eq(m, impl) else {'getcmd': (m, impl)}
    if k == 'proxy':
        seen = {kk: vv for kk, vv in impl.items() if kk != 'obs'}
        return None if m == seen else {k: (m, seen)}
    if k == 'writable':
        if m != impl:
            return {k: (m, impl)}
        return None
    if k == 'history':
        diffs = {}
        if 'refused' in impl:
            if m['tree'] != ('bad' if impl['refused'] == 'bad' else {'other': impl['refused']}):
                diffs['refused'] = (m['tree'], {'refused': impl['refused'], 'at': impl['refused-at']})
            return diffs or None
        if not tree_eq(m['tree'], impl['tree']):
            diffs['tree'] = (m['tree'], impl['tree'] or impl['error'])
            return diffs
        if [canon_model_json(x) for x in m['exports']] != impl['exports']:
            diffs['exports'] = (m['exports'], impl['exports'])
        if canon_model_json(m['datainfo']) != (impl['datainfo'] if impl['datainfo'] is not None else {'other': str(impl['error'])[7:]}):
            diffs['datainfo'] = (m['datainfo'], impl['datainfo'] or impl['error'])
        it2 = impl['tree2'] if impl['built'] else ('bad' if str(impl['error']).endswith(':bad') else {'other': str(impl['error']).split(':', 1)[-1]})
        if impl['datainfo'] is not None and not tree_eq(m['tree2'], it2):
            diffs['tree2'] = (m['tree2'], it2)
        return diffs or None
    if k == 'cmdcompat':
        if m != impl['verdict']:
            return {'verdict': (m, impl['verdict'])}
        return None


def relax_optional(a, b):
    """`b` with every member made optional where the corresponding struct of `a` has all its members optional (the condition
    of the recorded finding `optional-vs-mandatory`, repaired on the second type)"""
    if a['t'] == b['t'] == 'array':
        return dict(b, elem=relax_optional(a['elem'], b['elem']))
    if a['t'] == b['t'] == 'tuple':
        return dict(b, elems=[relax_optional(x, y) for x, y in zip(a['elems'], b['elems'])] + b['elems'][len(a['elems']):])
    if a['t'] == b['t'] == 'struct':
        ma = dict((k, m) for k, m in a['members'])
        members = [[k, relax_optional(ma[k], m) if k in ma else m] for k, m in b['members']]
        all_optional = set(a['optional']) == set(k for k, _ in a['members'])
        optional = list(b['optional']) + [k for k, _ in b['members']
                                          if all_optional and k in a['optional'] and k not in b['optional']]
        return dict(b, members=members, optional=optional)
    return b


def cap_resolution(b):
    """`b` with every relative_resolution of 100 % or more set to 50 % (the condition of the recorded finding, repaired)"""
    t = b['t']
    if t == 'double' and _f(b['rr']) >= 1.0:
        return dict(b, rr=fj(0.5))
    if t == 'array':
        return dict(b, elem=cap_resolution(b['elem']))
    if t == 'tuple':
        return dict(b, elems=[cap_resolution(e) for e in b['elems']])
    if t == 'struct':
        return dict(b, members=[[k, cap_resolution(m)] for k, m in b['members']])
    return b


def unlimit(a, b):
    """`b` with every LimitsType that does not meet a LimitsType of `a` turned into the plain tuple it is described as"""
    if b['t'] == 'array':
        return dict(b, elem=unlimit(a['elem'] if a and a['t'] == 'array' else None, b['elem']))
    if b['t'] == 'tuple':
        ea = a['elems'] if a and a['t'] == 'tuple' else []
        elems = [unlimit(ea[i] if i < len(ea) else None, e) for i, e in enumerate(b['elems'])]
        out = dict(b, elems=elems)
        if b.get('cls') == 'limits' and not (a and a.get('cls') == 'limits'):
            out = {k: v for k, v in out.items() if k != 'cls'}
        return out
    if b['t'] == 'struct':
        ma = dict((k, m) for k, m in a['members']) if a and a['t'] == 'struct' else {}
        return dict(b, members=[[k, unlimit(ma.get(k), m)] for k, m in b['members']])
    return b


def signature(clause, case, impl=None):
    if case['k'] == 'history':
        return f"C03:history:{case['final']}:{clause}"
    if case['k'] == 'proxy':
        cl, _, pname = clause.partition('@')
        if cl.startswith('sound') and impl is not None and pname in impl.get('obs', {}):
            # attribution only: the pair in the direction judged is one of the recorded findings of compatible() itself
            p = [p for p in case['params'] if p['name'] == pname][0]
            o = impl['obs'][pname]
            try:
                own = dicodec.erase(dicodec.dt_to_di(dicodec.di_to_dt(p['dt'])))
                rem = rebuilt_remote(p)
                x, y, ws = (own, rem, o['to_remote']) if cl == 'sound-write' else (rem, own, o['to_proxy'])
                sig = signature('sound', {'k': 'compat', 'a': x, 'b': y}, {'witnesses': ws})
                if sig.count(':') > 2:
                    return sig
            except Exception:
                pass
        return f'C03:proxy:{cl}'
    if case['k'] == 'cmdrebuild':
        return f'C03:command:{clause}'
    if case['k'] == 'cmdcompat':
        if clause == 'sound' and impl is not None:
            # attribution only: a refused argument / result that is one of the recorded findings of the pair it belongs to
            a, b = case['a'], case['b']
            for x, y, ws in ((a['arg'], b['arg'], impl['wa']), (b['res'], a['res'], impl['wr'])):
                if x is not None and y is not None and any(not w['acc'] for w in ws):
                    sig = signature('sound', {'k': 'compat', 'a': x, 'b': y}, {'witnesses': ws})
                    if sig.count(':') > 2:
                        return sig
        return f'C03:{clause}:command->command'
    if case['k'] == 'compat':
        a, b = case['a'], case['b']
        if clause == 'sound' and impl is not None:
            # attribution only: is every refused witness accepted once the optional members of the first type are optional
            # in the second as well?  then the violation is the recorded finding, whatever the enclosing containers are
            b2 = relax_optional(a, b)
            refused = [w['v'] for w in impl['witnesses'] if not w['acc']]
            if b2 != b and refused:
                dt2 = dicodec.di_to_dt(b2)
                if all(_outcome(lambda: dt2.validate(dtcodec.json_to_py(v)))[0] == 'ok' for v in refused):
                    return 'C03:sound:struct->struct:optional-vs-mandatory'
            # … or does the check refuse once no relative_resolution of the second type exceeds 1?
            b3 = cap_resolution(b)
            if b3 != b and refused:
                if _outcome(lambda: dicodec.di_to_dt(a).compatible(dicodec.di_to_dt(b3)))[0] != 'ok':
                    return 'C03:sound:double:relative-resolution-not-below-1'
            # … or is every refused witness accepted once the LimitsType nodes of the second type that do not meet a LimitsType
            # of the first are plain tuples (the order of a pair is the only thing the second type asks for in addition)?
            b4 = unlimit(a, b)
            if b4 != b and refused:
                dt4 = dicodec.di_to_dt(b4)
                if all(_outcome(lambda: dt4.validate(dtcodec.json_to_py(v)))[0] == 'ok' for v in refused):
                    return 'C03:sound:tuple->limits:unordered-pair'
            # … or two recorded findings at once (all-optional struct and LimitsType in one pair): named after the first that
            # accounts for a refused witness
            b5 = unlimit(a, b2)
            if b5 != b4 and b5 != b2 and refused:
                dt5, dt2 = dicodec.di_to_dt(b5), dicodec.di_to_dt(b2)
                if all(_outcome(lambda: dt5.validate(dtcodec.json_to_py(v)))[0] == 'ok' for v in refused):
                    if any(_outcome(lambda: dt2.validate(dtcodec.json_to_py(v)))[0] == 'ok' for v in refused):
                        return 'C03:sound:struct->struct:optional-vs-mandatory'
                    return 'C03:sound:tuple->limits:unordered-pair'
        return f"C03:{clause}:{dicodec.node_kind(a)}->{dicodec.node_kind(b)}"
    if case['k'] == 'rebuild' and clause == 'behaviour' and 'limits' in dicodec.classes(case['tree']):
        # attribution only: do original and rebuilt type agree on every probe once the LimitsType nodes of the original are the
        # plain tuples they are described as?
        try:
            from frappy.datatypes import get_datatype
            plain = dicodec.di_to_dt(unlimit(None, case['tree']))
            dt2 = get_datatype(jround(dicodec.di_to_dt(case['tree']).export_datatype()))
            if all(run_probe(plain, p) == run_probe(dt2, p) for p in case['probes']):
                return 'C03:rebuild:behaviour:limits-order-not-described'
        except Exception:
            pass
    return f"C03:{case['k']}:{clause}:{dicodec.node_kind(case['tree'])}"


def show(tree):
    """repr of the datatype of a tree, derived classes by their own name (LimitsType / StatusType inherit TupleOf.__repr__)"""
    t, cls = tree['t'], tree.get('cls')
    if cls == 'limits':
        return f"LimitsType({show(tree['elems'][0])})"
    if cls == 'status':
        return 'StatusType(%s)' % ', '.join(f'{k}={v}' for k, v in tree['elems'][0]['members'])
    if t == 'array':
        return f"ArrayOf({show(tree['elem'])}, {tree['min']}, {tree['max']})"
    if t == 'tuple':
        return 'TupleOf(%s)' % ', '.join(show(e) for e in tree['elems'])
    if t == 'struct':
        return 'StructOf(%s, optional=%r)' % (', '.join(f'{k}={show(m)}' for k, m in tree['members']), tree['optional'])
    return repr(dicodec.di_to_dt(tree))


def rebuilt_remote(p):
    """the tree of the remote datatype as the client rebuilds it from the description"""
    from frappy.datatypes import get_datatype
    return dicodec.erase(dicodec.dt_to_di(get_datatype(jround(dicodec.di_to_dt(p['remote']['dt']).export_datatype()), p['name'])))


def describe(case, impl):
    if case['k'] == 'history':
        diff = [(json.dumps(p['o'])[:80], json.dumps(p['d'])[:80]) for p in impl['probes'] if p['o'] != p['d']][:2]
        return (f"dt = {show(case['tree'])}; " + '; '.join(show_step(s_) for s_ in case['steps']) + f"; now dt is {show(impl['tree']) if impl['tree'] else impl['error']} "
                f"and exports {json.dumps(impl['datainfo'])[:300]}; a new object in the same state exports {json.dumps(impl['twin'])[:300]}; "
                f"{case['final']} -> {json.dumps(impl['datainfo2'])[:300] if impl['built'] else impl['error']}; differing probes {diff}")
    if case['k'] == 'proxy':
        out = []
        for p in case['params']:
            o = impl.get('obs', {}).get(p['name'])
            if o is None:
                continue
            ws = dict((n, w) for n, w in impl['params'])[p['name']]
            out.append(f"parameter {p['name']}: proxy side {'readonly' if p['readonly'] else 'writable'} {show(p['dt'])}, remote side "
                       f"{'readonly' if p['remote']['readonly'] else 'writable'} {show(p['remote']['dt'])}; warnings {ws or 'none'}; "
                       f"values of the proxy's type refused remotely: {[repr(dtcodec.json_to_py(w['v'])) for w in o['to_remote'] if not w['acc']][:3]}; "
                       f"values of the remote type refused by the proxy: {[repr(dtcodec.json_to_py(w['v'])) for w in o['to_proxy'] if not w['acc']][:3]}")
        return ' | '.join(out)
    if case['k'] == 'cmdrebuild':
        which = 'copy' if impl['copy'] != impl['rebuild'] and (not impl['copy']['built'] or impl['copy']['shared']) else 'rebuild'
        o = impl[which]
        diff = [(json.dumps(p['o'])[:80], json.dumps(p['d'])[:80]) for p in (o['argp'] or []) + (o['resp'] or []) if p['o'] != p['d']][:2]
        return (f"{show_cmd(case)}: datainfo {json.dumps(o['datainfo'])[:300]}; {which} -> "
                f"{json.dumps(o['datainfo2'])[:300] if o['built'] else o['error']}; shared {o['shared']}; differing probes {diff}")
    if case['k'] == 'cmdcompat':
        bad = [repr(dtcodec.json_to_py(w['v'])) for w in impl['wa'] + impl['wr'] if not w['acc']][:3]
        return (f"{show_cmd(case['a'])}.compatible({show_cmd(case['b'])}) -> {json.dumps(impl['verdict'])}; arguments of the first "
                f"refused by the second / results of the second refused by the first: {bad}")
    if case['k'] == 'compat':
        a, b = show(case['a']), show(case['b'])
        bad = [repr(dtcodec.json_to_py(w['v'])) for w in impl['witnesses'] if not w['acc']][:3]
        return f"{a}.compatible({b}) -> {json.dumps(impl['verdict'])}; values of the first type refused by the second: {bad}"
    dt = show(case['tree'])
    if case['k'] == 'rebuild':
        diff = [(json.dumps(p['o'])[:80], json.dumps(p['d'])[:80]) for p in impl['probes'] if p['o'] != p['d']][:2]
        return (f"{dt}: datainfo {json.dumps(impl['datainfo'])[:300]} rebuilt -> "
                f"{json.dumps(impl['datainfo2'])[:300] if impl['built'] else impl['error']}; differing probes {diff}")
    diff = [(json.dumps(p['o'])[:80], json.dumps(p['d'])[:80]) for p in impl['probes'] if p['o'] != p['d']][:2]
    return (f"{dt}.copy(): tree {json.dumps(impl['tree2'])[:300] if impl['built'] else impl['error']}; shared {impl['shared']}; "
            f"original changed by mutating the copy: {impl['before'] != impl['after']}; differing probes {diff}")


def simpler_scaled(tree):
    """a scaled leaf at the root with fewer non-default properties / one limit moved to zero"""
    if tree['t'] != 'scaled':
        return
    s, lo, hi = _f(tree['scale']), _f(tree['min']), _f(tree['max'])
    plain = dict(tree, unit='', fmt='%g', ar=tree['scale'], rr=fj(1.2e-7))
    if plain != tree:
        yield plain
    if lo < 0.0 < hi or (lo == hi and lo != 0.0):
        yield dict(tree, min=fj(0.0)) if lo < 0.0 else dict(tree, max=fj(0.0))
        yield dict(tree, max=fj(0.0)) if hi > 0.0 else dict(tree, min=fj(0.0))
    elif 0.0 < lo:
        yield dict(tree, min=fj(0.0))
    elif hi < 0.0:
        yield dict(tree, max=fj(0.0))


def shrink(ctx, case, clause):
    """descend into the tree / pair while a smaller case fails the same clause"""
    if case['k'] in ('cmdcompat', 'cmdrebuild'):
        return case
    if case['k'] == 'proxy':
        # the one parameter the clause is about
        pname = clause.partition('@')[2]
        return dict(case, params=[p for p in case['params'] if p['name'] == pname], commands=[])
    if case['k'] == 'history':
        # leave out steps while the clause still fires
        i = 0
        while i < len(case['steps']) and len(case['steps']) > 1:
            sc = dict(case, steps=case['steps'][:i] + case['steps'][i + 1:])
            try:
                req, _ = req_of(sc)
                fires = clause in ctx.driver.batch([req])[0].get('judge', [])
            except Exception:
                fires = False
            if fires:
                case = sc
            else:
                i += 1
        return case
    for _ in range(8):
        smaller = None
        cands = []
        if case['k'] == 'compat':
            for a, b in sub_pairs(case):
                cands.append(dict(case, a=a, b=b, witnesses=[]))
        else:
            for path, sub in dicodec.subtrees(case['tree']):
                if len(path) == 1:
                    cands.append(dict(case, tree=sub, probes=[]))
            cands += [dict(case, tree=t_, probes=[]) for t_ in simpler_scaled(case['tree'])]
        for sc in cands:
            try:
                if sc['k'] == 'compat':
                    import random
                    rng = random.Random(0)
                    sc['witnesses'] = [dtcodec.py_to_json(v) for v in gen_witnesses(rng, sc['a'], 12) + all_small_ints(sc['a'])
                                       + boundary_witnesses(sc['a']) if dtcodec.encodable(v)]
                else:
                    import random
                    rng = random.Random(0)
                    sc['probes'] = gen_probes(rng, dicodec.erase(sc['tree']), 10)
                req, _ = req_of(sc)
                ans = ctx.driver.batch([req])[0]
            except Exception:
                continue
            if clause in ans.get('judge', []):
                smaller = sc
                break
        if smaller is None:
            return case
        case = smaller
    return case


def run(ctx):
    res = Result()
    res.rule = ('datatype trees built by the constructors (units with $, format strings, enum names, optional members, client marks, '
                'grid-aligned scaled limits whose float quotient limit/scale is exact / a hair below / a hair above the grid index; 12 % with limits off the grid, '
                'description only): export_datatype -> json round trip -> get_datatype -> export_datatype, probes at every numeric limit and from the '
                'boundary catalogues through both types (import_value / validate(previous)); copy() with the id()-walk of all mutable '
                'objects, then mutation of every object of the copy; datainfo with unknown / dropped / null / wrong-kind keys through '
                'get_datatype; ordered pairs derived per kind (wider, equal, narrower, shifted, cross kind, random) through compatible() '
                'with witnesses of the first value set through the real validate of the second; derived classes (TextType, LimitsType, StatusType) planted at any depth in all three streams plus a systematic catalogue of every derived class against its plain class; pairs of commands; commands through export_datatype / get_datatype / copy; malformed command descriptions; re-test of the float laws; the proxy consistency check (with witnesses of both value sets: the verdict in the direction the values flow) and Writable.__init__ on related datatypes; histories on one object (export_datatype, set_main_unit, set_properties on any member or through the enclosing arrays, export again, then rebuild / copy and the datainfo of a twin object).  Non-trivial = a tree with a container '
                'or a non-default property; a pair whose verdict is pass, or which is refused below the root or by a limit')
    rng = ctx.rng
    big = ctx.tier == 'thorough' or ctx.escalated
    maxdepth = 4 if big else 3
    ntrees = ctx.budget(3000, 60000)
    npairs = ctx.budget(6000, 200000)
    nprobe = 6

    cases = [(c, 'corpus') for c in load_corpus(ctx)]
    kinds = gen.LEAF_KINDS + gen.CONTAINER_KINDS
    for i in range(ntrees):
        kind = kinds[i] if i < len(kinds) else None
        d = rng.choice([1, 2, 2, 3, 3] + ([4] if big else []))
        tree0 = gen_di(rng, min(d, maxdepth) if kind is None else (maxdepth if kind in gen.CONTAINER_KINDS else 1), kind)
        try:
            dt = dicodec.di_to_dt(tree0)
            tree = dicodec.dt_to_di(dt)
        except Exception as e:
            res.count('tree.refused:' + type(e).__name__)
            continue
        probes = gen_probes(rng, dicodec.erase(tree), nprobe)
        r = rng.random()
        if r < 0.45:
            cases.append(({'k': 'rebuild', 'tree': tree, 'probes': probes}, 'rebuild'))
        elif r < 0.9:
            # a copy also converts (`dt(value)`) like the original
            probes = probes + [dict(p, mode='call', prev=None) for p in probes if p['mode'] == 'py'][:4]
            cases.append(({'k': 'copy', 'tree': tree, 'probes': probes}, 'copy'))
        else:
            try:
                d0 = dt.export_datatype()
                md, what = mutate_datainfo(rng, d0)
                cases.append(({'k': 'get', 'datainfo': md, 'what': what}, 'get:' + what))
            except Exception as e:
                res.count('datainfo.mutation-failed:' + type(e).__name__)
    for a, b in int_enum_pairs():
        ws = [dtcodec.py_to_json(v) for v in all_small_ints(a)]
        cases.append(({'k': 'compat', 'a': a, 'b': b, 'witnesses': ws, 'mode': 'int-enum'}, 'pair:int-enum(systematic)'))
    for a, b in variant_pairs():
        import random
        ws = [dtcodec.py_to_json(v) for v in boundary_witnesses(a) + gen_witnesses(random.Random(len(cases)), a, 6) + all_small_ints(a)
              if dtcodec.encodable(v)]
        cases.append(({'k': 'compat', 'a': a, 'b': b, 'witnesses': ws, 'mode': 'derived-class'}, 'pair:derived-class(systematic)'))
    for i in range(npairs):
        a, b, mode = gen_pair(rng, 2 if not big else 3)
        try:
            a = dicodec.erase(dicodec.dt_to_di(dicodec.di_to_dt(a)))
            b = dicodec.erase(dicodec.dt_to_di(dicodec.di_to_dt(b)))
        except Exception as e:
            res.count('pair.refused:' + type(e).__name__)
            continue
        ws = [dtcodec.py_to_json(v) for v in gen_witnesses(rng, a, 8) + all_small_ints(a) + boundary_witnesses(a)[:4]
              if dtcodec.encodable(v)]
        cases.append(({'k': 'compat', 'a': a, 'b': b, 'witnesses': ws, 'mode': mode}, 'pair:' + mode))

    for i in range(ctx.budget(500, 8000)):
        a, b = gen_cmd_pair(rng)
        try:
            a, b = norm_cmd(a), norm_cmd(b)
        except Exception as e:
            res.count('pair.refused:' + type(e).__name__)
            continue
        wa = [dtcodec.py_to_json(v) for v in gen_witnesses(rng, a['arg'], 6) + boundary_witnesses(a['arg'])[:4]
              if dtcodec.encodable(v)] if a['arg'] is not None else []
        wr = [dtcodec.py_to_json(v) for v in gen_witnesses(rng, b['res'], 6) + boundary_witnesses(b['res'])[:4]
              if dtcodec.encodable(v)] if b['res'] is not None else []
        cases.append(({'k': 'cmdcompat', 'a': a, 'b': b, 'wa': wa, 'wr': wr}, 'command'))
    for i in range(ctx.budget(400, 6000)):
        c = gen_proxy_case(rng)
        try:
            for p_ in c['params']:
                dicodec.di_to_dt(p_['dt'])
                if p_['remote'] is not None:
                    dicodec.di_to_dt(p_['remote']['dt'])
            for c_ in c['commands']:
                norm_cmd(c_['dt'])
                if c_['remote'] is not None:
                    norm_cmd(c_['remote'])
        except Exception as e:
            res.count('pair.refused:' + type(e).__name__)
            continue
        for p_ in c['params']:
            if p_['remote'] is not None:
                # values of both value sets for the monitor (the direction in which the verdict is used)
                own = dicodec.erase(dicodec.dt_to_di(dicodec.di_to_dt(p_['dt'])))
                rem = dicodec.erase(dicodec.dt_to_di(dicodec.di_to_dt(p_['remote']['dt'])))
                p_['w_own'] = [dtcodec.py_to_json(v) for v in gen_witnesses(rng, own, 5) + all_small_ints(own) + boundary_witnesses(own)[:4]
                               if dtcodec.encodable(v)]
                p_['w_remote'] = [dtcodec.py_to_json(v) for v in gen_witnesses(rng, rem, 5) + all_small_ints(rem) + boundary_witnesses(rem)[:4]
                                  if dtcodec.encodable(v)]
        cases.append((c, 'proxy'))
    for i in range(ctx.budget(1000, 20000)):
        try:
            cases.append((gen_history(rng, 2 if not big else 3), 'history'))
        except Exception as e:
            res.count('history.refused:' + type(e).__name__)
    for a, b in variant_pairs():
        # every derived class as `value` against the plain class as `target` and the other way round, nested and not
        cases.append(({'k': 'writable', 'value': b, 'target': a, 'mode': 'derived-class'}, 'writable:derived-class(systematic)'))
    for i in range(ctx.budget(250, 4000)):
        a, b, mode = gen_pair(rng, 2)
        if rng.random() < 0.3:
            a = plant_variants(rng, dicodec.strip_cls(a), 0.7)
            b = derive_c(rng, a, rng.choice(['equal', 'wider', 'narrower', 'shifted']))
        if rng.random() < 0.3:
            b = a
        elif rng.random() < 0.5:
            a, b = b, a
        try:
            a = dicodec.erase(dicodec.dt_to_di(dicodec.di_to_dt(a)))
            b = dicodec.erase(dicodec.dt_to_di(dicodec.di_to_dt(b)))
        except Exception as e:
            res.count('pair.refused:' + type(e).__name__)
            continue
        cases.append(({'k': 'writable', 'value': b, 'target': a, 'mode': mode}, 'writable'))

    for i in range(ctx.budget(300, 5000)):
        try:
            cases.append((gen_cmdrebuild(rng), 'command-rebuild'))
        except Exception as e:
            res.count('tree.refused:' + type(e).__name__)
    for d_ in malformed_commands():
        cases.append(({'k': 'getcmd', 'datainfo': d_}, 'get:command'))
    # re-test of the additional float laws on the region drawn (a test of the trusted base, not a proof)
    law_test(ctx, res)

    CH = 20000
    shrunk = 0
    for start in range(0, len(cases), CH):
        chunk = cases[start:start + CH]
        reqs, impls = [], []
        for c, stream in chunk:
            req, impl = req_of(c)
            reqs.append(req)
            impls.append(impl)
        answers = ctx.driver.batch(reqs)
        for (c, stream), impl, ans in zip(chunk, impls, answers):
            if 'driver_error' in ans:
                raise RuntimeError(f'driver error {ans} on {json.dumps(c)[:600]}')
            res.evaluations += 1
            res.count('stream=' + stream)
            k = c['k']
            if k == 'compat':
                res.traces += 1
                v = impl['verdict'] if isinstance(impl['verdict'], str) else 'other'
                res.count(f"pair.{c['a']['t']}->{c['b']['t']}")
                ca, cb = dicodec.classes(c['a']), dicodec.classes(c['b'])
                res.count('pair.classes=' + ('plain' if not ca and not cb else '+'.join(ca or ['plain']) + '->' + '+'.join(cb or ['plain'])))
                res.count('verdict=' + v)
                res.count('nested=' + str(ans['nested']).lower() + ',verdict=' + v)
                if v == 'pass':
                    res.count('witnesses.refused' if any(not w['acc'] for w in impl['witnesses']) else 'witnesses.all-accepted')
                if v == 'pass' or c['a']['t'] == c['b']['t'] or (c['a']['t'] in ('int', 'double', 'scaled', 'bool', 'enum')
                                                                and c['b']['t'] in ('int', 'double', 'scaled', 'bool', 'enum')):
                    res.nontriv(c)
                if not ans['wf']:
                    res.disagreements.append({'case': c, 'model': 'tree is not DType.WF', 'impl': 'accepted by the constructors'})
                    continue
                if len(res.samples) < 6 and len(res.samples) >= 3 and v == 'pass' and c['a']['t'] in ('struct', 'array', 'int') \
                        and len(json.dumps(c)) < 900:
                    res.samples.append({'case': c, 'impl': impl})
            elif k in ('rebuild', 'copy'):
                res.traces += 1
                res.count(f'{k}.root=' + c['tree']['t'])
                res.count(f'{k}.classes=' + ('+'.join(dicodec.classes(c['tree'])) or 'plain'))
                res.count(f'{k}.built=' + str(impl['built']).lower())
                for qc in quotient_classes(c['tree']):
                    res.count('scaled.limit/scale=' + str(qc))
                if any(True for _ in scaled_leaves(c['tree'])):
                    res.count(f'{k}.scaled-limits=' + ('grid-aligned' if ans.get('aligned') else 'not-aligned(behaviour judged)' if ans.get('snappable') else 'no-finite-grid-value(description only)'))
                for p in impl['probes']:
                    res.count('probe.original=' + ('ok' if isinstance(p['o'], dict) and 'ok' in p['o'] else 'bad' if p['o'] == 'bad' else 'other'))
                if c['tree']['t'] in gen.CONTAINER_KINDS or json.dumps(impl['datainfo']).count('[') > 3:
                    res.nontriv(c)
                if len(res.samples) < 3 and c['tree']['t'] == 'struct' and len(json.dumps(c)) < 1500 and stream != 'corpus':
                    res.samples.append({'case': {'k': k, 'tree': c['tree']}, 'datainfo': impl['datainfo']})
            elif k == 'history':
                res.traces += 1
                changes = [s_ for s_ in c['steps'] if s_['op'] != 'export']
                first_export = min([i_ for i_, s_ in enumerate(c['steps']) if s_['op'] == 'export'], default=None)
                last_change = max([i_ for i_, s_ in enumerate(c['steps']) if s_['op'] != 'export'], default=None)
                res.count('history.outcome=' + ('refused' if 'refused' in impl else c['final'] + (':built' if impl['built'] else ':not-built')))
                res.count('history.changed-after-an-export=' + str(first_export is not None and last_change is not None and first_export < last_change).lower())
                for s_ in changes:
                    res.count('history.change=' + ('main-unit' if s_['op'] == 'unit' else 'properties' + ('(through an enclosing array)' if
                              'refused' not in impl and node_kind_at(c['tree'], s_['path']) == 'array' and s_['props'][0][0] not in ('minlen', 'maxlen') else '')))
                res.count('history.twin=' + ('exported' if impl.get('twin') is not None else 'none'))
                res.nontriv(c)
            elif k == 'proxy':
                for p_ in c['params']:
                    if p_['remote'] is not None:
                        res.count('proxy.readonly(proxy,remote)=' + str(p_['readonly']).lower() + ',' + str(p_['remote']['readonly']).lower())
                for _, ws in impl['params']:
                    res.count('proxy.warnings=' + ('+'.join(ws) or 'none'))
                for _, ws in impl['commands']:
                    res.count('proxy.command-warnings=' + ('+'.join(ws) or 'none'))
                res.nontriv(c)
            elif k == 'cmdcompat':
                res.traces += 1
                v = impl['verdict'] if isinstance(impl['verdict'], str) else 'other'
                res.count('command.verdict=' + v)
                res.count('command.shape=' + ''.join('A' if x['arg'] is not None else '-' for x in (c['a'], c['b'])) +
                          ''.join('R' if x['res'] is not None else '-' for x in (c['a'], c['b'])))
                res.count('command.nested=' + str(ans['nested']).lower() + ',verdict=' + v)
                res.nontriv(c)
            elif k == 'cmdrebuild':
                res.traces += 1
                res.count('command-rebuild.shape=' + ('A' if c['arg'] is not None else '-') + ('R' if c['res'] is not None else '-'))
                res.count('command-rebuild.built=' + str(impl['rebuild']['built']).lower() + ',copy=' + str(impl['copy']['built']).lower())
                res.count('command-rebuild.limits=' + ('grid-aligned' if ans.get('aligned') else 'not-aligned(behaviour judged)' if ans.get('snappable') else 'no-finite-grid-value(description only)'))
                res.nontriv(c)
            elif k == 'getcmd':
                res.count('get.command=' + ('command' if isinstance(impl, dict) and 'arg' in impl else 'bad' if impl == 'bad' else 'other'))
            elif k == 'writable':
                res.count('writable=' + (impl if isinstance(impl, str) else 'other'))
                res.nontriv(c)
            else:
                res.count('get.result=' + ('tree' if isinstance(impl, dict) and 't' in impl else 'bad' if impl == 'bad' else 'other'))
                if isinstance(impl, dict) and 't' in impl:
                    res.nontriv(c)
            if ctx.model_ok:
                d = disagreement(c, impl, ans)
                if d:
                    res.disagreements.append({'case': {kk: vv for kk, vv in c.items() if kk not in ('probes', 'witnesses', 'argprobes', 'resprobes')},
                                              'model': {kk: vv[0] for kk, vv in d.items()},
                                              'impl': {kk: vv[1] for kk, vv in d.items()}})
            for clause in ans.get('judge', []):
                small = c
                if c['k'] == 'proxy':
                    small = shrink(ctx, c, clause)       # the one parameter: no search needed
                elif shrunk < 60 or (c['k'] == 'history' and shrunk < 90):
                    shrunk += 1
                    small = shrink(ctx, c, clause)
                _, simpl = req_of(small)
                res.violations.append({'sig': signature(clause, small, simpl), 'what': f'{clause}: ' + describe(small, simpl),
                                       'case': small, 'detail': {'clause': clause, 'original': c if small is not c else None}})
    return res


def replay(ctx, rp):
    case = rp['case']
    if case.get('k') == 'law':
        ans = ctx.driver.batch([{'p': 'C03', 'k': 'laws', 'tuples': [case['tuple']]}])[0]
        print('law      :', case['law'], 'on (m, s, x, y, rr, ar) =', [bits2f(b) for b in case['tuple'][:6]], 'integers', case['tuple'][6:])
        print('fails    :', ans['fail'][0])
        return 1 if case['law'] in ans['fail'][0] else 0
    req, impl = req_of(case)
    ans = ctx.driver.batch([req])[0]
    print('case     :', json.dumps({k: v for k, v in case.items() if k not in ('probes', 'witnesses', 'argprobes', 'resprobes')})[:1500])
    if case['k'] in ('rebuild', 'copy', 'compat', 'cmdcompat', 'cmdrebuild', 'history', 'proxy'):
        print('what     :', describe(case, impl))
    print('impl     :', json.dumps(impl)[:2000])
    print('model    :', json.dumps(ans.get('model'))[:2000])
    print('judge    :', ans.get('judge'))
    d = disagreement(case, impl, ans)
    print('model == implementation:', d is None)
    if rp.get('kind') == 'no-failing-input-found':
        return 0 if d is None else 1
    return 1 if ans.get('judge') else 0
