"""C09 — Module classes, instances and configurations are isolated from each other.

A *program* is a list of operations run against the real frappy code in this process:
  {"op": "class", "name", "bases": [names], "mixin": bool, "decls": [[aname, decl], ...]}
  {"op": "inst", "name", "cls", "cfg": {aname: {prop: value}}}
  {"op": "mutate", "inst", "par", "kind": "setprop", "key", "val"}          datatype/parameter property of one instance
  {"op": "mutate", "inst", "par", "kind": "enum", "member"}                 HasControlledBy.register_input style datatype replacement
decl:  {"k": "param", "desc"?, "dt"?, "props": {..}, "inherit": bool} | {"k": "value", "v"} | {"k": "none"}
     | {"k": "cmd", "desc"?, "arg"?, "props": {..}, "inherit": bool} | {"k": "method"}
dt:    {"t": "float"|"int"|"string"|"bool"|"enum"|"array", "props": {..}, "members": {name: int}?, "child": dt?}

  {"op": "load", "name", "cls", "cfg", "share"?: {key: [section, key']}, "groups"?: {group: [keys]}}   a module section of the
        configuration is loaded (frappy.config.Mod / Param / Group objects); `share`: ONE Param object used for several modules
  {"op": "inst", "name", "cls", "from": section}   a module created from a loaded section through SecNode.get_module_instance -
        again for a second start (restart); an "inst" with "cfg" loads the section under the name of the module and creates it
  {"op": "mutate", "inst", "par": "controlled_by", "kind": "enum", "member"}   on a module with the mixin HasControlledBy: the real
        register_input with a recording callback

After EVERY operation every live owner (frappy's own Readable/Writable/Drivable/HasControlledBy, every generated class,
every instance) is dumped: for_export() of all accessibles in order, internal default/value, the outcome of a boundary
catalogue through every parameter datatype, module properties, and the id()-partition of the accessible / datatype /
enum / member-datatype / mutable property-value objects; for a class also a digest of its whole namespace, for an instance of
its `vars()` and (mixin HasControlledBy) of which registered callbacks self_controlled()/update_target() call; every loaded module
section is an owner, too (its entries with the items of their Param objects).  Python only runs the code and canonicalises; whether a dump
of a non-target owner changed, whether two definition orders agree and whether a fresh instance shows its class's
description is decided by the Lean monitors (Spec/C09.lean); the Lean heap model (Klass/*) has to predict every dump
and the sharing partition.
"""
import json
import os
import sys

from check import Result
from vlib.shrink import ddmin
from tables.c09 import canon, jtext

META = {
    'level_text': 'Theorems about an explicit object-heap model of HasProperties/HasAccessibles.__init_subclass__, Module.__init__ and '
                  'datatype mutation (FrappyModel/Klass): frame (every operation leaves every existing object alone that is not reachable '
                  'from its target), separated_preserved (every admissible operation - class definition incl. module properties, '
                  'instantiation, setProperty on a parameter or on a member datatype at any path, enum replacement - keeps: no object '
                  'reachable from an instance is reachable from another owner), isolated / isolated_reachable (description and validation '
                  'behaviour of every non-target owner unchanged, after any admissible program), class_description_stable, '
                  'later_instances_fresh; for the module-level properties (group, visibility, custom Property(...), bare values on any '
                  'number of levels): isolated_mprops, class_mprops_stable, describeM_instantiate, later_instances_mprops (all for every '
                  'admissible run); class_never_changes / inst_never_changes_mprops (once defined / created, for every admissible '
                  'continuation); order_independent (FULL: any two programs with the same class bodies, each in an order consistent with '
                  'inheritance, show the same heap description for every common class - it is viewsOf(env), a function of the class '
                  'bodies along the MRO), order_independent_mprops, class_mprops_faithful, inst_description_function / '
                  'inst_mprops_function (the description of an instance is a function of viewsOf/pureOf of its class and its '
                  'configuration).  Around the heap (FrappyModel/Klass/Session.lean: the loaded configuration as objects - module '
                  'sections, Param objects shared between sections, Group arguments; module properties computed from the class chain; '
                  'input-callback tables): config_isolated / config_isolated_run (no operation, in particular no module creation, '
                  'changes what a loaded section shows), recreate_same (a module created from a section after any admissible run - '
                  'other modules from this section or from sections sharing Param objects, a restart - shows what one created now '
                  'shows, accessibles and module properties), module_description_function / module_mprops_function (the description is '
                  'instViews of viewsOf(env) of the class - resp. instMSpec of its module properties - and of the items the section had '
                  'WHEN IT WAS LOADED), features_function / later_instances_same_features '
                  '(features and interface_classes depend on the MRO and the direct bases along it only, whatever was created '
                  'before), control_isolated / inputs_only_by_own_registration / control_calls_isolated (the table of input callbacks '
                  'of a module, and what self_controlled() calls, change by registrations with that module only).  '
                  'Status codes (FrappyModel/Klass/Status.lean: StatusType(<class>, *standard, **custom) worked out by the model from '
                  'the class it extends): status_codes_own_chain (the enum has exactly the codes of that class and the codes given), '
                  'status_of_class_stable / status_elab_stable (the status of a class, and what a status declaration means, is the '
                  'same after any admissible run - other families using the same numbers under other names included).  Struct '
                  'parameters (StructParam expanded by the model: expandStructs_names; FrappyModel/Klass/StructRW.lean: the per-object '
                  'nesting counter of the member/struct callbacks): member_update_context_free (what a module shows after a member '
                  'update is the same inside a struct access of any OTHER module as on its own), member_update_reaches_struct; '
                  'contextOffenders_sound (monitor).  '
                  'Tied to the code by a correspondence run (every dump, '
                  'propertyDict, property values, exportProperties and the id()-sharing partition incl. Property objects and member '
                  'datatypes after every operation of generated programs) and by Lean monitors judging every implementation trace '
                  '(isolation incl. write_<p>/command-call behaviour, module properties, loaded configuration sections, class and '
                  'instance namespaces and input-callback behaviour; order independence of classes AND of module creation; later '
                  'instances incl. a second creation from the same loaded section; writes follow the own datatype; what a module shows '
                  'after a member update does not depend on which other module is being accessed meanwhile).  Every run of a program '
                  '(first order, other order, every shrinking step, every replay) happens in a process of its own, forked from a parent '
                  'that has imported frappy and nothing else: no class-level table, memo or registry survives from one run to another; '
                  'the class-level state of frappy\'s own datatype / Parameter / Command / Property classes is an owner (lib:*) of every dump.',
    'level_note': 'Trusted: Lean kernel + axioms propext/Classical.choice/Quot.sound; Python C3 linearisation is an input (the real '
                  '__mro__ is passed to the model); validation behaviour is taken to be a function of the exported datainfo '
                  '(monitored on every run); whether an operation fails is taken from the implementation (the model skips failed '
                  'operations, the judge demands they change nothing), in particular whether a bare value is accepted by the datatype '
                  'of a module property; property values travel in exported form (generated values are fixed points of '
                  'export(validate(v))); the model itself (that frappy lays objects out as FrappyModel/Klass/Instance.lean says) is tested by '
                  'the correspondence run; write/call outcomes are judged, not predicted by the model.',
    'trusted': [
        "Python's C3 linearisation (the real __mro__ of every generated class is passed to the model as data)",
        'validation behaviour of a datatype object is a function of its exported datainfo (checked by the monitor valFunctionalB on every run)',
        'class bodies are drawn from a template family (type() with Parameter/Command/Property/StructParam/StatusType/bare value/None/method declarations), not arbitrary Python; member access methods of struct parameters are the harness\'s (value from/to a table, hooks calling into other modules)',
        'os.fork() gives a run the interpreter state of the parent (frappy imported, no generated class): state the parent itself acquires while building wire formats (it builds datatype objects and Command objects, never a class or a module) would be inherited by all runs alike',
        'a LimitsType is told to the model as such (kind "limits", one member); every other datatype object by its exported datainfo',
        'the items of a Param object and the entries of a Mod are told to the model in the order frappy.config builds them (value last); SECoP_BASE_CLASSES is passed to the driver with every request',
    ],
    'modelled_not_verified': [
        'the module property `implementation` (dumped and judged, not predicted; features and interface_classes are predicted by the Session model)',
        'the session layer (loaded configuration, class-chain properties, input tables) is a separate state next to the object heap: that module creation only READS the Param objects is the transcription of modulebase.py:476-481 / secnode.py:135, checked by the correspondence run, not derived from a model of dict operations',
        'HasOutputModule.initModule/activate_control (the controller side) is not run: register_input is called on the output module with a recording callback',
        'the class/instance namespace digest (names and plain-data values, other objects by type name) is judged, not predicted',
        'read_/write_/check_ wrapper generation in __init_subclass__',
        'Limit parameters (<p>_min/_max/_limits); ScaledInteger, BLOBType, OrType/NoneOr as parameter datatypes; FloatEnumParam',
        'the elaboration of status declarations and StructParam declarations (Klass/Status.lean) happens in front of pureDefine (driver: elabOp, expandStructs): the theorems about order independence see the elaborated class bodies; that elaboration itself is order independent is status_elab_stable',
        'Klass/StructRW.lean is a model of the callbacks of ONE thread (insideRW is thread local); hasStructRW layouts (own read_/write_<struct>) and the partial-failure path of the generated struct read/write are not modelled; lib:* owners and the outcome of the context probe are judged (and, for accepted member updates, predicted), the namespace digests are not predicted',
        'outcomes of write_<p>(v) through the generated wrapper and of Command.do(): dumped, judged (isolation, order, writesOwn), not predicted',
        'the module property `export = False` (switches the export of all accessibles off) is never generated',
    ],
    'assumptions': ['declared datatype objects are not shared between two declarations of the generated program',
                    'names of module properties and names of accessibles are kept apart by the generator (pollinterval, a Property of Module '
                    'and a Parameter of Readable, is the one overlap and is modelled: the Parameter removes the Property)'],
}

CATALOGUE = [0, 1, -1, 2, 3, 4, 5, 6, 7, 9, 10, 11, 20, 50, 100, 101, 2.5, 1e9, -1e9, 'a', 'abcde', 'x' * 12, True, None,
             [1, 2], [1, 2, 3, 4, 5], [], 'self', 'm1', 'IDLE', [100, ''], [300, 'x']]
WRITE_CATALOGUE = [0, 1, -1, 3, 4, 5, 7, 9, 10, 11, 20, 50, 100, 101, 'a', 'abcde', True, None, [1, 2]]
ARG_CATALOGUE = [None, {}, {'a': 1}, {'b': 2}, {'a': 1, 'b': 2}, {'a': 1, 'b': 2, 'c': 3}, {'c': 3}, 1, 'x']
ROOTS = ['Module', 'Readable', 'Writable', 'Drivable']


# ----------------------------------------------------------------------------------------
# building datatypes / declarations from the JSON program
# ----------------------------------------------------------------------------------------
def mk_dt(spec, resolve=None):
    from frappy import datatypes as D
    t = spec['t']
    props = dict(spec.get('props') or {})
    if t == 'status':
        # `StatusType(<class with a status parameter> | None, *<standard code names>, **<custom codes>)`: the codes of the
        # parent are taken from the class as it is now (datatypes.py: StatusType.__init__)
        parent = resolve(spec['parent']) if spec.get('parent') else None
        return D.StatusType(parent, *spec['std'], **spec['custom'])
    if t == 'float':
        return D.FloatRange(**props)
    if t == 'int':
        return D.IntRange(props.get('min'), props.get('max'))
    if t == 'string':
        return D.StringType(**props)
    if t == 'bool':
        return D.BoolType()
    if t == 'enum':
        return D.EnumType('', members=dict(spec['members']))
    if t == 'array':
        return D.ArrayOf(mk_dt(spec['child']), props.get('minlen', 0), props.get('maxlen'))
    if t == 'struct':
        return D.StructOf(**{k: mk_dt(v) for k, v in spec['members'].items()})
    if t == 'tuple':
        return D.TupleOf(*[mk_dt(c) for c in spec['children']])
    if t == 'limits':       # ONE member object, used twice (datatypes.py: LimitsType)
        return D.LimitsType(mk_dt(spec['child']))
    if t == 'text':
        return D.TextType(props.get('maxchars'))
    raise ValueError(t)


def dt_children(dt):
    """the member datatype objects of a datatype object, in the order the paths of a program count them"""
    from frappy import datatypes as D
    if isinstance(dt, D.ArrayOf):
        return [dt.members]
    if isinstance(dt, D.TupleOf):
        return list(dt.members)
    if isinstance(dt, D.StructOf):
        return [dt.members[k] for k in sorted(dt.members)]
    return []


def dt_at(dt, path):
    for i in path:
        dt = dt_children(dt)[i]
    return dt


def dt_paths(dt, path=()):
    """all (path, datatype object) below and including dt"""
    out = [(list(path), dt)]
    for i, c in enumerate(dt_children(dt)):
        out += dt_paths(c, path + (i,))
    return out


def dt_kind(dt):
    from frappy import datatypes as D
    for k, c in (('float', D.FloatRange), ('int', D.IntRange), ('text', D.TextType), ('string', D.StringType), ('bool', D.BoolType),
                 ('enum', D.EnumType), ('array', D.ArrayOf), ('limits', D.LimitsType), ('tuple', D.TupleOf), ('struct', D.StructOf)):
        if isinstance(dt, c):
            return k
    return None


def mk_func(sig):
    """a method `(self, <names>)` where the names listed in sig['defaults'] have default values"""
    if not sig:
        def func(self, *args):
            return None
        func.__doc__ = None
        return func
    args = ', '.join([n for n in sig['names'] if n not in sig['defaults']] + [n + '=1' for n in sig['names'] if n in sig['defaults']])
    ns = {}
    exec(f'def func(self, {args}):\n    return None\n', ns)     # pylint: disable=exec-used
    return ns['func']


def mk_decl(decl, resolve=None):
    from frappy.params import Parameter, Command
    k = decl['k']
    if k == 'struct':
        # a StructParam: a struct parameter together with one parameter per member (frappy/extparams.py)
        from frappy.extparams import StructParam
        pd = {m: Parameter('member ' + m, mk_dt(dt)) for m, dt in decl['members']}
        return StructParam(decl.get('desc'), pd, decl.get('prefix', ''), readonly=bool(decl.get('readonly')))
    if k == 'param':
        kw = dict(decl.get('props') or {})
        if decl.get('dt') is not None:
            kw['datatype'] = mk_dt(decl['dt'], resolve)
            kw.update(decl.get('dtkw') or {})     # datatype properties given as keywords next to the datatype
        if not decl.get('inherit', True):
            kw['inherit'] = False
        return Parameter(decl.get('desc'), **kw)
    if k == 'value':
        return decl['v']
    if k == 'none':
        return None
    if k == 'cmd':
        kw = dict(decl.get('props') or {})
        if decl.get('desc') is not None:
            kw['description'] = decl['desc']
        if not decl.get('inherit', True):
            kw['inherit'] = False
        arg = mk_dt(decl['arg']) if decl.get('arg') is not None else None
        return Command(arg, result=None, **kw)(mk_func(decl.get('sig')))
    if k == 'method':
        return mk_func(decl.get('sig'))
    if k == 'prop':
        return mk_property(decl)
    raise ValueError(k)


def mk_property(decl):
    """a module-level `Property(...)` written in a class body"""
    from frappy import datatypes as D
    from frappy.properties import Property
    dt = {'str': D.StringType, 'int': D.IntRange, 'float': D.FloatRange}[decl['dt']]()
    kw = {k: decl[k] for k in ('default', 'value', 'extname', 'export') if k in decl}
    return Property('custom property', dt, **kw)


AUTO_PROPS = ('implementation', 'interface_classes', 'features')      # set by Module.__init__ from the class chain


def pexport(po, v):
    """a property value in the form it is exported in (None: UNSET)"""
    from frappy.properties import UNSET
    if v is UNSET:
        return None
    try:
        v = po.datatype.export_value(v)
    except Exception:       # simple validators have no export_value
        pass
    return jtext(canon(v))


def property_objects(cls):
    """the module-level Property objects a class is described with: `propertyDict`, for a mixin outside HasProperties
    the Property objects of its `__dict__`"""
    from frappy.properties import Property
    pd = getattr(cls, 'propertyDict', None)
    if pd is None:
        pd = {k: v for k, v in cls.__dict__.items() if isinstance(v, Property)}
    return pd


def dump_property(po):
    """[value | None, default, extname, export] of a Property object"""
    return [pexport(po, po.value), pexport(po, po.default), po.extname, jtext(canon(po.export))]


# ----------------------------------------------------------------------------------------
# canonical dumps
# ----------------------------------------------------------------------------------------
def canon_dinfo(info):
    """datainfo dict -> generic tree [kind, sorted [key, json text], children, members|None]"""
    if info is None:
        return None
    info = dict(info)
    kind = info.pop('type')
    children, members = [], None
    if kind == 'enum':
        members = sorted(([k, int(v)] for k, v in info.pop('members').items()), key=lambda kv: (kv[1], kv[0]))
    elif kind == 'array':
        children = [canon_dinfo(info.pop('members'))]
    elif kind == 'tuple':
        children = [canon_dinfo(m) for m in info.pop('members')]
    elif kind == 'struct':
        ms = info.pop('members')
        children = [canon_dinfo(ms[k]) for k in sorted(ms)]
        info['names'] = sorted(ms)
    elif kind == 'command':
        children = [canon_dinfo(info.pop('argument', None)), canon_dinfo(info.pop('result', None))]
    return [kind, sorted([k, jtext(canon(v))] for k, v in info.items()), children, members]


def dt_tree(dt):
    """generic tree of a datatype object (a datatype without export, like ValueType: kind 'value')"""
    if dt is None:
        return None
    try:
        return canon_dinfo(dt.export_datatype())
    except Exception:
        return ['value', [], [], None]


def obj_tree(dt):
    """the tree of a datatype OBJECT as the model takes it: like dt_tree, but a LimitsType is a node of kind 'limits'
    with its one (doubly used) member"""
    from frappy import datatypes as D
    if dt is None:
        return None
    node = dt_tree(dt)
    kids = dt_children(dt)
    if isinstance(dt, D.LimitsType):
        return ['limits', node[1], [obj_tree(kids[0])], None]
    if kids:
        node[2] = [obj_tree(k) for k in kids]
    return node


def catalogue(dt):
    out = []
    for v in CATALOGUE:
        try:
            r = dt.validate(v)
            out.append(['ok', canon(dt.export_value(r))])
        except Exception as e:  # the class of the error is the observation
            out.append([type(e).__name__])
    return out


def dt_objects(dt, path, acc):
    """(path, object) for the datatype object, member datatypes and enum objects below it"""
    from frappy import datatypes as D
    if dt is None:
        return
    acc.append((path, dt))
    if isinstance(dt, D.EnumType):
        acc.append((path + '/enum', dt._enum))
    elif isinstance(dt, D.ArrayOf):
        dt_objects(dt.members, path + '/0', acc)
    elif isinstance(dt, D.TupleOf):
        for i, m in enumerate(dt.members):
            dt_objects(m, path + '/%d' % i, acc)
    elif isinstance(dt, D.StructOf):
        for i, k in enumerate(sorted(dt.members)):
            dt_objects(dt.members[k], path + '/%d' % i, acc)


def outcome(f, *args):
    import copy
    try:
        return ['ok', canon(f(*copy.deepcopy(args[-1:])) if len(args) == 1 else f(*args[:-1], copy.deepcopy(args[-1])))]
    except Exception as e:  # the class of the error is the observation
        return [type(e).__name__]


def write_probe(aobj, aname, modobj):
    """behaviour of the instance: what write_<p>(v) does, through the generated wrapper"""
    from frappy.params import Parameter
    if not isinstance(aobj, Parameter):
        return None
    wfunc = getattr(modobj, 'write_' + aname, None)
    return [outcome(lambda v: aobj.datatype.export_value(wfunc(v)), v) for v in WRITE_CATALOGUE] if wfunc else None


def dump_accessible(aobj, objs, aname, modobj=None, writes=None):
    from frappy.params import Parameter
    isparam = isinstance(aobj, Parameter)
    d = {'cmd': not isparam}
    if modobj is not None and isparam:
        # the write probes of ALL parameters of the module are done before anything else is looked at: they leave the last
        # accepted value in the parameter (and, through callbacks, in parameters following it), in every dump alike
        d['writes'] = writes
        # a name declared as StructParam somewhere in the chain: its write_<p> is the generated struct write function (it passes
        # the members on to THEIR write functions), not the plain "validate and store" the monitor writesOwnB is about
        from frappy.extparams import StructParam
        if any(isinstance(vars(c).get(aname), StructParam) for c in type(modobj).__mro__):
            d['struct_write'] = True
        d['validates'] = [outcome(lambda v: aobj.datatype.export_value(aobj.datatype.validate(v)), v) for v in WRITE_CATALOGUE]
    props = {}
    for pn, po in aobj.propertyDict.items():       # what exportProperties() does, the datatype apart
        if pn == 'datatype' or not po.export:
            continue
        val = aobj.propertyValues.get(pn, po.default)
        if po.export == 'always' or val != po.default:
            try:
                val = po.datatype.export_value(val)
            except AttributeError:
                pass
            props[po.extname] = val
    d['props'] = sorted([k, jtext(canon(v))] for k, v in props.items())
    d['export'] = jtext(canon(aobj.export))
    objs.append((aname, aobj))
    if isparam:
        dt = aobj.datatype if 'datatype' in aobj.propertyValues else None
        d['datainfo'] = dt_tree(dt)
        d['internal'] = sorted([k, jtext(canon(v))] for k, v in aobj.propertyValues.items() if k in ('default', 'value'))
        d['catalogue'] = catalogue(dt) if dt is not None else None
        dt_objects(dt, aname + '/dt', objs)
    else:
        d['datainfo'] = ['command', [], [dt_tree(aobj.argument), dt_tree(aobj.result)], None]
        dt_objects(aobj.argument, aname + '/dt', objs)
        if aobj.argument is not None:      # argument checking: through do() on an instance, through the datatype on a class
            if modobj is not None:
                d['calls'] = [outcome(aobj.do, modobj, v) for v in ARG_CATALOGUE]
            else:
                d['calls'] = [outcome(lambda v: aobj.argument.validate(aobj.argument.import_value(v)), v) for v in ARG_CATALOGUE]
    try:       # the real thing must agree with what was assembled above
        exp = dict(aobj.for_export())
        exp.pop('datainfo', None)
        d['for_export'] = sorted([k, jtext(canon(v))] for k, v in exp.items()) == d['props'] or \
            sorted([k, jtext(canon(v))] for k, v in exp.items())
    except Exception as e:
        d['for_export'] = type(e).__name__
    for k, v in aobj.propertyValues.items():
        if isinstance(v, (list, dict, set)):     # a mutable property value is an object of its own
            objs.append((aname + '/prop/' + k, v))
    return d


_TYPE_TAG = {}


def ns_value(v, depth=0):
    """canonical form of a value found in a class namespace / an instance __dict__: plain data by content (containers
    recursively), everything else (functions, descriptors, Parameter/Property/datatype objects - dumped elsewhere -, locks,
    loggers) by the name of its type.  No addresses, no reprs."""
    if isinstance(v, bool) or v is None or isinstance(v, (str, int)):
        return v
    if isinstance(v, float):
        return canon(v)
    if isinstance(v, type):
        return 'class ' + v.__name__
    if type(v).__name__ == 'Enum' and hasattr(v, 'members'):       # frappy.lib.enum.Enum (e.g. `cls.Status`): names and codes
        return {'enum': sorted([m.name, int(m.value)] for m in v.members)}
    if depth > 4:
        return '...'
    if isinstance(v, dict):
        return {'dict': sorted(([k if isinstance(k, str) else '#' + jtext(ns_value(k, depth + 1)), ns_value(x, depth + 1)]
                                for k, x in v.items()), key=lambda kv: kv[0])}
    if isinstance(v, (list, tuple)):
        return {type(v).__name__: [ns_value(x, depth + 1) for x in v]}
    if isinstance(v, (set, frozenset)):
        return {'set': sorted(x if isinstance(x, str) else '#' + jtext(ns_value(x, depth + 1)) for x in v)}
    return _TYPE_TAG.get(type(v)) or _TYPE_TAG.setdefault(type(v), '<' + type(v).__name__ + '>')


def is_code(v):
    import types
    return isinstance(v, (types.FunctionType, types.BuiltinFunctionType, types.MethodDescriptorType, types.WrapperDescriptorType,
                          types.GetSetDescriptorType, types.MemberDescriptorType, property, classmethod, staticmethod))


def ns_digest(namespace, data_only=False):
    """what a class (its `__dict__`) or an instance (`vars()`) holds besides what is dumped in detail: every name with the
    canonical form of its value.  State cached on a class by somebody else (an attribute that appears, a class-level
    container that grows) is state shared by all its instances and inherited by its subclasses."""
    return sorted([k, ns_value(v)] for k, v in namespace.items() if k not in ('__doc__', '__module__', '__qualname__', 'name')
                  and not (data_only and is_code(v)))


def control_probe(modobj, calls):
    """behaviour of a module with input callbacks (mixins.py: HasControlledBy): which inputs are registered with THIS module,
    and which of the registered callbacks `self_controlled()` / `update_target()` call in every state of `controlled_by`.
    `calls`: the record the callbacks of this program write to."""
    if not hasattr(modobj, 'register_input') or 'controlled_by' not in modobj.parameters:
        return None
    pobj = modobj.parameters['controlled_by']
    out = {'inputs': outcome(lambda _: sorted(modobj.inputCallbacks), None)}
    try:
        members = sorted((int(v), k) for k, v in pobj.datatype.export_datatype()['members'].items())
    except Exception as e:
        return dict(out, members=type(e).__name__)
    saved_cb, saved_tg = pobj.value, modobj.parameters['target'].value if 'target' in modobj.parameters else None
    probes = []
    for val, mname in members:
        for what in ('self_controlled', 'update_target'):
            del calls[:]
            try:
                pobj.value = pobj.datatype(val)          # the state: who is in control
                if what == 'self_controlled':
                    modobj.self_controlled()
                else:
                    modobj.update_target('#other', saved_tg)
                res = 'ok'
            except Exception as e:
                res = type(e).__name__
            probes.append([mname, what, res, sorted(calls)])
    pobj.value = saved_cb
    if 'target' in modobj.parameters:
        modobj.parameters['target'].value = saved_tg
    del calls[:]
    out['probes'] = probes
    return out


def dump_section(section):
    """a loaded module section (frappy.config.Mod without its name): every entry in dict order; a Param object by its items"""
    out = []
    for k, v in section.items():
        if k == 'cls':
            out.append([k, v.__name__ if isinstance(v, type) else str(v)])
        elif isinstance(v, dict):
            out.append([k, [[pk, jtext(canon(pv))] for pk, pv in v.items()]])
        else:
            out.append([k, jtext(canon(v))])
    return out


def dump_owner(owner, is_class, calls=None):
    """-> (dump, [(path, object)])"""
    objs = []
    accs = []
    accessibles = owner.__dict__.get('accessibles') if is_class else owner.accessibles
    if accessibles is None:       # a mixin not derived from HasAccessibles: its Parameter objects are its state
        from frappy.params import Accessible
        accessibles = {k: v for k, v in owner.__dict__.items() if isinstance(v, Accessible)}
    writes = {} if is_class else {aname: write_probe(aobj, aname, owner) for aname, aobj in accessibles.items()}
    for aname, aobj in accessibles.items():
        accs.append([aname, dump_accessible(aobj, objs, aname, None if is_class else owner, writes.get(aname))])
    if is_class:
        pd = property_objects(owner)
        mprops = [[pn] + dump_property(po) for pn, po in pd.items()]
        objs += [('@prop/' + pn, po) for pn, po in pd.items()]
        return {'acc': accs, 'mprops': mprops, 'ns': ns_digest(owner.__dict__)}, objs
    mprops = sorted([k, jtext(canon(v))] for k, v in owner.exportProperties().items() if k != 'implementation')
    mvals = [[pn, pexport(po, owner.propertyValues.get(pn, po.default))] for pn, po in owner.propertyDict.items()]
    d = {'acc': accs, 'mprops': mprops, 'mvals': mvals}
    ctrl = control_probe(owner, calls if calls is not None else [])
    if ctrl is not None:
        d['ctrl'] = ctrl
    d['ns'] = ns_digest(vars(owner))        # last: the state the probes above leave behind is the same in every dump
    return d, objs


def partition(all_objs):
    """all_objs: [(owner, path, object)] -> sorted list of groups (each a sorted list of 'owner:path') with >= 1 member,
    as a canonical sharing pattern: list of classes of size >= 2"""
    by_id = {}
    for owner, path, obj in all_objs:
        by_id.setdefault(id(obj), []).append(f'{owner}:{path}')
    return sorted(sorted(g) for g in by_id.values() if len(g) > 1)


# ----------------------------------------------------------------------------------------
# running a program on the real code
# ----------------------------------------------------------------------------------------
class _Log:
    handlers = []
    parent = property(lambda self: self)

    def __getattr__(self, name):
        return lambda *a, **k: None

    def getChild(self, *a):
        return self


class _Disp:
    def announce_update(self, *a, **k):
        pass


class _Srv:
    def __init__(self):
        self.dispatcher = _Disp()
        self.secnode = None
        self.module_cfg = {}


HA_BUILTINS = ROOTS + ['Feature']           # frappy's own classes below HasAccessibles (the mixins are outside)


def builtin_owners():
    import frappy.modules as M
    import frappy.mixins as X
    from frappy.modulebase import Feature
    return {'Module': M.Module, 'Readable': M.Readable, 'Writable': M.Writable, 'Drivable': M.Drivable,
            'Feature': Feature, 'HasControlledBy': X.HasControlledBy, 'HasOutputModule': X.HasOutputModule}


_lib = {}


def lib_owners():
    """the classes of frappy every module class is built FROM - datatype classes, Parameter/Command and their special
    subclasses, Property: their class-level state (the property tables `propertyDict`, anything kept on the class) is shared
    by all parameters of all modules of the process.  Owners `lib:<name>`: judged (nothing a program does may change them),
    not predicted by the model."""
    if not _lib:
        import frappy.datatypes as D
        import frappy.params as P
        import frappy.properties as R
        import frappy.extparams as X
        for mod in (R, D, P, X):
            for n, c in vars(mod).items():
                if isinstance(c, type) and c.__module__ == mod.__name__ and (issubclass(c, R.HasProperties) or c is R.Property):
                    _lib.setdefault(n, c)
    return _lib


def dump_lib(cls):
    pd = cls.__dict__.get('propertyDict') or {}
    out = {'ns': ns_digest(cls.__dict__, data_only=True)}     # methods of frappy's own classes are not data
    try:
        out['pd'] = [[pn] + dump_property(po) for pn, po in pd.items()]
    except Exception as e:
        out['pd'] = type(e).__name__
    return out


def snapshot(ex):
    """dumps of every live owner: frappy's own classes, every generated class, every instance, every loaded module
    section of the configuration; and the id()-partition of their objects"""
    dumps, objs = {}, []
    for name, c in list(builtin_owners().items()) + list(ex.classes.items()):
        try:
            d, o = dump_owner(c, True)
        except Exception as e:
            d, o = {'dump_error': type(e).__name__}, []
        dumps['cls:' + name] = d
        objs += [('cls:' + name, p, x) for p, x in o]
    for name, i in ex.insts.items():
        try:
            d, o = dump_owner(i, False, ex.calls)
        except Exception as e:
            d, o = {'dump_error': type(e).__name__}, []
        dumps['inst:' + name] = d
        objs += [('inst:' + name, p, x) for p, x in o]
    for name, sec in ex.cfgs.items():
        dumps['cfg:' + name] = {'cfg': dump_section(sec)}
    for name, c in lib_owners().items():
        try:
            dumps['lib:' + name] = dump_lib(c)
        except Exception as e:
            dumps['lib:' + name] = {'dump_error': type(e).__name__}
    return dumps, partition(objs)


def load_section(ex, name, clsname, cfg, share, groups=None):
    """what loading a configuration file does for one module: `Mod(name, cls, description, **entries)` with `Param(...)`
    objects (frappy/config.py:52-86, 113-120).  `share` = {key: [section, key']}: the Param object bound to a name once
    in the file and used for several modules is ONE object in all their sections.  `groups` = {group: [keys]}: `Group(...)`
    arguments (the named parameters of this module get the property `group`)."""
    import copy
    from frappy.config import Mod, Param, Group
    cfg = copy.deepcopy(cfg)
    desc = cfg.pop('description', 'module')
    entries = {k: Param(**v) if isinstance(v, dict) else v for k, v in cfg.items() if v is not None}
    for k, (sec, key) in (share or {}).items():
        entries[k] = ex.cfgs[sec][key]
    for g, members in (groups or {}).items():
        entries[g] = Group(*members)
    mod = Mod(name, ex.classes[clsname], desc, **entries)
    mod.pop('name')       # frappy.config.Config.__init__
    return mod


def create_module(ex, section):
    """what `SecNode.create_modules` does for one module of the loaded configuration (frappy/secnode.py:115-181, the way
    Server._processCfg gets there): a new node is given the loaded configuration and creates the module named `section`
    -> (module object | None, outcome)"""
    from frappy.secnode import SecNode
    from frappy.lib import generalConfig
    generalConfig.testinit()
    srv = _Srv()
    srv.module_cfg = ex.cfgs
    node = srv.secnode = SecNode('node', _Log(), {}, srv)
    obj = node.get_module_instance(section)
    if obj is not None:
        return obj, 'ok'
    return None, 'error:ConfigError' if any(e.startswith('error creating module') for e in node.errors) else 'error:Exception'


_HOOKS = []          # what the member access methods of generated classes do besides their job (set by the context probe)
_HW = {}             # (id(module), parameter) -> the value the hardware of this module shows for this parameter


def member_access(pname):
    """read_<p> / write_<p> of a member of a struct parameter as a driver writes them: the value comes from / goes to the
    hardware of this module.  A driver may talk to other modules from there (cascaded loops, a module watching another one):
    that is what the hooks are for."""
    def read(self):
        for hook in list(_HOOKS):
            hook(self, 'read', pname)
        return _HW.get((id(self), pname), self.parameters[pname].value)

    def write(self, value):
        for hook in list(_HOOKS):
            hook(self, 'write', pname)
        return value
    return read, write


def struct_params(modobj):
    """[(struct parameter name, [(member, parameter name)])] of a module"""
    from frappy.extparams import StructParam
    return [(n, [(m, p.name) for m, p in po.paramdict.items()]) for n, po in modobj.parameters.items()
            if isinstance(po, StructParam) and po.paramdict]


def context_probe(ex):
    """behaviour of one module while ANOTHER module is being accessed.  For every module Y with a struct parameter S: a member
    of S is updated (`Y.<member> = v`: what a driver does when it learns a new value; or Y.read_<member>() with a new value on
    the hardware) and what Y shows afterwards (member, struct) is recorded - on its own ('alone') and from inside a member access
    method of another module X while the struct of X is read / written (`X.read_<T>()`, `X.write_<T>(...)`).
    -> [[key, context, outcome]]; the monitor (Spec/C09.lean: contextFreeB) demands one outcome per key."""
    mods = [(n, o, struct_params(o)) for n, o in ex.insts.items()]
    mods = [(n, o, sp) for n, o, sp in mods if sp]
    out = []
    if len(mods) < 2:
        return out

    def show(y, s, members):
        return outcome(lambda _: [canon(y.parameters[pn].value) for _, pn in members] + [canon(dict(y.parameters[s].value))], None)

    def act(y, how, pn, v):
        if how == 'assign':
            setattr(y, pn, v)
        else:
            _HW[(id(y), pn)] = v
            try:
                getattr(y, 'read_' + pn)()
            finally:
                _HW.pop((id(y), pn), None)

    saved = [(o.parameters[pn], o.parameters[pn].value, o.parameters[pn].readerror)
             for _, o, sp in mods for s_, members in sp for pn in [s_] + [q for _, q in members]]
    try:
        _context_probe(mods, out, show, act)
    finally:
        for pobj, value, err in saved:       # the probe leaves no trace in what the next dumps show
            pobj.value, pobj.readerror = value, err
    return out


def _context_probe(mods, out, show, act):
    for yn, y, ysp in mods[:3]:
        for s, members in ysp[:1]:
            m, pn = members[0]
            for how in ('assign', 'read'):
                key = f'inst:{yn}:{s}.{m}:{how}'
                contexts = [('alone', None, None)]
                for xn, x, xsp in mods[:4]:
                    if x is not y:
                        t = xsp[0][0]
                        contexts.append((f'in inst:{xn}.read_{t}', x, lambda x=x, t=t: getattr(x, 'read_' + t)()))
                        if not x.parameters[t].readonly:
                            contexts.append((f'in inst:{xn}.write_{t}', x,
                                             lambda x=x, t=t: getattr(x, 'write_' + t)(dict(x.parameters[t].value))))
                for cname, x, access in contexts:
                    fired = []

                    def hook(mod, _how, _pn, x=x, fired=fired):
                        if mod is x and not fired:
                            fired.append('ok')
                            try:
                                act(y, how, pn, 2)
                            except Exception as e:       # the class of the error is the observation
                                fired[0] = type(e).__name__
                    try:
                        setattr(y, pn, 1)            # the same start in every context, set outside of any access
                    except Exception:
                        continue
                    start = {'y': yn, 'x': cname.split(':', 1)[1].split('.')[0] if x is not None else None, 'm': m, 'v': jtext(2),
                             'members': [[mm, jtext(canon(y.parameters[q].value))] for mm, q in members],
                             'struct': [[mm, jtext(canon(sv))] for mm, sv in dict(y.parameters[s].value).items()]}
                    if x is None:
                        hook(None, None, None, x=None)
                    else:
                        _HOOKS.append(hook)
                        try:
                            access()
                        except Exception:       # what becomes of the access to X is X's business
                            pass
                        finally:
                            _HOOKS.remove(hook)
                        if not fired:
                            continue
                    out.append([key, cname, show(y, s, members) if fired == ['ok'] else fired, start])


def run_op(op, ex):
    """-> (outcome, target owner key or None, extra)"""
    import frappy.modules as M
    classes, insts = ex.classes, ex.insts
    builtins = builtin_owners()
    kind = op['op']
    extra = {}
    try:
        if kind == 'class':
            bases = tuple(classes[b] if b in classes else builtins[b] for b in op['bases'])
            ns = {}
            resolve = lambda n: classes[n] if n in classes else builtins[n]       # noqa: E731
            for aname, decl in op['decls']:
                ns[aname] = mk_decl(decl, resolve)
                if decl['k'] == 'struct':
                    for m, _ in decl['members']:
                        pname = decl.get('prefix', '') + m
                        ns['read_' + pname], wfunc = member_access(pname)
                        if not decl.get('readonly'):
                            ns['write_' + pname] = wfunc
            ns['__module__'] = 'verif_c09'
            if op.get('mixin'):
                cls = type(op['name'], bases or (object,), ns)
            else:
                cls = type(op['name'], bases, ns)
            classes[op['name']] = cls
            known = {v: k for k, v in list(builtins.items()) + list(classes.items())}
            extra['mro'] = [known[c] for c in cls.__mro__ if c in known]
            return 'ok', 'cls:' + op['name'], extra
        if kind == 'load':
            # a module section of the configuration is loaded (no module is created)
            ex.cfgs[op['name']] = load_section(ex, op['name'], op['cls'], op['cfg'], op.get('share'), op.get('groups'))
            return 'ok', 'cfg:' + op['name'], extra
        if kind == 'inst':
            section = op.get('from')
            if section is None:       # the section is loaded with this operation, under the name of the module
                section = op['name']
                ex.cfgs[section] = load_section(ex, section, op['cls'], op['cfg'], op.get('share'), op.get('groups'))
            elif section not in ex.cfgs:
                return 'skipped', None, extra
            obj, outcome_ = create_module(ex, section)
            if obj is None:
                return outcome_, _target_of(op), extra
            insts[op['name']] = obj
            return 'ok', 'inst:' + op['name'], extra
        if kind == 'mutate':
            obj = insts[op['inst']]
            if op['kind'] == 'setprop' and op.get('path'):
                # a property of a member datatype of the datatype of this instance's parameter
                dt_at(obj.accessibles[op['par']].datatype, op['path']).setProperty(op['key'], op['val'])
            elif op['kind'] == 'setprop':
                obj.accessibles[op['par']].setProperty(op['key'], op['val'])
            elif op['kind'] == 'write':
                getattr(obj, 'write_' + op['par'])(op['val'])
            elif op['kind'] == 'enum' and op['par'] == 'controlled_by' and hasattr(obj, 'register_input'):
                # the real thing (what <controller module>.initModule does): the callback records who calls it
                tag = [op['inst'], op['member']]
                extra['registered'] = True
                obj.register_input(op['member'], lambda source=None, _tag=tag: ex.calls.append(_tag + [source]))
            elif op['kind'] == 'enum':
                from frappy.mixins import HasControlledBy
                # the body of HasControlledBy.register_input, for any enum parameter of the instance
                HasControlledBy.register_input.__get__(_Proxy(obj, op['par']))(op['member'], None)
            return 'ok', 'inst:' + op['inst'], extra
        raise ValueError(kind)
    except (KeyError, IndexError) as e:
        if kind in ('inst', 'load') and op.get('cls') not in classes or kind == 'mutate' and op.get('inst') not in insts:
            return 'skipped', None, extra        # refers to a class/instance whose creation failed
        return 'error:' + type(e).__name__, _target_of(op), extra
    except Exception as e:
        return 'error:' + type(e).__name__, _target_of(op), extra


def _target_of(op):
    if op['op'] == 'class':
        return 'cls:' + op['name']
    if op['op'] == 'load':
        return 'cfg:' + op['name']
    if op['op'] == 'inst':
        return 'inst:' + op['name']
    return 'inst:' + op['inst']


class _Proxy:
    """lets register_input (written for the parameter 'controlled_by') act on a chosen enum parameter"""

    def __init__(self, obj, par):
        self.__dict__['_obj'] = obj
        self.__dict__['parameters'] = {'controlled_by': obj.parameters[par]}
        self.__dict__['inputCallbacks'] = {}


class CaseTimeout(BaseException):
    """a case ran into its time limit (BaseException: must pass the `except Exception` that records operation outcomes)"""


class time_limit:
    """per-case wall clock limit (SIGALRM); a hang of the code under test becomes a harness problem (exit 2), never a verdict"""

    def __init__(self, seconds):
        self.seconds = seconds

    def _fire(self, *args):
        raise CaseTimeout(f'case exceeded {self.seconds} s')

    def __enter__(self):
        import signal
        self.old = signal.signal(signal.SIGALRM, self._fire)
        signal.alarm(self.seconds)

    def __exit__(self, *exc):
        import signal
        signal.alarm(0)
        signal.signal(signal.SIGALRM, self.old)
        return False


CASE_LIMIT = int(os.environ.get('VERIF_CASE_TIMEOUT') or 60)
JOBS = int(os.environ.get('VERIF_JOBS') or min(16, os.cpu_count() or 4))


# ----------------------------------------------------------------------------------------
# every run of a program happens in a process of its own
# ----------------------------------------------------------------------------------------
def preload():
    """everything of frappy a program uses is imported before the first case: the process of a case is a fork of this one"""
    import frappy.modules, frappy.mixins, frappy.secnode, frappy.config, frappy.extparams     # noqa  pylint: disable=all
    import frappy.datatypes, frappy.params, frappy.properties, frappy.modulebase            # noqa  pylint: disable=all
    from frappy.lib import generalConfig
    generalConfig.testinit()
    builtin_owners()
    lib_owners()


def _child(func, args, wfd):
    import gc
    import pickle
    import traceback
    try:
        gc.freeze()       # what the parent holds is never collected here: the collector does not touch (and copy) its pages
        try:
            with time_limit(CASE_LIMIT):
                out = ('ok', func(*args))
        except CaseTimeout as e:
            out = ('timeout', str(e))
        except BaseException:       # pylint: disable=broad-except
            out = ('crash', traceback.format_exc())
        with os.fdopen(wfd, 'wb') as f:
            f.write(pickle.dumps(out, 4))
    finally:
        os._exit(0)


def fresh_many(jobs):
    """[(func, args)] -> [func(*args)], each evaluated in a process of its own, forked from THIS process - which has imported
    frappy and never defines a class, creates a module or builds a Parameter for a class itself.  'No other class was defined,
    no other module created before' is meant literally: whatever a program leaves behind anywhere in the interpreter (class-level
    tables of frappy's own classes, memos, module-level registries) dies with its process and is never seen by another
    program, by the same program run in another order, or by the harness when it builds the wire format.  The jobs of one
    call run concurrently."""
    return fresh_collect(fresh_start(jobs))


def fresh_start(jobs):
    """starts the processes of the jobs; they run while the caller does something else (waits for the Lean driver)"""
    preload()
    running = []
    for func, args in jobs:
        rfd, wfd = os.pipe()
        pid = os.fork()
        if pid == 0:
            os.close(rfd)
            for r, _ in running:
                os.close(r)
            _child(func, args, wfd)
        os.close(wfd)
        running.append((rfd, pid))
    return running


def fresh_collect(running):
    import pickle
    import select
    import signal
    import time
    results = []
    deadline = time.time() + CASE_LIMIT + 30
    for rfd, pid in running:
        chunks = []
        while True:
            ready, _, _ = select.select([rfd], [], [], max(0.0, deadline - time.time()))
            if not ready:       # the child hangs where SIGALRM does not reach it
                os.kill(pid, signal.SIGKILL)
                chunks = None
                break
            data = os.read(rfd, 1 << 20)
            if not data:
                break
            chunks.append(data)
        os.close(rfd)
        os.waitpid(pid, 0)
        if chunks is None:
            results.append(('timeout', f'case process killed after {CASE_LIMIT + 30} s'))
            continue
        try:
            results.append(pickle.loads(b''.join(chunks)))
        except Exception as e:
            results.append(('crash', f'no result from the case process ({type(e).__name__})'))
    out = []
    for status, val in results:
        if status != 'ok':
            raise RuntimeError(f'{status}: {val}; harness problem, not a verdict')
        out.append(val)
    return out


def pbatch(ctx, groups):
    """[[request]] -> [[answer]]: one driver process per group, all at once (a request line is a complete case, the driver
    keeps no state between lines: vlib.lean.Driver.batch does the same with one process)"""
    import shutil
    import subprocess
    import tempfile
    path = getattr(ctx.driver, 'path', None)
    if path is None or len(groups) < 2:
        return [ctx.driver.batch(g) for g in groups]
    tmp = tempfile.mkdtemp(prefix='c09-drv-')
    try:
        procs = []
        for i, g in enumerate(groups):
            with open(os.path.join(tmp, f'in{i}'), 'w', encoding='utf-8', errors='surrogatepass') as f:
                for r in g:
                    f.write(json.dumps(r, ensure_ascii=False, separators=(',', ':')) + '\n')
            fin, fout = open(os.path.join(tmp, f'in{i}'), 'rb'), open(os.path.join(tmp, f'out{i}'), 'wb')
            procs.append((subprocess.Popen([path], stdin=fin, stdout=fout, stderr=subprocess.DEVNULL), fin, fout))
        out = []
        for i, (pr, fin, fout) in enumerate(procs):
            rc = pr.wait(timeout=3000)
            fin.close()
            fout.close()
            with open(os.path.join(tmp, f'out{i}'), 'rb') as f:
                lines = f.read().split(b'\n')
            if lines and lines[-1] == b'':
                lines.pop()
            if len(lines) != len(groups[i]):
                raise RuntimeError(f'driver answered {len(lines)} lines for {len(groups[i])} requests; rc={rc}')
            out.append([json.loads(x.decode('utf-8', 'replace')) for x in lines])
        return out
    finally:
        shutil.rmtree(tmp, ignore_errors=True)


def fresh(func, *args):
    return fresh_many([(func, args)])[0]


def with_texts(program, init, steps):
    """the canonical text of every dump (what the monitors compare) is made where the dump is made"""
    init['text'] = text_dumps(init['dumps'])
    for st in steps:
        st['text'] = text_dumps(st['after'])
    return program, init, steps


def job_generate(seed, big):
    import random
    return with_texts(*gen_program(random.Random(seed), big))


def job_run(program):
    return with_texts(program, *impl_run(program))[1:]


class Exec:
    """runs operations one by one on the real code, dumping every live owner after each"""

    def __init__(self):
        self.classes, self.insts = {}, {}
        self.cfgs = {}           # the loaded configuration: section name -> module section (what srv.module_cfg holds)
        self.calls = []          # what the input callbacks registered by this program record when they are called
        self.anc = {}            # generated class -> set of all its ancestors (names), filled from the real __mro__
        self.steps = []
        dumps, part = snapshot(self)
        self.init = {'dumps': dumps, 'part': part}

    def apply(self, op):
        outcome, target, extra = run_op(op, self)
        after, part = snapshot(self)
        st = {'op': op, 'outcome': outcome, 'target': target, 'after': after, 'part': part, 'ctx': context_probe(self)}
        st.update(extra)
        if op['op'] == 'class' and outcome == 'ok':
            cls = self.classes[op['name']]
            self.anc[op['name']] = {c.__name__ for c in cls.__mro__[1:]}
        self.steps.append(st)
        return st


def impl_run(program):
    """runs the program; returns (init, steps): init = dumps before, steps [{op, outcome, target, mro?, after, part}]"""
    ex = Exec()
    for op in program['ops']:
        ex.apply(op)
    return ex.init, ex.steps


# ----------------------------------------------------------------------------------------
# generators
# ----------------------------------------------------------------------------------------
PNAMES = ['p', 'q', 'e', 's', 'arr', 'value', 'target', 'status', 'pollinterval']
CNAMES = ['c', 'stop', 'go']
DESCS = ['d0', 'd1', 'd2', 'long description', 'x y']
UNITS = ['K', 'mm', '$', 'V/s']
ROOT_KINDS = {
    'Module': {},
    'Readable': {'value': 'float', 'status': 'tuple', 'pollinterval': 'float'},
    'Writable': {'value': 'float', 'status': 'tuple', 'pollinterval': 'float', 'target': 'float'},
    'Drivable': {'value': 'float', 'status': 'tuple', 'pollinterval': 'float', 'target': 'float', 'stop': 'cmd'},
}


BUILTIN_MIXINS = ['HasControlledBy', 'HasOutputModule']
BUILTIN_MIXIN_KINDS = {'Feature': {}, 'HasControlledBy': {'controlled_by': 'enum'}, 'HasOutputModule': {'control_active': 'bool'}}


def gen_member(rng, depth):
    """a member datatype of a tuple / struct: mostly a leaf, sometimes a container again"""
    if depth < 2 and rng.random() < 0.15:
        return gen_dt(rng, rng.choice(['array', 'tuple', 'limits']), depth)
    return gen_dt(rng, rng.choice(['float', 'float', 'int', 'string', 'enum', 'bool']), depth)


# module-level properties: the ones of frappy's Module that a class body or a configuration may set, and custom ones
MPROP_ROOT = {'group': 'str', 'visibility': 'vis', 'slowinterval': 'interval', 'meaning': 'meaning'}
MPROP_CUSTOM = {'vendor': 'str', 'serial': 'int', 'gain': 'float'}
MPROP_VALUES = {'str': ['cryo', 'magnet', 'x'], 'vis': [1, 2, 3], 'interval': [20, 70, 0.5], 'meaning': [['temperature', 10], ['x', 1]],
                'int': [1, 7, 42], 'float': [0.5, 2, 10]}
MPROP_BAD = {'str': 5, 'vis': 9, 'interval': 1000, 'meaning': 'x', 'int': 'a', 'float': 'b'}


def gen_mvalue(rng, kind):
    return MPROP_BAD[kind] if rng.random() < 0.06 else rng.choice(MPROP_VALUES[kind])


def gen_mdecl(rng, pn, known, is_mixin):
    """a class-body entry under the name of a module property: mostly a bare value for a known property (the Property is
    copied for the class), or a Property(...) declaration (new custom property, or replacing an inherited one)"""
    kind = known.get(pn) or MPROP_CUSTOM.get(pn) or MPROP_ROOT[pn]
    if (pn in known or is_mixin and pn in MPROP_ROOT) and rng.random() < 0.85:
        if rng.random() < 0.03:
            return kind, {'k': 'method'}
        return kind, {'k': 'value', 'v': gen_mvalue(rng, kind)}
    if pn in MPROP_ROOT:
        return kind, {'k': 'value', 'v': gen_mvalue(rng, kind)}
    d = {'k': 'prop', 'dt': kind}
    if rng.random() < 0.85:
        d['default'] = rng.choice(MPROP_VALUES[kind])
    if rng.random() < 0.3:
        d['value'] = rng.choice(MPROP_VALUES[kind])
    r = rng.random()
    if r < 0.4:
        d['extname'] = pn
    elif r < 0.7:
        d['export'] = rng.choice([True, True, 'always'])
    return kind, d


def gen_dt(rng, kind=None, depth=0):
    kind = kind or rng.choice(['float', 'float', 'int', 'int', 'string', 'bool', 'enum', 'array', 'tuple', 'struct', 'limits', 'text'])
    if kind == 'float':
        props = {}
        lo = rng.choice([None, 0, -5, 1, 2])
        hi = rng.choice([None, 10, 100, 5, 7])
        if lo is not None:
            props['min'] = lo
        if hi is not None:
            props['max'] = hi
        if rng.random() < 0.4:
            props['unit'] = rng.choice(UNITS)
        elif depth and rng.random() < 0.4:      # inside a container: a unit following the main unit of the module
            props['unit'] = rng.choice(['$', '$/s'])
        return {'t': 'float', 'props': props}
    if kind == 'tuple':
        return {'t': 'tuple', 'props': {}, 'children': [gen_member(rng, depth + 1) for _ in range(rng.choice([2, 2, 3]))]}
    if kind == 'struct':
        return {'t': 'struct', 'props': {}, 'members': {n: gen_member(rng, depth + 1) for n in rng.choice([['a', 'b'], ['a', 'b', 'c']])}}
    if kind == 'limits':
        return {'t': 'limits', 'props': {}, 'child': gen_dt(rng, rng.choice(['float', 'float', 'int']), depth + 1)}
    if kind == 'text':
        return {'t': 'text', 'props': {'maxchars': rng.choice([5, 10, 40])} if rng.random() < 0.5 else {}}
    if kind == 'int':
        props = {}
        lo = rng.choice([None, 0, -5, 1, 2])
        hi = rng.choice([None, 10, 100, 5, 7])
        if lo is not None:
            props['min'] = lo
        if hi is not None:
            props['max'] = hi
        return {'t': 'int', 'props': props}
    if kind == 'string':
        props = {}
        if rng.random() < 0.6:
            props['maxchars'] = rng.choice([3, 5, 10, 40])
        return {'t': 'string', 'props': props}
    if kind == 'bool':
        return {'t': 'bool', 'props': {}}
    if kind == 'enum':
        names = rng.sample(['self', 'a', 'b', 'off', 'on', 'm1'], rng.randint(1, 4))
        vals = rng.sample(range(0, 8), len(names))
        return {'t': 'enum', 'props': {}, 'members': dict(zip(names, vals))}
    child = gen_dt(rng, rng.choice(['float', 'int', 'enum', 'string'] if depth == 0 else ['float', 'int']), depth + 1)
    props = {'maxlen': rng.choice([2, 3, 5, 8])}
    if rng.random() < 0.3:
        props['minlen'] = rng.choice([0, 1, 2])
    return {'t': 'array', 'props': props, 'child': child}


STATUS_STD = ['BUSY', 'RAMPING', 'DISABLED', 'STANDBY', 'UNKNOWN', 'FINALIZING']
STATUS_NAMES = ['TRIPPED', 'INTERLOCK', 'QUENCH']
STATUS_CODES = [410, 410, 420]
SNAMES = ['ctrl', 'pars']
SMEMBERS = [['kp', 'ki'], ['kp', 'ki', 'kd'], ['speed', 'backlash']]


def gen_status(rng, parents, used):
    """a status datatype extending the status of a class (mostly a base of the class being defined) by standard codes and
    by custom codes.  Constants used before in this program (lists of standard codes, custom code numbers) are used again
    with preference: independent class families tend to extend their status in parallel ways."""
    parent = rng.choice(parents) if parents and rng.random() < 0.93 else None
    if used['std'] and rng.random() < 0.6:
        std = list(rng.choice(used['std']))
    else:
        std = rng.sample(STATUS_STD, rng.choice([0, 1, 1, 2]))
    custom = {}
    if rng.random() < (0.55 if used['codes'] else 0.9):
        code = rng.choice(used['codes']) if used['codes'] and rng.random() < 0.7 else rng.choice(STATUS_CODES)
        custom[rng.choice(STATUS_NAMES)] = code
        used['codes'].append(code)
    used['std'].append(std)
    return {'t': 'status', 'parent': parent, 'std': std, 'custom': custom}


def gen_struct(rng):
    members = rng.choice(SMEMBERS)
    return {'k': 'struct', 'desc': rng.choice(DESCS), 'prefix': rng.choice(['', '', 'c_']), 'readonly': rng.random() < 0.2,
            'members': [[m, gen_dt(rng, rng.choice(['float', 'float', 'int']))] for m in members]}       # in this order


def gen_dtprops(rng, kind):
    """datatype properties given without a datatype (applied to the inherited one)"""
    r = rng.random()
    if r < 0.1:      # a property the inherited datatype may not have
        return {rng.choice(['min', 'max', 'unit', 'maxchars', 'maxlen', 'nosuch']): rng.choice([1, 4, 'K'])}
    if kind in ('float', 'int'):
        out = {}
        if rng.random() < 0.6:
            out['max'] = rng.choice([3, 4, 6, 9, 50])
        if rng.random() < 0.4:
            out['min'] = rng.choice([-3, 0, 1, 2, 4])
        if kind == 'float' and rng.random() < 0.3:
            out['unit'] = rng.choice(UNITS)
        return out
    if kind in ('string', 'text'):
        return {'maxchars': rng.choice([2, 4, 12])} if rng.random() < 0.7 else {}
    if kind == 'array':       # of the array itself, or of its elements (ArrayOf.setProperty passes them on)
        return rng.choice([{'maxlen': rng.choice([4, 6])}, {'max': rng.choice([4, 6])}, {}, {'min': rng.choice([0, 1])},
                           {'max': rng.choice([4, 6, 50]), 'min': 0}, {'unit': rng.choice(UNITS)}])
    return {}


def gen_pprops(rng, kind):
    out = {}
    if rng.random() < 0.4:
        out['readonly'] = rng.random() < 0.5
    if rng.random() < 0.25:
        out['group'] = rng.choice(['g1', 'g2'])
    if rng.random() < 0.2:
        out['visibility'] = rng.choice([1, 2, 3])
    if rng.random() < 0.35 and kind in ('float', 'int', 'string', 'bool', None):
        v = rng.choice([0, 1, 2, 3, 5, 8]) if kind != 'string' else rng.choice(['', 'ab', 'abcdefgh'])
        if kind == 'bool':
            v = rng.random() < 0.5
        out[rng.choice(['default', 'default', 'value'])] = v
    return out


def gen_bare(rng, kind):
    if rng.random() < 0.1:
        return rng.choice(['zz', 77, [1]])
    if kind in ('float', 'int'):
        return rng.choice([0, 1, 2, 3, 5, 8])
    if kind == 'string':
        return rng.choice(['', 'ab', 'abcdefgh'])
    if kind == 'bool':
        return rng.random() < 0.5
    if kind == 'enum':
        return rng.choice([0, 1, 2, 'a', 'self'])
    if kind == 'array':
        return rng.choice([[], [1], [1, 2, 3]])
    if kind in ('tuple', 'limits'):
        return rng.choice([[1, 2], [0, 5], [3, 3]])
    if kind == 'struct':
        return rng.choice([{'a': 1, 'b': 2}, {'a': 0, 'b': 0, 'c': 1}])
    return rng.choice([0, 'x'])


def is_cmd(kind):
    return isinstance(kind, str) and kind.startswith('cmd')


def gen_cmd_arg(rng, d):
    """gives the command declaration `d` an argument: nothing, a simple datatype, or a struct with a method signature"""
    r = rng.random()
    if r < 0.4:
        return d
    if r < 0.65:
        d['arg'] = gen_dt(rng, rng.choice(['float', 'int', 'string']))
        return d
    names = rng.choice([['a', 'b'], ['a', 'b'], ['a', 'b', 'c']])
    d['arg'] = {'t': 'struct', 'props': {}, 'members': {n: gen_dt(rng, rng.choice(['float', 'int'])) for n in names}}
    d['sig'] = {'names': names, 'defaults': [n for n in names if rng.random() < 0.5]}
    return d


def gen_decl(rng, known_kind, is_mixin):
    """known_kind: None (new name), 'cmd' / 'cmd:<struct members>', or a datatype kind of the inherited parameter"""
    r = rng.random()
    if is_cmd(known_kind):
        members = known_kind[4:].split(',') if ':' in known_kind else None
        if r < 0.45:
            d = {'k': 'method'}
            if members:       # a plain method over a command with a struct argument: its defaults decide what is optional
                names = members if rng.random() < 0.95 else members[:-1] + ['zz']
                d['sig'] = {'names': names, 'defaults': [n for n in names if rng.random() < 0.5]}
            return d
        if r < 0.8:
            d = {'k': 'cmd', 'props': {}, 'inherit': rng.random() > 0.25}
            if rng.random() < 0.5:
                d['desc'] = rng.choice(DESCS)
            if rng.random() < 0.3:
                d['props']['group'] = rng.choice(['g1', 'g2'])
            return gen_cmd_arg(rng, d)
        if r < 0.9:
            return {'k': 'none'}
        return {'k': 'value', 'v': 3}
    if known_kind is None and not is_mixin:
        if r < 0.12:
            return gen_cmd_arg(rng, {'k': 'cmd', 'desc': rng.choice(DESCS), 'props': {}, 'inherit': True})
        dt = gen_dt(rng)
        return {'k': 'param', 'desc': rng.choice(DESCS), 'dt': dt, 'props': gen_pprops(rng, dt['t']), 'inherit': True}
    # override of a known parameter (or a mixin declaring a parameter somebody else is expected to have)
    if r < 0.36:
        props = gen_dtprops(rng, known_kind)
        props.update(gen_pprops(rng, known_kind))
        d = {'k': 'param', 'props': props, 'inherit': True}
        if rng.random() < 0.3:
            d['desc'] = rng.choice(DESCS)
        return d
    if r < 0.5:
        dt = gen_dt(rng)
        d = {'k': 'param', 'dt': dt, 'props': gen_pprops(rng, dt['t']), 'inherit': True}
        if rng.random() < 0.6:
            d['desc'] = rng.choice(DESCS)
        return d
    if r < 0.6:
        dt = gen_dt(rng)
        d = {'k': 'param', 'dt': dt, 'props': gen_pprops(rng, dt['t']), 'inherit': False}
        if rng.random() < 0.7:
            d['desc'] = rng.choice(DESCS)
        return d
    if r < 0.66:
        return {'k': 'param', 'props': gen_pprops(rng, known_kind), 'inherit': False}
    if r < 0.72:
        return {'k': 'param', 'props': {}, 'inherit': True}       # `target = Parameter()`
    if is_mixin:
        dt = gen_dt(rng)
        return {'k': 'param', 'desc': rng.choice(DESCS), 'dt': dt, 'props': gen_pprops(rng, dt['t']), 'inherit': True}
    if r < 0.9:
        return {'k': 'value', 'v': gen_bare(rng, known_kind)}
    if r < 0.97:
        return {'k': 'none'}
    return {'k': 'method'}


def with_dtkw(rng, d):
    """datatype properties as keywords of a Parameter that is given a datatype: `Parameter('..', ArrayOf(FloatRange()), max=5)`"""
    if d.get('k') == 'param' and d.get('dt') and d['dt']['t'] in ('float', 'int', 'string', 'text', 'array') and rng.random() < 0.3:
        kw = gen_dtprops(rng, d['dt']['t'])
        if kw:
            d['dtkw'] = kw
    return d


def decl_kind(decl, prev):
    if decl['k'] == 'param':
        if decl.get('dt') and decl['dt']['t'] == 'status':
            return 'tuple'
        return decl['dt']['t'] if decl.get('dt') else prev
    if decl['k'] == 'struct':
        return 'struct'
    if decl['k'] == 'cmd':
        arg = decl.get('arg')
        return 'cmd:' + ','.join(arg['members']) if arg and arg['t'] == 'struct' else 'cmd'
    if decl['k'] == 'method':
        return prev
    if decl['k'] == 'none':
        return None
    return prev


def related(ex, a, b):
    return a == b or a in ex.anc.get(b, ()) or b in ex.anc.get(a, ())


def gen_program(rng, big):
    """classes, instances and mutations in a generated order; every operation is run on the real code as soon as it is
    generated, so that later operations refer to what exists.  -> (program, init, steps)"""
    ex = Exec()
    kinds = {r: dict(v) for r, v in ROOT_KINDS.items()}      # class name -> {aname: kind} (generator's estimate)
    mkinds = {r: dict(MPROP_ROOT) for r in ROOT_KINDS}       # class name -> {module property name: kind}
    mvalued = {r: set() for r in ROOT_KINDS}                 # class name -> module properties carrying a value in its chain
    kinds.update({b: dict(v) for b, v in BUILTIN_MIXIN_KINDS.items()})
    mixins = []
    features = []            # classes below frappy's Feature: a direct subclass is reported in the module property 'features'
    modules = []
    insts = {}
    sections = {}            # loaded module sections: name -> (class, {key: kind of the parameter it was written for})
    ops = []
    nops = rng.randint(3, 14 if big else 8)
    ncls = 0
    # scenario: most programs mix everything; some concentrate on class families extending the status codes, some on
    # modules with struct parameters (several of them, to be accessed while another one is)
    theme = rng.choice([None] * 7 + ['status', 'status', 'struct'])
    if theme:
        nops = max(nops, 9 if theme == 'status' else 7)
    p_class, p_inst = {None: (0.45, 0.72), 'status': (0.75, 0.9), 'struct': (0.3, 0.85)}[theme]
    used = {'std': [], 'codes': []}
    status_classes = {}      # classes declaring a status: name -> (bases, status datatype)
    mirror = {}              # class -> the class declared in parallel to it (an independent family built the same way)
    for _ in range(nops):
        r = rng.random()
        todo = [c for c in status_classes if c not in mirror and c not in mirror.values()]
        if theme == 'status' and todo and r < p_class and rng.random() < 0.6:
            # a class family of its own built like an existing one: same bases (or their counterparts), the status extended
            # by the same standard codes and the same custom code numbers - under the same or under other names
            a = rng.choice(todo)
            abases, adt = status_classes[a]
            ncls += 1
            name = 'K%d' % ncls
            dt = {'t': 'status', 'parent': mirror.get(adt['parent'], adt['parent']), 'std': list(adt['std']),
                  'custom': {(rng.choice(STATUS_NAMES) if rng.random() < 0.6 else n): c for n, c in adt['custom'].items()}}
            op = {'op': 'class', 'name': name, 'bases': [mirror.get(b, b) for b in abases], 'mixin': False,
                  'decls': [['status', {'k': 'param', 'dt': dt, 'props': {}, 'inherit': True}]]}
            ops.append(op)
            if ex.apply(op)['outcome'] == 'ok':
                kinds[name] = dict(kinds[a])
                mkinds[name] = dict(mkinds.get(a, {}))
                mvalued[name] = set(mvalued.get(a, ()))
                modules.append(name)
                mirror[a] = name
                status_classes[name] = (op['bases'], dt)
            continue
        if r < p_class or not modules:
            ncls += 1
            name = 'K%d' % ncls
            is_mixin = rng.random() < 0.2
            is_feature = not is_mixin and rng.random() < 0.2
            if is_mixin:
                bases = [rng.choice(mixins)] if mixins and rng.random() < 0.2 else []
            elif is_feature:
                bases = [rng.choice(features)] if features and rng.random() < 0.25 else ['Feature']
            else:
                nb = rng.choice([1, 1, 1, 2, 2, 3])
                first = rng.choice(modules) if modules and rng.random() < 0.75 else rng.choice(ROOTS)
                if theme == 'status' and status_classes and rng.random() < 0.6:
                    first = rng.choice(sorted(status_classes))
                bases = [first]
                for _ in range(nb - 1):
                    wild = rng.random() < 0.05
                    cands = [c for c in mixins + mixins + features + features + BUILTIN_MIXINS + modules + ROOTS
                             if wild and c not in bases or not any(related(ex, c, b) for b in bases)]
                    cands = [c for c in cands if c not in ROOTS or wild or all(b in mixins + features + BUILTIN_MIXINS for b in bases)]
                    # the control mixins declare `target = Parameter()`: somebody else has to bring its datatype
                    has_target = any(kinds.get(b, {}).get('target') for b in bases)
                    cands = [c for c in cands if c not in BUILTIN_MIXINS or has_target or rng.random() < 0.1]
                    if not cands:
                        break
                    c = rng.choice(cands)
                    if (c in mixins or c in features or c in BUILTIN_MIXINS) and rng.random() < 0.75:
                        bases.insert(0, c)
                    else:
                        bases.append(c)
            if not is_mixin and not is_feature and features and rng.random() < 0.5:
                # a module class using a feature (usually added by a subclass of a concrete module class)
                f = rng.choice(features)
                if not any(related(ex, f, b) for b in bases):
                    bases.insert(0, f)
            est = {}
            for b in reversed(bases):
                est.update(kinds.get(b, {}))
            decls = []
            names_known = [n for n in est if est[n] is not None]
            if not is_mixin and not is_feature and est.get('status') and rng.random() < (0.8 if theme == 'status' else 0.07):
                # the status of this class: the codes of a class with a status (mostly its base), extended
                parents = [b for b in bases if kinds.get(b, {}).get('status')]
                if rng.random() < 0.08:
                    parents = [c for c in modules + ROOTS[1:] if kinds.get(c, {}).get('status')]
                decls.append(['status', {'k': 'param', 'dt': gen_status(rng, parents, used), 'props': {}, 'inherit': True}])
            if not is_mixin and not is_feature and rng.random() < (0.6 if theme == 'struct' else 0.05):
                sname = rng.choice(SNAMES)
                d = gen_struct(rng)
                if est.get(sname) is None and not any(est.get(d['prefix'] + m) for m, _ in d['members']):
                    decls.append([sname, d])
                    est[sname] = 'struct'
                    est.update({d['prefix'] + m: dt['t'] for m, dt in d['members']})
            for _ in range(rng.choice([0, 1, 1, 2, 2, 3])):
                if names_known and rng.random() < (0.7 if not is_mixin else 0.2):
                    aname = rng.choice(names_known)
                elif is_mixin:
                    aname = rng.choice(PNAMES[:7])       # a mixin never declares a parameter under a command's name
                else:
                    aname = rng.choice(PNAMES[:5] + CNAMES[:1] + ['go'])
                if any(a == aname for a, _ in decls):
                    continue
                prev = est.get(aname)
                if aname in CNAMES and prev is None and not is_mixin:
                    d = gen_cmd_arg(rng, {'k': 'cmd', 'desc': rng.choice(DESCS), 'props': {}, 'inherit': True})
                else:
                    d = with_dtkw(rng, gen_decl(rng, prev, is_mixin))
                    if d['k'] == 'cmd' and aname not in CNAMES and not is_cmd(prev):
                        # parameter names and command names are kept apart (a Parameter merged with a Command of
                        # the same name from another base is outside the model)
                        dt = gen_dt(rng)
                        d = {'k': 'param', 'desc': rng.choice(DESCS), 'dt': dt, 'props': gen_pprops(rng, dt['t']), 'inherit': True}
                decls.append([aname, d])
                est[aname] = decl_kind(d, prev)
            mest, mval = {}, set()
            for b in reversed(bases):
                mest.update(mkinds.get(b, {}))
                mval |= mvalued.get(b, set())
            for _ in range(0 if is_feature else rng.choice([0, 0, 0, 1, 1, 2])):
                r = rng.random()
                if mval and r < 0.45:        # a second level: over a property that carries a value already
                    pn = rng.choice(sorted(mval))
                elif mest and r < 0.8:
                    pn = rng.choice(sorted(mest))
                elif is_mixin and r < 0.9:
                    pn = rng.choice(sorted(MPROP_ROOT))
                else:
                    pn = rng.choice(sorted(MPROP_CUSTOM))
                if any(a == pn for a, _ in decls):
                    continue
                kind, d = gen_mdecl(rng, pn, mest, is_mixin)
                decls.insert(rng.randint(0, len(decls)), [pn, d])
                mest[pn] = kind
                if d['k'] == 'value' or 'value' in d:
                    mval.add(pn)
            op = {'op': 'class', 'name': name, 'bases': bases, 'mixin': is_mixin, 'decls': decls}
            ops.append(op)
            if ex.apply(op)['outcome'] == 'ok':
                kinds[name] = est
                mkinds[name] = mest
                mvalued[name] = mval
                (mixins if is_mixin else features if is_feature else modules).append(name)
                for a, d in decls:
                    if a == 'status' and d.get('dt') and d['dt']['t'] == 'status' and not is_mixin:
                        status_classes[name] = (bases, d['dt'])
        elif r < p_inst or not insts:
            name = 'i%d' % (len(ex.steps) + 1)
            if sections and rng.random() < 0.18:
                # a second module from a section of the loaded configuration (what a restart does: Server._processCfg runs
                # again on the same srv.module_cfg)
                sec = rng.choice(sorted(sections))
                op = {'op': 'inst', 'name': name, 'cls': sections[sec][0], 'from': sec}
                ops.append(op)
                if ex.apply(op)['outcome'] == 'ok':
                    insts[name] = sections[sec][0]
                continue
            cls = rng.choice(modules)
            if theme == 'struct' and rng.random() < 0.8:
                cls = rng.choice([c for c in modules if 'struct' in kinds[c].values()] or modules)
            if insts and rng.random() < 0.4:     # a sibling of an existing instance (same class, other configuration)
                cls = insts[rng.choice(sorted(insts))]
            est = {k: v for k, v in kinds[cls].items() if v is not None and not is_cmd(v)}
            cfg = {}
            for _ in range(rng.choice([0, 0, 1, 1, 2])):
                if not est:
                    break
                aname = rng.choice(sorted(est))
                rr = rng.random()
                if rr < 0.5:
                    c = gen_dtprops(rng, est[aname])
                elif rr < 0.7:
                    c = {'description': rng.choice(DESCS)}
                elif rr < 0.8:
                    c = {'readonly': rng.random() < 0.5}
                elif rr < 0.9 and est[aname] in ('float', 'int', 'string', 'bool'):
                    # a constant parameter (checked against the datatype as configured, turns the parameter readonly),
                    # before or after datatype properties of the same Param
                    c = gen_dtprops(rng, est[aname]) if rng.random() < 0.5 else {}
                    c.pop('nosuch', None)
                    if rng.random() < 0.5:
                        c = dict({'constant': gen_bare(rng, est[aname])}, **c)
                    else:
                        c['constant'] = gen_bare(rng, est[aname])
                else:
                    c = {rng.choice(['value', 'default']): gen_bare(rng, est[aname])}
                if c:
                    cfg[aname] = c
            if est.get('value') == 'float' and rng.random() < 0.3:
                # the main unit of this module: every '$' in the units of its parameters (members included) follows it
                cfg['value'] = dict(cfg.get('value') or {}, unit=rng.choice(['K', 'mm', 'V']))
            if rng.random() < 0.04:
                cfg['nosuch'] = {'value': 1}
            if rng.random() < 0.3 and mkinds.get(cls):       # module properties from the configuration
                pn = rng.choice(sorted(mkinds[cls]))
                v = gen_mvalue(rng, mkinds[cls][pn])
                cfg[pn] = {'value': v} if rng.random() < 0.3 else v
            op = {'op': 'inst', 'name': name, 'cls': cls, 'cfg': cfg}
            if sections and est and rng.random() < 0.3:
                # a Param object bound to a name once in the configuration file and used for several modules
                sec = rng.choice(sorted(sections))
                keys = sorted(sections[sec][1])
                if keys:
                    key = rng.choice(keys)
                    same = [a for a in sorted(est) if est[a] == sections[sec][1][key]]
                    # a Param carrying a value (value / default / constant) goes to a parameter of the kind it was written for
                    # (the model does not convert values: 1 for a float configured as `True`)
                    cands = same if key in sections[sec][2] else (same or sorted(est))
                    aname = key if key in cands and rng.random() < 0.7 else rng.choice(cands) if cands else None
                    if aname is not None:
                        cfg.pop(aname, None)
                        op['share'] = {aname: [sec, key]}
            pkeys = {a: est[a] for a in cfg if a in est and isinstance(cfg[a], dict)}
            pkeys.update({a: sections[sk[0]][1][sk[1]] for a, sk in (op.get('share') or {}).items()})
            if pkeys and rng.random() < 0.3:
                # Group(...) arguments: the named parameters of THIS module get the property `group`
                members = rng.sample(sorted(pkeys), min(len(pkeys), rng.choice([1, 1, 2])))
                if op.get('share') and rng.random() < 0.6:
                    members = sorted(set(members) | set(op['share']))
                op['groups'] = {rng.choice(['grp', 'g1']): members}
            op0 = op
            if rng.random() < 0.35:
                # as the server does it: the section is loaded with the configuration, the module is created from it afterwards
                ops.append(dict(op, op='load'))
                ex.apply(ops[-1])
                op = {'op': 'inst', 'name': name, 'cls': cls, 'from': name}
            ops.append(op)
            if ex.apply(op)['outcome'] == 'ok':
                insts[name] = cls
            if 'cfg:' + name in ex.steps[-1]['after']:
                valued = {a for a, c in cfg.items() if isinstance(c, dict) and {'value', 'default', 'constant'} & set(c)}
                valued |= {a for a, sk in (op0.get('share') or {}).items() if sk[1] in sections[sk[0]][2]}
                sections[name] = (cls, pkeys, valued)
        else:
            iname = rng.choice(sorted(insts))
            est = {k: v for k, v in kinds[insts[iname]].items() if v is not None and not is_cmd(v)}
            if not est:
                continue
            par = rng.choice(sorted(est))
            if est.get('controlled_by') == 'enum' and rng.random() < 0.5:
                # an input is registered with this module (HasControlledBy.register_input, called by the controller's initModule)
                op = {'op': 'mutate', 'inst': iname, 'par': 'controlled_by', 'kind': 'enum', 'member': rng.choice(['m1', 'm2', 'x'])}
                ops.append(op)
                ex.apply(op)
                continue
            try:       # the member datatype objects of this parameter of this instance, as they are now
                members = dt_paths(ex.insts[iname].accessibles[par].datatype)[1:]
            except Exception:
                members = []
            if members and rng.random() < 0.6:
                path, member = rng.choice(members)
                props = gen_dtprops(rng, dt_kind(member)) or \
                    {'float': {'min': 1}, 'int': {'max': 6}, 'string': {'maxchars': 4}, 'text': {'maxchars': 4}}.get(dt_kind(member)) or \
                    {'nosuch': 1}
                key = rng.choice(sorted(props))
                op = {'op': 'mutate', 'inst': iname, 'par': par, 'kind': 'setprop', 'path': path, 'key': key, 'val': props[key]}
            elif rng.random() < 0.35:
                op = {'op': 'mutate', 'inst': iname, 'par': par, 'kind': 'write', 'val': rng.choice([1, 3, 5, 8, 20, 60, 'a', [1, 2]])}
            elif est[par] == 'enum' and rng.random() < 0.8:
                op = {'op': 'mutate', 'inst': iname, 'par': par, 'kind': 'enum', 'member': rng.choice(['m1', 'm2', 'x'])}
            else:
                props = gen_dtprops(rng, est[par])
                if not props or rng.random() < 0.2:
                    props = rng.choice([{'description': 'mutated'}, {'readonly': False}, {'group': 'gm'}])
                key = rng.choice(sorted(props))
                op = {'op': 'mutate', 'inst': iname, 'par': par, 'kind': 'setprop', 'key': key, 'val': props[key]}
            ops.append(op)
            ex.apply(op)
    program = {'ops': ops}
    add_echoes(rng, program, ex)
    return program, ex.init, ex.steps


# ----------------------------------------------------------------------------------------
# wire format for the Lean side
# ----------------------------------------------------------------------------------------
KIND = {'float': 'double', 'int': 'int', 'string': 'string', 'bool': 'bool', 'enum': 'enum', 'array': 'array'}


def wire_props(d):
    return [[k, jtext(canon(v))] for k, v in d.items()]


def wire_tree(spec):
    """the tree of the datatype object mk_dt(spec) builds (read off the real object: constructor defaults included)"""
    return None if spec is None else obj_tree(mk_dt(spec))


def _argument_of(decl):
    try:
        return mk_decl(decl).argument
    except Exception:       # the declaration itself is refused (the class operation failed and is skipped by the model)
        return None


def wire_decl(decl):
    k = decl['k']
    if k == 'struct':
        # what is written in the class body: the member parameters (description, datatype object) and the arguments of
        # StructParam(); what that amounts to (names, influences, readonly of the members) is the model's business
        from frappy.datatypes import StructOf
        members = {m: mk_dt(dt) for m, dt in decl['members']}
        return {'k': 'struct', 'desc': None if decl.get('desc') is None else jtext(decl['desc']), 'prefix': decl.get('prefix', ''),
                'readonly': jtext(bool(decl.get('readonly'))), 'dt': obj_tree(StructOf(**members)),
                'members': [[m, jtext('member ' + m), obj_tree(dt)] for m, dt in members.items()]}
    if k == 'param' and decl.get('dt') and decl['dt']['t'] == 'status':
        # the model works the codes out itself (parent: the class whose status is extended)
        return {'k': 'param', 'desc': None if decl.get('desc') is None else jtext(decl['desc']), 'dt': None,
                'status': {'parent': decl['dt'].get('parent'), 'std': list(decl['dt']['std']),
                           'custom': [[n, int(c)] for n, c in decl['dt']['custom'].items()]},
                'props': wire_props(decl.get('props') or {}), 'inherit': bool(decl.get('inherit', True))}
    if k == 'param':
        return {'k': 'param', 'desc': None if decl.get('desc') is None else jtext(decl['desc']), 'dt': wire_tree(decl.get('dt')),
                'dtkw': wire_props(decl.get('dtkw') or {}),
                'props': wire_props(decl.get('props') or {}), 'inherit': bool(decl.get('inherit', True))}
    if k == 'cmd':
        # the argument as it is after decoration: `Command.__call__` sets the optional members of a struct from the signature
        return {'k': 'cmd', 'desc': None if decl.get('desc') is None else jtext(decl['desc']),
                'arg': obj_tree(_argument_of(decl)), 'props': wire_props(decl.get('props') or {})}
    if k == 'value':
        return {'k': 'value', 'v': jtext(canon(decl['v']))}
    if k == 'prop':       # the Property object as it is built, before __set_name__
        return dict(zip(('value', 'default', 'extname', 'export'), dump_property(mk_property(decl))), k='prop')
    if k == 'method':
        sig = decl.get('sig')
        opt = None
        if sig and set(sig['defaults']) != set(sig['names']):
            opt = jtext([n for n in sig['names'] if n in sig['defaults']])
        return {'k': 'method', 'optional': opt}
    return {'k': k}


def wire_entries(op):
    """the entries of a module section as they are written in the configuration: a Param(...) of its own, or the Param object
    of another section (in the order load_section puts them into the Mod dict)"""
    cfg = dict(op.get('cfg') or {})
    out = [['description', {'new': [['value', jtext(canon(cfg.pop('description', 'module')))]]}]]
    # a module property is configured as `name = value` or `name = {'value': value}` (modulebase.py:372-384; Mod() wraps a
    # plain value into Param(value))
    # (`Param(value=..., **kwds)` is a dict with the item `value` LAST, config.py:52-56)
    out += [[a, {'new': wire_props(dict({k: v for k, v in c.items() if k != 'value'}, **{k: v for k, v in c.items() if k == 'value'}))
                 if isinstance(c, dict) else [['value', jtext(canon(c))]]}] for a, c in cfg.items() if c is not None]
    shared = op.get('share') or {}
    out = [e for e in out if e[0] not in shared]
    return out + [[a, {'shared': list(sk)}] for a, sk in shared.items()]


def wire_groups(op):
    """the Group(...) arguments of a module section: [[group name (as property value), [keys]]]"""
    return [[jtext(g), list(members)] for g, members in (op.get('groups') or {}).items()]


def wire_op(op, outcome, mro, loaded=True):
    ok = outcome == 'ok'
    if op['op'] == 'class':
        return {'op': 'class', 'ok': ok, 'name': op['name'], 'mro': mro or [op['name']], 'module': not op.get('mixin'),
                'bases': list(op['bases']), 'decls': [[a, wire_decl(d)] for a, d in op['decls']]}
    if op['op'] == 'load':
        return {'op': 'load', 'ok': ok, 'name': op['name'], 'entries': wire_entries(op), 'groups': wire_groups(op)}
    if op['op'] == 'inst':
        # created from a section of the loaded configuration; without `from` the section is loaded by this operation
        # (also when the creation fails)
        if op.get('from') is not None:
            return {'op': 'inst', 'ok': ok, 'name': op['name'], 'cls': op['cls'], 'section': op['from'], 'load': None}
        return {'op': 'inst', 'ok': ok, 'name': op['name'], 'cls': op['cls'], 'section': op['name'],
                'load': wire_entries(op) if loaded else None, 'groups': wire_groups(op)}
    if op['kind'] == 'write':      # a write changes the value only: not an operation of the model
        return {'op': 'setprop', 'ok': False, 'inst': op['inst'], 'par': op['par'], 'key': 'value', 'val': jtext(canon(op['val']))}
    if op['kind'] == 'setprop':
        return {'op': 'setprop', 'ok': ok, 'inst': op['inst'], 'par': op['par'], 'path': list(op.get('path') or []),
                'key': op['key'], 'val': jtext(canon(op['val']))}
    return {'op': 'enum', 'ok': ok, 'inst': op['inst'], 'par': op['par'], 'member': op['member']}


_prelude = []


def prelude_ops():
    """frappy's own Module/Readable/Writable/Drivable and the control mixins as `class` operations of the wire format,
    read off their `__dict__` (what was written in their class bodies: ownProperties)"""
    if _prelude:
        return _prelude
    import frappy.modules as M
    from frappy.params import Accessible, Parameter
    from frappy.modulebase import Feature
    known = {M.Module: 'Module', M.Readable: 'Readable', M.Writable: 'Writable', M.Drivable: 'Drivable', Feature: 'Feature'}
    from frappy.properties import Property
    items = [(n, c, n in HA_BUILTINS) for n, c in builtin_owners().items()]
    for name, cls, module in items:
        decls = []
        for aname, aobj in cls.__dict__.items():
            if isinstance(aobj, Property):
                decls.append([aname, dict(zip(('value', 'default', 'extname', 'export'), dump_property(aobj)), k='prop')])
                continue
            if not isinstance(aobj, Accessible):
                continue
            own = dict(aobj.ownProperties)
            if isinstance(aobj, Parameter):
                desc = own.pop('description', None)
                dt = own.pop('datatype', None)
                inherit = not set(aobj.propertyDict) <= set(aobj.ownProperties)
                decls.append([aname, {'k': 'param', 'desc': None if desc is None else jtext(desc), 'dt': obj_tree(dt),
                                      'props': wire_props(own), 'inherit': inherit}])
            else:
                desc = own.pop('description', None)
                arg = own.pop('argument', None)
                own.pop('result', None)
                decls.append([aname, {'k': 'cmd', 'desc': None if desc is None else jtext(desc), 'arg': obj_tree(arg),
                                      'props': wire_props(own)}])
        mro = [known[c] for c in cls.__mro__ if c in known] if module else [name]
        _prelude.append({'op': 'class', 'ok': True, 'name': name, 'mro': mro, 'module': module, 'decls': decls,
                         'bases': [known[b] for b in cls.__bases__ if b in known]})
    return _prelude


def comparable(dumps):
    """the part of the implementation's dumps the model has to predict"""
    out = {}
    for owner, d in dumps.items():
        if owner.startswith('cfg:') or owner.startswith('lib:'):
            continue
        if 'acc' not in d:
            out[owner] = d
            continue
        out[owner] = [[a, {'cmd': x['cmd'], 'props': x['props'], 'datainfo': x['datainfo'], 'export': x['export']}]
                      for a, x in d['acc']]
    return out


def comparable_s(dumps):
    """the part around classes and instances the model has to predict: what every loaded module section shows (a plain value
    like a Param with the item `value`), the module properties set from the class chain, the control behaviour"""
    cfgs, auto, ctrl = {}, {}, {}
    for owner, d in dumps.items():
        if owner.startswith('cfg:') and 'cfg' in d:
            cfgs[owner] = [[k, v if isinstance(v, list) else [['value', v]]] for k, v in d['cfg'] if k != 'cls']
        elif owner.startswith('inst:') and 'mvals' in d:
            mv = dict(d['mvals'])
            auto[owner] = {k: json.loads(mv[k]) for k in ('features', 'interface_classes') if mv.get(k) is not None}
            c = d.get('ctrl')
            if c is not None:
                ctrl[owner] = {'inputs': c['inputs'][1] if c['inputs'][0] == 'ok' else c['inputs'][0],
                               'probes': [[m, what, calls] for m, what, _, calls in c.get('probes') or []]}
    return cfgs, auto, ctrl


def comparable_m(dumps):
    """the module-level part the model has to predict: per class every Property object of its propertyDict (value,
    default, extname, export), per instance the value of every property but the ones set from the class chain"""
    out = {}
    for owner, d in dumps.items():
        if 'mprops' not in d:
            continue
        if owner.startswith('cls:'):
            out[owner] = d['mprops']
        else:
            out[owner] = [x for x in d['mvals'] if x[0] not in AUTO_PROPS]
    return out


def text_dumps(dumps):
    return {o: jtext(d) for o, d in dumps.items()}


def val_pairs(dumps, acc, wacc=None):
    for owner, d in dumps.items():
        for a, x in d.get('acc', []):
            if x.get('catalogue') is not None:
                acc.add((jtext(x['datainfo']), jtext(x['catalogue'])))
            if wacc is not None and x.get('writes') is not None and not x.get('struct_write'):
                wacc[(jtext(x['validates']), jtext(x['writes']))] = owner + ':' + a


# ----------------------------------------------------------------------------------------
# one case = one program
# ----------------------------------------------------------------------------------------
def add_echoes(rng, program, ex):
    """append, for some instances, the creation of another instance of the same class with the same configuration: from
    a section loaded anew with the same content, or from the SAME loaded section (what a restart of the server does)"""
    made = [st for st in ex.steps if st['op']['op'] == 'inst' and st['outcome'] == 'ok' and 'echo_of' not in st['op']]
    for st in rng.sample(made, min(2, len(made))):
        op = dict(st['op'], name=st['op']['name'] + 'e', echo_of=st['op']['name'])
        if 'from' not in op and rng.random() < 0.5:
            op = {'op': 'inst', 'name': op['name'], 'cls': op['cls'], 'from': st['op']['name'], 'echo_of': st['op']['name']}
        program['ops'].append(op)
        ex.apply(op)


def reorder(rng, program):
    """the same classes in another order that respects inheritance, then the same configuration loaded as a whole, then the
    same instances created from it in another order (no mutations)"""
    classes = [op for op in program['ops'] if op['op'] == 'class']
    names = {op['name'] for op in classes}
    done, order, pending = set(), [], list(classes)
    while pending:
        ready = [op for op in pending if all(b in done or b not in names for b in op['bases'])]
        if not ready:
            order += pending
            break
        op = rng.choice(ready)
        pending.remove(op)
        order.append(op)
        done.add(op['name'])
    loads, insts = [], []
    for op in program['ops']:
        if op['op'] == 'load':
            loads.append(op)
        elif op['op'] == 'inst' and 'echo_of' not in op:
            if 'from' in op:
                insts.append(op)
            else:
                loads.append(dict(op, op='load'))
                insts.append({'op': 'inst', 'name': op['name'], 'cls': op['cls'], 'from': op['name']})
    rng.shuffle(insts)
    return {'ops': order + loads + insts}


def at_creation(steps):
    """owner -> text of its dump right after the operation that created it"""
    out = {}
    for st in steps:
        if st['outcome'] == 'ok' and st['op']['op'] in ('class', 'inst', 'load') and st['target'] in st['after']:
            out[st['target']] = (st.get('text') or {}).get(st['target']) or jtext(st['after'][st['target']])
        sec = 'cfg:' + str(st['op'].get('name'))
        if st['op']['op'] == 'inst' and 'from' not in st['op'] and sec in st['after']:
            out[sec] = (st.get('text') or {}).get(sec) or jtext(st['after'][sec])       # the section loaded with this operation, after the module was created from it
    return out


def secop_base_classes():
    from frappy.modulebase import SECoP_BASE_CLASSES
    return list(SECoP_BASE_CLASSES)


def wire_step(st):
    op = st['op']
    w = wire_op(op, st['outcome'], st.get('mro'), loaded='cfg:' + op.get('name', '') in st['after'])
    if st.get('registered'):       # the real HasControlledBy.register_input on the module itself
        w = {'op': 'register', 'ok': w['ok'], 'inst': op['inst'], 'member': op['member']}
    return w


def step_target(st):
    """the owner an operation acts on.  A failed operation has no target (nothing at all may change) - except a failed
    register_input, which enters the callback in the module's own table before it fails on the enum."""
    if st['outcome'] == 'ok' or st.get('registered'):
        return st['target']
    return None


def requests_for(program, init, steps, second=None):
    pairs, wpairs = set(), {}
    val_pairs(init['dumps'], pairs)
    for st in steps:
        val_pairs(st['after'], pairs, wpairs)
    reqs = [
        {'p': 'C09', 'k': 'run', 'prelude': prelude_ops(),
         'secop_base': secop_base_classes(),
         'ops': [wire_step(st) for st in steps]},
        {'p': 'C09', 'k': 'judge_run', 'init': init.get('text') or text_dumps(init['dumps']),
         'steps': [{'target': step_target(st), 'after': st.get('text') or text_dumps(st['after'])} for st in steps]},
        {'p': 'C09', 'k': 'judge_val', 'pairs': sorted(pairs)},
        {'p': 'C09', 'k': 'judge_write', 'pairs': sorted(wpairs)},
        # (step, module, member, action) -> what the module shows afterwards, in every context it was done in
        {'p': 'C09', 'k': 'judge_ctx', 'pairs': sorted({(f'{i}:{key}', jtext(res)) for i, st in enumerate(steps)
                                                        for key, _, res, _ in st.get('ctx') or []})},
        # the model of the struct parameter callbacks (Klass/StructRW.lean) has to predict what the module shows
        {'p': 'C09', 'k': 'ctx_model', 'probes': [start for st in steps for _, _, _, start in st.get('ctx') or []]},
    ]
    first = at_creation(steps)
    laters = []
    for st in steps:
        op = st['op']
        if 'echo_of' in op and st['outcome'] == 'ok' and 'inst:' + op['echo_of'] in first:
            laters.append((op['echo_of'], op['name']))
            reqs.append({'p': 'C09', 'k': 'judge_later', 'first': first['inst:' + op['echo_of']], 'later': first['inst:' + op['name']]})
    if second is not None:
        reqs.append({'p': 'C09', 'k': 'judge_order', 'a': first, 'b': at_creation(second)})
        # the second run (classes in another order, the configuration loaded as a whole, then the modules) is a run, too
        reqs.append({'p': 'C09', 'k': 'judge_run', 'init': init.get('text') or text_dumps(init['dumps']),
                     'steps': [{'target': step_target(st), 'after': st.get('text') or text_dumps(st['after'])} for st in second]})
    return reqs, laters


def first_diff(model, impl):
    for owner in sorted(set(model) | set(impl)):
        if model.get(owner) != impl.get(owner):
            m, i = model.get(owner), impl.get(owner)
            if isinstance(m, list) and isinstance(i, list):
                for x, y in zip(m, i):
                    if x != y:
                        return {'owner': owner, 'model': x, 'impl': y}
                return {'owner': owner, 'model': [a for a, _ in m], 'impl': [a for a, _ in i]}
            return {'owner': owner, 'model': m, 'impl': i}
    return None


def evaluate(ctx, program, init, steps, second, answers, laters):
    """-> (disagreement or None, [violations])"""
    it = iter(answers)
    model, jrun, jval, jwrite, jctx, mctx = next(it), next(it), next(it), next(it), next(it), next(it)
    for a in (model, jrun, jval, jwrite, jctx, mctx):
        if 'driver_error' in a:
            raise RuntimeError(f'driver error: {a}')
    viols = []
    dis = None
    if ctx.model_ok:
        snaps = [(model['init'], init['dumps'], init['part'], 'init')] + \
                [(m, st['after'], st['part'], i) for i, (m, st) in enumerate(zip(model['steps'], steps))]
        for m, dumps, part, where in snaps:
            d = first_diff(m['dumps'], comparable(dumps))
            if d is None:
                d = first_diff({o: [y for y in x if o.startswith('cls:') or y[0] not in AUTO_PROPS] for o, x in m['mdumps'].items()
                                if o in dumps and 'mprops' in dumps[o]}, comparable_m(dumps))
                if d is not None:
                    d['owner'] += ' (module properties)'
            if d is None:       # what exportProperties() shows of an instance
                mexp = {o: sorted(x for x in v if x[0] not in AUTO_PROPS) for o, v in m['mexport'].items() if o.startswith('inst:')}
                iexp = {o: sorted(x for x in v['mprops'] if x[0] not in AUTO_PROPS) for o, v in dumps.items()
                        if o.startswith('inst:') and 'mprops' in v}
                d = first_diff({o: x for o, x in mexp.items() if o in iexp}, iexp)
                if d is not None:
                    d['owner'] += ' (exportProperties)'
            if d is None:       # the loaded configuration, module properties from the class chain, control behaviour
                cfgs, auto, ctrl = comparable_s(dumps)
                for what, mm, ii in (('loaded configuration', m['cfgs'], cfgs), ('module properties from the class chain', m['auto'], auto),
                                     ('control behaviour', m['ctrl'], ctrl)):
                    d = first_diff(mm, ii)
                    if d is not None:
                        d['owner'] += ' (%s)' % what
                        break
            if d is not None:
                dis = {'case': program, 'model': d['model'], 'impl': d['impl'], 'at': where, 'owner': d['owner']}
                break
            # mutable property values (lists) are not objects of the model: they are compared only through the judge's
            # dumps; a list shared with an *instance* across owners is reported as a violation below
            objpart = [g2 for g2 in ([x for x in g if '/prop/' not in x] for g in part) if len(g2) > 1]
            if m['part'] != sorted(objpart):
                dis = {'case': program, 'model': [g for g in m['part'] if g not in objpart],
                       'impl': [g for g in objpart if g not in m['part']], 'at': where, 'owner': 'sharing partition'}
                break
    if ctx.model_ok and dis is None:
        probes = [(i, e) for i, st in enumerate(steps) for e in st.get('ctx') or []]
        for (i, (key, cname, res, start)), pred in zip(probes, mctx['shown']):
            members = [m for m, _ in start['members']]
            impl = res if res[0] != 'ok' else \
                [[[m, jtext(canon(v))] for m, v in zip(members, res[1])], sorted([m, jtext(canon(v))] for m, v in res[1][-1].items())]
            # (a member whose datatype - overridden in a subclass - refuses the value is outside the model: it keeps what it had)
            if res[0] == 'ok' and [start['m'], start['v']] in impl[0] and impl != [pred[0], sorted(pred[1])]:
                dis = {'case': program, 'model': pred, 'impl': impl, 'at': i, 'owner': f'{key} {cname} (member update of a struct parameter)'}
                break
    if jrun['bad'] is not None:
        i, owners = jrun['bad']
        op = steps[i]['op']
        okind = sorted({'builtin' if o.split(':')[1] in builtin_owners() else o.split(':')[0] for o in owners})
        what = op['op'] if op['op'] != 'mutate' else 'mutate-' + op['kind']
        if steps[i]['outcome'] != 'ok':
            what = 'failed-' + what
        viols.append({'sig': f'C09:isolation:{what}-changes-{"+".join(okind)}',
                      'what': f'operation {i} ({json.dumps(op)[:300]}) changed the dump of {owners}', 'case': program,
                      'detail': {'step': i, 'owners': owners}})
    # a mutable property value (a list given as bare value / `value` / `default` of a parameter without a converting datatype)
    # shared between a class and its instances is latent aliasing, but no operation of the statement writes into such a list:
    # it is counted in the evidence (run), never judged here - what an operation changes is decided by the monitors alone
    if not jwrite['ok']:
        bad = sorted({o + ':' + a for st in steps for o, d in st['after'].items() for a, x in d.get('acc', [])
                      if x.get('writes') is not None and x['writes'] != x['validates'] and not x.get('struct_write')})
        viols.append({'sig': 'C09:write-ignores-own-datatype', 'what': f'write_<p>(v) through the wrapper does not follow the '
                      f'datatype of the instance written to: {bad[:4]}', 'case': program, 'detail': {'params': bad}})
    if jctx['bad']:
        i, key = jctx['bad'][0].split(':', 1)
        seen = [[c, r] for k, c, r, _ in steps[int(i)].get('ctx') or [] if k == key]
        viols.append({'sig': 'C09:behaviour-depends-on-access-to-another-module',
                      'what': f'after operation {i}: what {key.rsplit(":", 1)[0]} shows after the same member update ({key.rsplit(":", 1)[1]}) '
                              f'depends on which other module is being accessed meanwhile: {json.dumps(seen)[:400]}',
                      'case': program, 'detail': {'keys': jctx['bad']}})
    if not jval['ok']:
        viols.append({'sig': 'C09:validation-not-a-function-of-datainfo', 'what': 'two datatype objects with equal datainfo '
                      'give different outcomes on the boundary catalogue', 'case': program})
    for (a, b) in laters:
        ans = next(it)
        if not ans['ok']:
            viols.append({'sig': 'C09:later-instance-differs', 'what': f'instance {b} created later with the class and configuration '
                          f'of {a} does not show what {a} showed when it was created', 'case': program, 'detail': {'first': a, 'later': b}})
    if second is not None:
        ans = next(it)
        if ans['bad']:
            viols.append({'sig': 'C09:order-dependent:' + '+'.join(sorted({o.split(':')[0] for o in ans['bad']})),
                          'what': f'{ans["bad"]} look different when the same classes are defined and the same modules created in another order',
                          'case': program, 'detail': {'owners': ans['bad'], 'second_order': [st['op'].get('name') for st in second]}})
        ans = next(it)
        if ans['bad'] is not None:
            i, owners = ans['bad']
            op = second[i]['op']
            okind = sorted({'builtin' if o.split(':')[1] in builtin_owners() else o.split(':')[0] for o in owners})
            what = ('' if second[i]['outcome'] == 'ok' else 'failed-') + op['op']
            viols.append({'sig': f'C09:isolation:{what}-changes-{"+".join(okind)}',
                          'what': f'operation {i} of the run in the other order ({json.dumps(op)[:300]}) changed the dump of {owners}',
                          'case': dict(program, second={'ops': [st['op'] for st in second]}),
                          'detail': {'step': i, 'owners': owners, 'in': 'second'}})
    return dis, viols


def run_case(ctx, program, rng, with_order=True):
    """re-runs a recorded program (corpus, replay, shrinking): each run in a process of its own"""
    init, steps = fresh(job_run, program)
    second = None
    if with_order:
        second = fresh(job_run, program.get('second') or reorder(rng, program))[1]
    reqs, laters = requests_for(program, init, steps, second)
    answers = ctx.driver.batch(reqs)
    return evaluate(ctx, program, init, steps, second, answers, laters)


def shrink(ctx, program, sig, rng, in_second=False):
    def fails(ops):
        _, viols = run_case(ctx, {'ops': ops}, rng, with_order=in_second or sig.startswith('C09:order'))
        return any(v['sig'] == sig and ((v.get('detail') or {}).get('in') == 'second') == in_second for v in viols)
    try:
        return {'ops': ddmin(program['ops'], fails, max_tests=120)}
    except Exception:
        return program


def run(ctx):
    import random
    res = Result()
    res.rule = ('generated programs of class definitions (type(): single/multiple inheritance, mixins outside HasAccessibles, '
                'overrides by Parameter(), bare value, None, datatype, plain method, inherit=False, on top of frappy\'s own '
                'Readable/Writable/Drivable), instantiations with configuration and run-time mutations (setProperty, enum '
                'replacement), every owner dumped after every operation; each program also re-run with its classes in another '
                'order.  non-trivial = at least one class with two bases or an override of an inherited accessible, one '
                'instance, and one operation after which an older owner still exists to be compared')
    big = ctx.tier == 'thorough' or ctx.escalated
    rng = ctx.rng
    cases = []
    cdir = os.path.join(ctx.verif, 'corpus', 'C09')
    if os.path.isdir(cdir):
        for fn in sorted(os.listdir(cdir)):
            with open(os.path.join(cdir, fn)) as f:
                cases.append(('corpus', json.load(f)['case']))
    n = ctx.budget(220, 1100)
    shrunk = 0
    batch_reqs, batch_meta = [], []

    def flush():
        nonlocal shrunk
        if not batch_reqs:
            return
        for ans, (program, init, steps, second, laters) in zip(pbatch(ctx, batch_reqs), batch_meta):
            dis, viols = evaluate(ctx, program, init, steps, second, ans, laters)
            res.evaluations += 1
            res.traces += 1 + (second is not None)
            if dis is not None and len(res.disagreements) < 20:
                res.disagreements.append(dis)
            for v in viols:
                if shrunk < 4 and not any(x['sig'] == v['sig'] for x in res.violations):
                    shrunk += 1
                    in_second = (v.get('detail') or {}).get('in') == 'second'
                    small = shrink(ctx, program, v['sig'], random.Random(1), in_second)
                    if in_second:       # the replay needs the other order, too: the one the shrunk program fails with
                        _, again = run_case(ctx, small, random.Random(1))
                        again = [x for x in again if x['sig'] == v['sig'] and (x.get('detail') or {}).get('in') == 'second']
                        small = again[0]['case'] if again else v['case']
                    v = dict(v, case=small, detail=dict(v.get('detail') or {}, original=program))
                res.violations.append(v)
        batch_reqs.clear()
        batch_meta.clear()

    seeds = [(rng.random(), rng.random()) for _ in range(len(cases) + n)]
    total = len(cases) + n
    done = {}
    ahead = {}

    def start_firsts(k):
        ks = list(range(k, min(k + JOBS, total)))
        if ks:
            ahead[k] = (ks, fresh_start([(job_run, (cases[i][1],)) if i < len(cases) else (job_generate, (seeds[i][0], big)) for i in ks]))

    def results(k):
        """the two runs of case k; the cases are run JOBS at a time, every run in a process of its own; the first runs of the next
        JOBS cases are started right away (they run while the Lean driver judges the cases at hand)"""
        if k not in done:
            done.clear()
            if k not in ahead:
                start_firsts(k)
            ks, handle = ahead.pop(k)
            firsts = fresh_collect(handle)
            firsts = [(cases[i][1],) + tuple(f) if i < len(cases) else f for i, f in zip(ks, firsts)]
            handle = fresh_start([(job_run, (f[0].get('second') or reorder(random.Random(seeds[i][1]), f[0]),))
                                  for i, f in zip(ks, firsts)])
            start_firsts(ks[-1] + 1)
            seconds = fresh_collect(handle)
            for i, f, sec in zip(ks, firsts, seconds):
                done[i] = f + (sec[1],)
        return done[k]

    for k in range(total):
        program, init, steps, second = results(k)
        reqs, laters = requests_for(program, init, steps, second)
        batch_reqs.append(reqs)
        batch_meta.append((program, init, steps, second, laters))
        # distribution
        ops = program['ops']
        ncls = sum(1 for st in steps if st['op']['op'] == 'class' and st['outcome'] == 'ok')
        multi = any(st['op']['op'] == 'class' and st['outcome'] == 'ok' and len(st['op']['bases']) > 1 for st in steps)
        override = any(st['op']['op'] == 'class' and st['outcome'] == 'ok' and st['op']['decls'] and st['op']['bases'] for st in steps)
        ninst = sum(1 for st in steps if st['op']['op'] == 'inst' and st['outcome'] == 'ok')
        nmut = sum(1 for st in steps if st['op']['op'] == 'mutate' and st['outcome'] == 'ok')
        for st in steps:
            res.count('op.%s.%s' % (st['op']['op'], st['outcome']))
            for _, cname, _, _ in st.get('ctx') or []:
                res.count('context-probe.' + ('alone' if cname == 'alone' else 'inside-' + cname.rsplit('.', 1)[1].split('_')[0] + '-of-another-module'))
            if st['op']['op'] == 'class':
                if 'Feature' in (st.get('mro') or [])[1:2] or any(b in BUILTIN_MIXINS for b in st['op']['bases']):
                    res.count('class.' + ('feature' if 'Feature' in (st.get('mro') or [])[1:2] else 'uses-control-mixin'))
                for a, d in st['op']['decls']:
                    if a in MPROP_ROOT or a in MPROP_CUSTOM:
                        res.count('decl.module-property.' + d['k'])
                    else:
                        res.count('decl.' + d['k'] + ('' if d.get('inherit', True) else '.noinherit'))
                    if d['k'] == 'param' and d.get('dtkw'):
                        res.count('decl.datatype-properties-as-keywords')
                    if d['k'] == 'param' and d.get('dt'):
                        res.count('decl.datatype.' + str(d['dt']['t'] if isinstance(d['dt'], dict) else d['dt']))
            elif st['op']['op'] == 'mutate':
                res.count('mutate.%s%s%s.%s' % (st['op']['kind'], '.member' if st['op'].get('path') else '',
                                                '.register_input' if st.get('registered') else '', st['outcome'].split(':')[0]))
            if st['op']['op'] in ('inst', 'load'):
                o = st['op']
                if o.get('from') is not None and o['op'] == 'inst':
                    again = any(p['op']['op'] == 'inst' and p['outcome'] == 'ok' and p is not st and
                                (p['op'].get('from') or p['op']['name']) == o['from'] for p in steps[:steps.index(st)])
                    res.count('inst.from-loaded-section.' + ('again(restart)' if again else 'first'))
                if o.get('share'):
                    res.count('cfg.shares-a-param-object')
                if o.get('groups'):
                    res.count('cfg.groups' + ('.of-shared-param' if set(o.get('share') or ()) & {m for ms in o['groups'].values() for m in ms} else ''))
                if any(isinstance(c, dict) and 'constant' in c for c in (o.get('cfg') or {}).values()):
                    res.count('cfg.constant')
                if o['op'] == 'inst' and st['outcome'] == 'ok':
                    mv = dict(st['after'].get(st['target'], {}).get('mvals') or [])
                    res.count('inst.features=%d' % len(json.loads(mv.get('features') or '[]')))
                    if 'ctrl' in st['after'].get(st['target'], {}):
                        res.count('inst.with-input-callbacks')
            elif st['op']['op'] == 'inst' and any(k in MPROP_ROOT or k in MPROP_CUSTOM for k in st['op'].get('cfg') or ()):
                res.count('inst.cfg.module-property.' + st['outcome'].split(':')[0])
        if any(len({x.rsplit(':', 1)[0] for x in g if '/prop/' in x}) > 1 and any(x.startswith('inst:') for x in g if '/prop/' in x)
               for st in steps for g in st['part']):
            res.count('latent.mutable-property-value-shared-between-class-and-instance')
        res.count('classes=%s' % min(ncls, 6))
        res.count('multi-inheritance' if multi else 'single-inheritance-only')
        if (multi or override) and ninst and ncls >= 2:
            res.nontriv(program)
        if len(res.samples) < 3 and multi and ninst and nmut and len(ops) <= 7:
            res.samples.append({'program': program, 'outcomes': [st['outcome'] for st in steps]})
        if len(batch_reqs) >= JOBS:
            flush()
    flush()
    return res


def replay(ctx, payload):
    import random
    program = payload['case']
    try:
        init, steps = fresh(job_run, program)
    except RuntimeError as e:
        print('harness problem:', e)
        return 2
    for i, st in enumerate(steps):
        print(i, json.dumps(st['op']), '->', st['outcome'], st.get('mro') or '')
    dis, viols = run_case(ctx, program, random.Random(1))
    if dis is not None:
        print('model/implementation disagreement at', dis['at'], dis['owner'])
        print('  model:', json.dumps(dis['model'])[:800])
        print('  impl :', json.dumps(dis['impl'])[:800])
    for v in viols:
        print('judge:', v['sig'], '-', v['what'])
        d = v.get('detail') or {}
        if 'step' in d:
            run_ = steps
            if d.get('in') == 'second':
                run_ = fresh(job_run, v['case']['second'])[1]
                for i, st in enumerate(run_):
                    print('  other order', i, json.dumps(st['op'])[:300], '->', st['outcome'])
            prev = init['dumps'] if d['step'] == 0 else run_[d['step'] - 1]['after']
            for o in d['owners']:
                print('  before', o, json.dumps(prev.get(o))[:1200])
                print('  after ', o, json.dumps(run_[d['step']]['after'].get(o))[:1200])
    if not viols:
        print('judge: ok')
    return 1 if viols else 0
