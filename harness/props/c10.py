"""C10 — Configuration is applied faithfully; erroneous configuration is rejected whole."""
import json
import logging
import os
import re
import shutil
import sys
import tempfile
import types
from fractions import Fraction

from check import Result

META = {
    'level_text': 'Theorems for every class description, every configuration and every datatype oracle: config_applied '
                  '(an accepted configuration shows on the instance: datatype = class datatype - for a Limit parameter the '
                  'datatype derived from its base - with the configured overrides applied in order, start value = conversion of '
                  'the configured value by that FINAL datatype, configured own properties stored), modprops_applied (the value '
                  'configured for a module property - bare, Param(v) or dict - converted by the property datatype is the value '
                  'of the instance), writes_once_before_poll (every configured or class-level value of a parameter with a '
                  'write method is handed to it exactly once, before the first poll, for every write oracle incl. common write '
                  'handlers; nothing else is written), rejected_whole (unknown name, unknown key in a module-property dict, '
                  'unknown / ill-typed parameter property, ill-typed value or default, ill-typed module property, missing '
                  'mandatory property, missing needscfg value, inverted limits, derived Limit parameters included => error '
                  'list non-empty), optional_skipped / optional_cfg_rejected (the constructor loop over `accessibles` with '
                  'its `continue` for optional, not implemented accessibles is the loop over the implemented ones and never '
                  'takes their cfg entry out of cfgdict: such an entry is reported), errors_complete (every failing module '
                  'is reported, a module is registered xor reported, the node starts iff nothing is reported), dsl_faithful '
                  '(the dict Mod(name, cls, description, args...) builds - Param.__init__ with its Undef sentinel, wrapping of '
                  'bare values, the Group loop - is the configuration the written text stands for) and its corollary '
                  'written_config_rejected (an error written in the file, e.g. p=None, is rejected), merge_first_wins / '
                  'file_last_wins (load_config keeps, for each name, the definition of the first file that has it, records the '
                  'origin for merged-in modules and lists names occurring in several files as ambiguous), and for module '
                  'properties naming another module (Attached): attachments_settled (every module of a node is reported as not '
                  'created, or reported as not initialised, or registered with every attachment its configuration gives applied), '
                  'attached_applied (on a node which starts, each attachment names a module of the node of the kind asked for '
                  'and the attribute of the instance is that module - mandatory or optional property, used during '
                  'initialisation or not), bad_attachment_reported (a name no module has, or a module of the wrong kind: the '
                  'module is among the failing modules reported and the node does not start), attachments_accepted (every '
                  'module created, every given attachment good, no module attached to itself transitively => no module fails '
                  'to initialise, the node starts), init_fuel_suffices (the depth bound of the model of SecNode.get_module is '
                  'never reached), main_unit_applied (for every unit oracle: the datatype every parameter of an accepted '
                  'configuration shows - scalar, array, tuple / struct members, derived <p>_limits - is its datatype after its '
                  'overrides with the unit of `value` AFTER the overrides of `value` put in for `$`; main_unit_only_units: that '
                  'step changes nothing else), cfg_lookup_dir_major / earlier_dir_shadows / lookup_judged (to_config_path: a '
                  'configuration name stands for the file of the FIRST configuration directory which has it under any of the '
                  'suffixes _cfg.py, .py, none - in this order of preference within the directory -, a later directory is '
                  'never preferred; load_config parses exactly these files in order or refuses).  The hypotheses of '
                  'the theorems (WellFormed class description, well-written Mod arguments) are checked by Lean on every case '
                  '(wellFormedB_sound, writtenOkB_sound).  The model is tied to frappy/modulebase.py, params.py, properties.py, '
                  'secnode.py, config.py by a correspondence run over generated (class, cfg) pairs through the real SecNode / '
                  'process_file / load_config (streams: module, node, merge, dict built by Mod(...), configuration left '
                  'unchanged by a start), and the Lean monitors judge every observed record - for config files against the '
                  'configuration AS WRITTEN, for every module of every start (a clean node is started twice from the same '
                  'loaded configuration).  Configurations given as files are loaded and processed by the real Server '
                  '(Server.__init__, Server._processCfg incl. its stderr report and sys.exit); most of them are started by '
                  'NAME from 1-3 configuration directories, and a separate stream lets the real Server load names which exist '
                  'in several directories / under several suffixes / not at all (confdir given through testinit, '
                  'FRAPPY_CONFDIR or a [FRAPPY] section), judged by lookupB on the files parsed and on the content loaded.',
    'level_note': 'Trusted: Lean kernel + axioms propext/Classical.choice/Quot.sound; datatypes are oracles in the theorems '
                  '(laws assumed: none beyond totality; the driver instance for double/int/string/bool/enum/array/tuple on a '
                  'quarter grid is checked by the correspondence run only); the text of a config file is executed Python - '
                  'the harness writes the text from the argument lists it sends to Lean; error texts are classified by the '
                  'harness.  That a start does not alter the loaded configuration (Python aliasing) is outside the pure model: '
                  'it is observed (correspondence stream) and its consequences are judged on the second start and on modules '
                  'sharing one Param object.',
    'trusted': [
        'harness classification of error texts into kinds (by the entry they mention)',
        'concrete datatype instance of the driver (FrappyModel/Klass/ConfigDT.lean): exercised, not proved against datatypes.py',
        'values on a quarter grid: binary64 represents them exactly and the relative tolerance of FloatRange.validate never bridges a step',
        'rendering of the generated argument lists as Python text (repr) and its parsing by exec',
    ],
    'modelled_not_verified': [
        'exec of the config file text (config.py:process_file); Mod/Param/Group calls are modelled, arbitrary Python in a file is not',
        'Parameter.finish for `constant`, `datatype` given in the cfg, that configured Command properties show in the description',
        'the main-unit step is modelled as a pass over the accepted instance (the constructor runs it before the final '
        'checks): assumes that replacing a unit does not change the outcome of checkProperties (proved for the driver instance: '
        'checkDT_setMainUnit); datatype.unit / set_main_unit are oracles, the driver instance (FloatRange unit, ArrayOf.unit, '
        'recursion into array and tuple members) is checked by the correspondence run only',
        'StructOf parameters are observed as the tuple of their members in the order of the sorted member names (values, '
        'datainfo, class description): optional members and arrays of structs are not generated',
        'the file system is an oracle (isFile) - the harness tells Lean which files it wrote; GeneralConfig.init (where confdir '
        'comes from) is exercised, not modelled',
        'mandatory properties of Parameter objects (description/datatype): always present in generated classes',
        'Server.__init__ / Server._processCfg (load_config, SecNode + Dispatcher, create_modules, the report on stderr, '
        'sys.exit(1)) are not modelled line by line: every configuration given as files is processed by the real Server '
        'in-process (SystemExit caught, stderr captured: the report the operator gets is what is classified; a second '
        '_processCfg of the same Server is the restart), raw-dict configurations by vlib.node.Node; a real Server in a '
        'subprocess runs on four fixed configurations',
        'attached modules: the model of SecNode.get_module / Attached.__get__ covers resolution order, kind check, failed and '
        'cyclic targets and the second run of a failing constructor; Pinata modules (scanModules), an Attached accessed inside a '
        'constructor, and what earlyInit/initModule do besides asking for attached modules are not modelled',
    ],
    'assumptions': ['configuration dicts have unique keys (Python dict)',
                    'base parameters of Limit parameters precede them and have a datatype',
                    'a start only reads the loaded configuration (checked by observation on every case)',
                    'the parameter called `value`, if a class has one, has a datatype (valueTypedB, checked on every case); the main '
                    'unit does not itself contain `$` (never generated: it would be substituted into itself)',
                    'reading of the statement for cfg names: the configuration directories are a path list - an earlier directory '
                    'shadows later ones (the rule is read off to_config_path; it is documented nowhere else)',
                    'module names of a node are distinct (a dict); the empty string as value of an Attached property means '
                    '"not attached" (docstring of Attached), also for a mandatory one'],
}

GENMOD = 'frappy_verifc10gen'
Q = Fraction(1, 4)


# ----------------------------------------------------------------------------------------
# canonical values / datatypes
# ----------------------------------------------------------------------------------------
def canon(v):
    """python value -> JSON of CVal"""
    if v is None:
        return None
    if isinstance(v, bool):
        return v
    if type(v).__name__ == 'EnumMember':
        return {'n': 4 * int(v)}
    if isinstance(v, (int, float)):
        try:
            f = Fraction(v) * 4
        except (ValueError, OverflowError):
            return {'x': repr(v)}
        if f.denominator == 1:
            return {'n': int(f)}
        return {'x': repr(v)}
    if isinstance(v, str):
        return {'s': v}
    if isinstance(v, (list, tuple)):
        return {'l': [canon(x) for x in v]}
    if isinstance(v, dict):
        # a struct value is observed as the tuple of its members in the order of the (sorted) member names - see lean_dt
        return {'l': [canon(v[k]) for k in sorted(v)]}
    return {'x': type(v).__name__}


def wrap(v, present=True):
    return {'v': canon(v)} if present else None


def qv(q):
    """quarters -> python number (float unless integral, then int half of the time is decided by the caller)"""
    return q / 4


def build_dt(c):
    from frappy.datatypes import FloatRange, IntRange, StringType, BoolType, EnumType, ArrayOf, TupleOf
    t = c['t']
    if t == 'double':
        return FloatRange(None if c['min'] is None else c['min'] / 4, None if c['max'] is None else c['max'] / 4,
                          unit=c['unit'])
    if t == 'int':
        return IntRange(c['min'], c['max'])
    if t == 'string':
        return StringType(c['minchars'], c['maxchars'], isUTF8=c['utf8'])
    if t == 'bool':
        return BoolType()
    if t == 'enum':
        return EnumType('e', **{k: v for k, v in c['members']})
    if t == 'array':
        return ArrayOf(build_dt(c['members']), c['minlen'], c['maxlen'])
    if t == 'tuple':
        return TupleOf(*[build_dt(m) for m in c['members']])
    if t == 'struct':
        from frappy.datatypes import StructOf
        return StructOf(**{n: build_dt(m) for n, m in zip(c['names'], c['members'])})
    raise ValueError(t)


def lean_dt(c):
    """the datatype as sent to Lean: StructOf(a=…, b=…) is observed as the tuple of its members in the order of the sorted
    names (values: `canon`; datainfo: `datainfo_to_cdt`) - conversion, limits, units and the recursion of set_main_unit
    are member-wise in both; a missing or extra key is a tuple of the wrong length"""
    if c is None:
        return None
    if c['t'] == 'struct':
        return {'t': 'tuple', 'members': [lean_dt(m) for m in c['members']]}
    if c['t'] == 'tuple':
        return {'t': 'tuple', 'members': [lean_dt(m) for m in c['members']]}
    if c['t'] == 'array':
        return dict(c, members=lean_dt(c['members']))
    return c


def datainfo_to_cdt(d):
    """described datainfo -> JSON of CDT (None when outside the modelled fragment)"""
    import sys as _s
    t = d.get('type')
    if t == 'double':
        def lim(x):
            if x is None or abs(x) >= _s.float_info.max:
                return None
            f = Fraction(x) * 4
            return int(f) if f.denominator == 1 else 'off-grid'
        return {'t': 'double', 'min': lim(d.get('min')), 'max': lim(d.get('max')), 'unit': d.get('unit', '')}
    if t == 'int':
        return {'t': 'int', 'min': d['min'], 'max': d['max']}
    if t == 'string':
        return {'t': 'string', 'minchars': d.get('minchars', 0), 'maxchars': d.get('maxchars', 1 << 64), 'utf8': d.get('isUTF8', False)}
    if t == 'bool':
        return {'t': 'bool'}
    if t == 'enum':
        return {'t': 'enum', 'members': sorted([[k, v] for k, v in d['members'].items()], key=lambda m: m[1])}
    if t == 'array':
        m = datainfo_to_cdt(d['members'])
        return None if m is None else {'t': 'array', 'minlen': d.get('minlen', 0), 'maxlen': d['maxlen'], 'members': m}
    if t == 'tuple':
        ms = [datainfo_to_cdt(m) for m in d['members']]
        return None if None in ms else {'t': 'tuple', 'members': ms}
    if t == 'struct' and not d.get('optional'):
        ms = [datainfo_to_cdt(d['members'][k]) for k in sorted(d['members'])]
        return None if None in ms else {'t': 'tuple', 'members': ms}
    return None


# ----------------------------------------------------------------------------------------
# classes
# ----------------------------------------------------------------------------------------
UNITS = ['', 'K', 'mbar', 'T']
REF_UNITS = ['$', '$/s', '%/$', '$$']          # units referring to the unit of the main value
KINDS = ['KA', 'KB']


def gen_unit(rng):
    return rng.choice(REF_UNITS) if rng.random() < 0.3 else rng.choice(UNITS)


def gen_tuple(rng):
    """TupleOf(...) of 2-3 numeric members (a window: tolerance and time; a table row): no unit of its own, the units -
    also references to the main unit - sit in the members"""
    ms = []
    for _ in range(rng.choice([2, 2, 3])):
        m = gen_dt(rng, False)
        while m['t'] not in ('double', 'int'):
            m = gen_dt(rng, False)
        ms.append(m)
    return {'t': 'tuple', 'members': ms}


def gen_dt(rng, allow_array=True):
    r = rng.random()
    if allow_array and r < 0.08:
        c = gen_tuple(rng)
        if rng.random() < 0.4:                     # StructOf: control parameters (p, i, d, tau)
            c = {'t': 'struct', 'names': sorted(rng.sample(['d', 'i', 'p', 'tau'], len(c['members']))), 'members': c['members']}
        return c
    if r < 0.35:
        lo = rng.choice([-40, -8, 0, 0, 4, 10])
        hi = lo + rng.choice([0, 4, 16, 40, 400])
        return {'t': 'double', 'min': lo, 'max': hi, 'unit': gen_unit(rng)}
    if r < 0.55:
        lo = rng.choice([-10, 0, 0, 1, 5])
        return {'t': 'int', 'min': lo, 'max': lo + rng.choice([0, 1, 5, 100])}
    if r < 0.7:
        lo = rng.choice([0, 0, 0, 1, 2])
        return {'t': 'string', 'minchars': lo, 'maxchars': lo + rng.choice([0, 2, 6, 20]), 'utf8': rng.random() < 0.2}
    if r < 0.78:
        return {'t': 'bool'}
    if r < 0.88 or not allow_array:
        names = rng.sample(['off', 'on', 'auto', 'hold', 'ramp'], rng.randint(1, 4))
        vals = rng.sample(range(0, 8), len(names))
        return {'t': 'enum', 'members': sorted([[n, v] for n, v in zip(names, vals)], key=lambda m: m[1])}
    lo = rng.choice([0, 0, 1, 2])
    if rng.random() < 0.25:
        m = gen_tuple(rng)                     # a table: ArrayOf(TupleOf(...))
    else:
        m = gen_dt(rng, False)
        while m['t'] not in ('double', 'int'):
            m = gen_dt(rng, False)
    return {'t': 'array', 'minlen': lo, 'maxlen': lo + rng.choice([0, 1, 3]), 'members': m}


def valid_value(rng, c, where='any'):
    """a python value converting under datatype c; where: inside/at/outside the limits (numbers only)"""
    t = c['t']
    if t == 'double':
        lo = -400 if c['min'] is None else c['min']
        hi = 400 if c['max'] is None else c['max']
        w = where if where != 'any' else rng.choice(['inside', 'inside', 'at', 'outside'])
        if w == 'at':
            q = rng.choice([lo, hi])
        elif w == 'outside':
            q = rng.choice([lo - rng.choice([1, 4, 40]), hi + rng.choice([1, 4, 40])])
        else:
            q = rng.randint(lo, hi)
        v = q / 4
        if q % 4 == 0 and rng.random() < 0.5:
            v = int(v)
        return v
    if t == 'int':
        w = where if where != 'any' else rng.choice(['inside', 'inside', 'at', 'outside'])
        if w == 'at':
            i = rng.choice([c['min'], c['max']])
        elif w == 'outside':
            i = rng.choice([c['min'] - rng.choice([1, 7]), c['max'] + rng.choice([1, 7])])
        else:
            i = rng.randint(c['min'], c['max'])
        return float(i) if rng.random() < 0.2 else i
    if t == 'string':
        n = rng.randint(c['minchars'], min(c['maxchars'], c['minchars'] + 8))
        return ''.join(rng.choice('abcXYZ 09_') for _ in range(n))
    if t == 'bool':
        return rng.choice([True, False, 0, 1])
    if t == 'enum':
        n, v = rng.choice(c['members'])
        return rng.choice([n, v])
    if t == 'array':
        n = rng.randint(c['minlen'], c['maxlen'])
        return [valid_value(rng, c['members'], where) for _ in range(n)]
    if t == 'tuple':
        return [valid_value(rng, m, where) for m in c['members']]
    if t == 'struct':
        return {n: valid_value(rng, m, where) for n, m in zip(c['names'], c['members'])}
    raise ValueError(t)


def bad_value(rng, c):
    """a python value that does NOT convert under c"""
    t = c['t']
    if t == 'double':
        return rng.choice(['abc', None, [1], '1.5'])
    if t == 'int':
        return rng.choice(['abc', None, 1.5, 0.25, [2]])
    if t == 'string':
        cands = [5, None, 1.5, ['a'], 'x' * (c['maxchars'] + 1)]
        if c['minchars'] > 0:
            cands.append('')
        if not c['utf8']:
            cands.append('ä' * max(1, c['minchars']))
        return rng.choice(cands)
    if t == 'bool':
        return rng.choice(['yes', 2, None, 0.5])
    if t == 'enum':
        return rng.choice(['nosuch', 99, None, [1]])
    if t == 'array':
        cands = [5, None, [valid_value(rng, c['members'], 'inside')] * (c['maxlen'] + 1), ['x'] * max(1, c['minlen'])]
        return rng.choice(cands)
    if t == 'tuple':
        ok = [valid_value(rng, m, 'inside') for m in c['members']]
        return rng.choice([5, None, ok[:-1], ok + [1], ['x'] * len(ok)])
    if t == 'struct':
        ok = {n: valid_value(rng, m, 'inside') for n, m in zip(c['names'], c['members'])}
        return rng.choice([5, None, {n: ok[n] for n in c['names'][1:]}, dict(ok, zz=1), {n: 'x' for n in ok}])
    raise ValueError(t)


def gen_class(rng, idx):
    """class spec (JSON-able)"""
    params = []
    names = ['pa', 'pb', 'pc', 'pd', 'pe']
    if rng.random() < 0.45:
        names[0] = 'value'                     # a predefined name: exported without underscore; its unit is the main unit
    for name in names[:rng.randint(1, 5)]:
        c = gen_dt(rng)
        if name == 'value' and rng.random() < 0.8:
            while c['t'] != 'double' and not (c['t'] == 'array' and c['members']['t'] == 'double'):
                c = gen_dt(rng)
            (c if c['t'] == 'double' else c['members'])['unit'] = rng.choice(UNITS[1:] + UNITS[1:] + [''])
        if name == 'value':
            # the main value does not refer to itself: a main unit containing `$` is never generated (observation in the
            # design notes: it would be substituted into itself, twice where a datatype object is shared)
            def plain(d):
                if d['t'] == 'double' and '$' in d['unit']:
                    d['unit'] = rng.choice(UNITS)
                for m in ([d['members']] if d['t'] == 'array' else d['members'] if d['t'] == 'tuple' else []):
                    plain(m)
            plain(c)
        needscfg = rng.random() < 0.2
        # a required value (needscfg) is required whether or not the parameter has a default: a default is not a
        # configured value (it is never written to the hardware)
        has_default = rng.random() < (0.5 if needscfg else 0.8)
        p = {'name': name, 'dt': c, 'limit': None, 'base': '', 'needscfg': needscfg,
             'write': rng.random() < 0.5, 'read': rng.random() < 0.3, 'readonly': rng.random() < 0.4,
             'default': wrap(valid_value(rng, c, 'inside')) if has_default else None,
             'pyvalue_default': None, 'value': None, 'export': True}
        if has_default:
            p['pyvalue_default'] = p['default']['v']
        if needscfg and rng.random() < 0.4:
            p['inherit'] = True
        if (not needscfg) and rng.random() < 0.12:
            v = valid_value(rng, c, 'inside')
            p['value'] = wrap(v)                # class-level value: written at start-up even without cfg
        if rng.random() < 0.1:
            p['export'] = rng.choice([False, 'x' + name])
        params.append(p)
        if c['t'] in ('double', 'int') and c.get('min') is not None and rng.random() < 0.3:
            k = rng.choice(['min', 'max', 'limits'])
            params.append({'name': f'{name}_{k}', 'dt': None, 'gdt': c if k != 'limits' else None,
                           'limit': k, 'base': name, 'needscfg': False,
                           'write': rng.random() < 0.4, 'read': False, 'readonly': False, 'default': None,
                           'pyvalue_default': None, 'value': None, 'export': True})
    groups = []
    if rng.random() < 0.35:
        # parameters written through ONE shared method: rwhandler.CommonWriteHandler (pops the configured values of the
        # siblings from writeDict), rwhandler.WriteHandler (one call per parameter), or a hand-written write_<p> popping siblings
        keys = ['ga', 'gb', 'gc'][:rng.choice([2, 2, 3])]
        kind = rng.choice(['common', 'common', 'each', 'manual'])
        for name in keys:
            c = gen_dt(rng, False)
            while c['t'] not in ('double', 'int'):
                c = gen_dt(rng, False)
            params.append({'name': name, 'dt': c, 'limit': None, 'base': '', 'needscfg': False, 'write': False, 'read': False,
                           'readonly': False, 'default': wrap(valid_value(rng, c, 'inside')), 'pyvalue_default': None,
                           'value': wrap(valid_value(rng, c, 'inside')) if rng.random() < 0.15 else None, 'export': True})
        groups.append({'kind': kind, 'keys': keys})
    modprops = []
    if rng.random() < 0.6:
        modprops.append({'name': 'mp', 'dt': {'t': 'int', 'min': 0, 'max': 5}, 'mandatory': True, 'classValue': None})
    if rng.random() < 0.5:
        modprops.append({'name': 'op', 'dt': {'t': 'string', 'minchars': 0, 'maxchars': 8, 'utf8': False}, 'mandatory': False,
                         'classValue': None})
    # accessibles declared `optional=True` in a base class: the generated class implements any subset of them; the
    # others do not exist on the module (a cfg entry naming one is an unknown name)
    optional = []
    if rng.random() < 0.35:
        for name in rng.sample(['oa', 'ob'], rng.randint(1, 2)):
            c = gen_dt(rng, False)
            impl = rng.random() < 0.5
            optional.append({'name': name, 'kind': 'param', 'impl': impl, 'dt': c})
            p = {'name': name, 'dt': c, 'limit': None, 'base': '', 'needscfg': False,
                 'write': rng.random() < 0.5, 'read': False, 'readonly': rng.random() < 0.3,
                 'default': wrap(valid_value(rng, c, 'inside')), 'pyvalue_default': None, 'value': None, 'export': True,
                 'opt': True}
            if impl:
                params.append(p)
            else:
                optional[-1]['decl'] = p
        if rng.random() < 0.5:
            optional.append({'name': 'oc', 'kind': 'cmd', 'impl': rng.random() < 0.5})
    # what the class IS (mixin classes other modules may ask for) and which other modules it wants attached:
    # `Attached(basecls, mandatory=…)` properties, resolved by the node once all modules are constructed; a class may use
    # the attribute itself while it is initialised (like HasIO.io) or only later (like HasOutputModule.output_module)
    kinds = [k for k in KINDS if rng.random() < 0.4]
    attached = []
    if rng.random() < 0.45:
        for name in ['att', 'att2'][:rng.choice([1, 1, 2])]:
            attached.append({'name': name, 'base': rng.choice(['Module'] + KINDS + KINDS), 'mandatory': rng.random() < 0.4,
                             'init': rng.random() < 0.3})
    return {'id': f'C{idx}', 'params': params, 'modprops': modprops, 'cmd': rng.random() < 0.3, 'groups': groups,
            'optional': optional, 'kinds': kinds, 'attached': attached}


def pyval(cv):
    """JSON of CVal -> python value (for class-level defaults)"""
    if cv is None or isinstance(cv, bool):
        return cv
    if 'n' in cv:
        q = cv['n']
        return q // 4 if q % 4 == 0 else q / 4
    if 's' in cv:
        return cv['s']
    if 'l' in cv:
        return [pyval(x) for x in cv['l']]
    raise ValueError(cv)


def pyval_dt(c, cv):
    """class-level default / value of a parameter with datatype c"""
    if c is not None and c['t'] == 'struct' and isinstance(cv, dict) and 'l' in cv:
        return {n: pyval(x) for n, x in zip(c['names'], cv['l'])}
    return pyval(cv)


def build_class(spec):
    from frappy.modules import Module
    from frappy.params import Parameter, Command, Limit
    from frappy.properties import Property
    ns = {}
    basens = {}
    for o in spec.get('optional', []):
        if o['kind'] == 'cmd':
            basens[o['name']] = Command(None, result=None, description='optional command', optional=True)
            if o['impl']:
                def ocmd(self):
                    """optional command, implemented"""
                ocmd.__name__ = o['name']
                ns[o['name']] = Command()(ocmd)
        elif not o['impl']:
            p = o['decl']
            basens[p['name']] = Parameter(f'param {p["name"]}', build_dt(p['dt']), readonly=p['readonly'],
                                          default=pyval_dt(p['dt'], p['default']['v']), optional=True)
    for p in spec['params']:
        name = p['name']
        if p.get('opt'):
            kw = {'readonly': p['readonly'], 'needscfg': p['needscfg'], 'default': pyval_dt(p['dt'], p['default']['v'])}
            basens[name] = Parameter(f'param {name}', build_dt(p['dt']), optional=True, **kw)
            ns[name] = Parameter()          # implemented here: properties are inherited
        elif p.get('inherit'):
            # declared in a base class (datatype, default); this class only says that the value MUST be configured
            kw = {'readonly': p['readonly']}
            if p['default'] is not None:
                kw['default'] = pyval_dt(p['dt'], p['default']['v'])
            if p['export'] is not True:
                kw['export'] = p['export']
            basens[name] = Parameter(f'param {name}', build_dt(p['dt']), **kw)
            ns[name] = Parameter(needscfg=True)
        elif p['limit']:
            kw = {}
            if p['export'] is not True:
                kw['export'] = p['export']
            ns[name] = Limit(**kw)
        else:
            kw = {'readonly': p['readonly'], 'needscfg': p['needscfg']}
            if p['default'] is not None:
                kw['default'] = pyval_dt(p['dt'], p['default']['v'])
            if p['value'] is not None:
                kw['value'] = pyval_dt(p['dt'], p['value']['v'])
            if p['export'] is not True:
                kw['export'] = p['export']
            ns[name] = Parameter(f'param {name}', build_dt(p['dt']), **kw)
        if p['write']:
            def wfunc(self, value, _n=name):
                self._vlog.append(('driver', _n, canon(value)))
                return value
            wfunc.__name__ = 'write_' + name
            ns['write_' + name] = wfunc
        if p.get('read'):
            def rfunc(self, _n=name):
                self._vlog.append(('read', _n))
                return getattr(self, _n)
            rfunc.__name__ = 'read_' + name
            ns['read_' + name] = rfunc
    for g in spec.get('groups', []):
        from frappy.rwhandler import CommonWriteHandler, WriteHandler
        keys = list(g['keys'])
        if g['kind'] == 'common':
            def wcommon(self, values, _keys=keys):
                t = values.as_tuple(*_keys)
                self._vlog.append(('driver', '+'.join(_keys), canon(list(t))))
                for k, v in zip(_keys, t):
                    setattr(self, k, v)
            ns['write_grp'] = CommonWriteHandler(keys)(wcommon)
        elif g['kind'] == 'each':
            def weach(self, pname, value):
                self._vlog.append(('driver', pname, canon(value)))
                return value
            ns['write_grp'] = WriteHandler(keys)(weach)
        else:
            def wfirst(self, value, _n=keys[0], _sib=keys[1:]):
                extra = {k: self.writeDict.pop(k) for k in _sib if k in self.writeDict}
                self._vlog.append(('driver', _n, canon(value)))
                for k, v in extra.items():
                    setattr(self, k, v)
                return value
            wfirst.__name__ = 'write_' + keys[0]
            ns['write_' + keys[0]] = wfirst
            for name in keys[1:]:
                def wplain(self, value, _n=name):
                    self._vlog.append(('driver', _n, canon(value)))
                    return value
                wplain.__name__ = 'write_' + name
                ns['write_' + name] = wplain
    for mp in spec['modprops']:
        kw = {'mandatory': True} if mp['mandatory'] else {'default': ''}
        ns[mp['name']] = Property('property ' + mp['name'], build_dt(mp['dt']), **kw)
    if spec['cmd']:
        def go(self):
            """a command"""
        ns['go'] = Command()(go)

    def doPoll(self):
        self._vlog.append(('doPoll',))
    ns['doPoll'] = doPoll
    ns['_vlog'] = None
    ns['__module__'] = GENMOD
    from frappy.modules import Attached
    for a in spec.get('attached', []):
        ns[a['name']] = Attached(kind_class(a['base']), mandatory=a['mandatory'])
    used = [a['name'] for a in spec.get('attached', []) if a['init']]
    if used:
        def initModule(self, _used=tuple(used)):
            base_init(self)
            for n in _used:
                getattr(self, n)              # the module's own code needs the attached module to initialise
        ns['initModule'] = initModule
    base = Module
    if basens:
        basens['__module__'] = GENMOD
        base = type('B' + spec['id'], (Module,), basens)
    base_init = base.initModule
    cls = type(spec['id'], tuple(kind_class(k) for k in spec.get('kinds', [])) + (base,), ns)
    return cls


_KIND_CLASSES = {}


def kind_class(name):
    """mixin classes a generated module class may inherit from, asked for by `Attached(basecls)`"""
    from frappy.modules import Module
    if name == 'Module':
        return Module
    if name not in _KIND_CLASSES:
        _KIND_CLASSES[name] = type(name, (), {'__module__': GENMOD})
    return _KIND_CLASSES[name]


MODULE_PROP_DTS = {
    'export': {'t': 'bool'},
    'group': {'t': 'string', 'minchars': 0, 'maxchars': 1 << 64, 'utf8': False},
    'description': {'t': 'string', 'minchars': 0, 'maxchars': 1 << 64, 'utf8': True},
    'visibility': {'t': 'enum', 'members': [['user', 1], ['advanced', 2], ['expert', 3]]},
    'pollinterval': {'t': 'double', 'min': None, 'max': 480, 'unit': ''},    # FloatRange(0.1, 120): lower limit off-grid, never probed
    'slowinterval': {'t': 'double', 'min': None, 'max': 480, 'unit': ''},
}


def class_desc(spec, cls):
    """the class description sent to Lean, read off the REAL class (names and order) and the spec (datatypes)"""
    from frappy.params import Parameter
    from frappy.properties import UNSET
    byname = {p['name']: p for p in spec['params']}
    own_mp = {m['name']: m for m in spec['modprops']}
    modprops = []
    from frappy.modules import Attached
    att = [[k, po.basecls.__name__] for k, po in cls.propertyDict.items() if isinstance(po, Attached)]
    first = [a['name'] for a in spec.get('attached', []) if a['init']]
    # resolution order: what the module's own initModule asks for, then the loop of SecNode.get_module over propertyDict
    att = [a for n in first for a in att if a[0] == n] + [a for a in att if a[0] not in first]
    for k, po in cls.propertyDict.items():
        if k in own_mp:
            dt = own_mp[k]['dt']
        elif isinstance(po, Attached):
            dt = {'t': 'string', 'minchars': 0, 'maxchars': 1 << 64, 'utf8': False}          # StringType()
        else:
            dt = MODULE_PROP_DTS.get(k)
        class_value = None
        if po.value is not UNSET:
            class_value = {'v': canon(po.value)}
        elif not po.mandatory and k not in ('implementation', 'interface_classes', 'features'):
            class_value = None
        if k in ('implementation', 'interface_classes', 'features'):
            class_value = {'v': {'x': 'auto'}}          # set automatically by the constructor (step 3)
        modprops.append({'name': k, 'dt': dt, 'mandatory': bool(po.mandatory), 'classValue': class_value})
    consumes = {}
    for g in spec.get('groups', []):
        for k in g['keys']:
            if g['kind'] == 'common':
                consumes[k] = [x for x in g['keys'] if x != k]
            elif g['kind'] == 'manual' and k == g['keys'][0]:
                consumes[k] = list(g['keys'][1:])
    params, other = [], []
    for aname, aobj in cls.accessibles.items():
        if aobj.optional:
            params.append({'name': aname, 'optional': True})
            continue
        if isinstance(aobj, Parameter) and aname in byname:
            p = byname[aname]
            own = [['readonly', bool(aobj.readonly)], ['visibility', {'n': 4 * int(aobj.visibility)}],
                   ['export', canon(aobj.export)]]
            params.append({'name': aname, 'dt': lean_dt(p['dt']), 'limit': p['limit'], 'base': p['base'],
                           'value': wrap(aobj.value, aobj.value is not None),          # as stored on the class (converted)
                           'default': wrap(aobj.default, aobj.default is not None), 'needscfg': bool(aobj.needscfg),
                           'write': ('write_' + aname) in cls.wrappedAttributes, 'own': own,
                           'consumes': consumes.get(aname, [])})
        else:
            other.append(aname)
    return {'modprops': modprops, 'params': params, 'other': other,
            'kinds': [b.__name__ for b in cls.__mro__ if b.__name__ in KINDS + ['Module']], 'attached': att}


# ----------------------------------------------------------------------------------------
# configurations
# ----------------------------------------------------------------------------------------
def final_dt_guess(c, items):
    """datatype with the generated overrides applied (generator-side bookkeeping only, to aim values)"""
    c = json.loads(json.dumps(c))
    for k, v in items:
        if k in ('min', 'max') and c['t'] in ('double', 'int') and isinstance(v, (int, float)) and not isinstance(v, bool):
            c[k] = int(v * 4) if c['t'] == 'double' else int(v)
        elif k in ('minchars', 'maxchars') and c['t'] == 'string' and isinstance(v, int) and v >= 0:
            c[k] = v
        elif k in ('minlen', 'maxlen') and c['t'] == 'array' and isinstance(v, int) and v >= 0:
            c[k] = v
        elif k == 'unit' and c['t'] == 'double' and isinstance(v, str):
            c[k] = v
    return c


def gen_param_cfg(rng, p, force_value=False):
    """list of (key, pyvalue) for one parameter: mostly valid"""
    items = []
    c = p['dt'] or p.get('gdt')          # for <base>_min/_max: the class datatype of the base (generator bookkeeping only)
    if c is not None:
        t = c['t']
        if t in ('double', 'int') and rng.random() < 0.4:
            lo = c['min'] if c['min'] is not None else -40
            hi = c['max'] if c['max'] is not None else 40
            step = 1 if t == 'double' else 1
            if rng.random() < 0.6:
                nhi = hi + rng.choice([-2, -1, 1, 4, 40]) * step
                if nhi >= lo:
                    items.append(('max', nhi / 4 if t == 'double' else nhi))
                    hi = nhi
            if rng.random() < 0.5:
                nlo = lo + rng.choice([-40, -4, -1, 1, 2]) * step
                if nlo <= hi:
                    items.append(('min', nlo / 4 if t == 'double' else nlo))
        if t == 'double' and rng.random() < 0.3:
            items.append(('unit', rng.choice(['mK', 'V', 'bar'] if p['name'] == 'value' else ['mK', 'V', 'bar', 'V', 'bar', '$', '$/min'])))
        if t == 'string' and rng.random() < 0.3:
            items.append(('maxchars', max(c['minchars'], c['maxchars'] + rng.choice([-2, -1, 0, 1, 5]))))
        if t == 'array' and rng.random() < 0.3:
            items.append(('maxlen', max(c['minlen'], c['maxlen'] + rng.choice([-1, 0, 1, 2]))))
    if rng.random() < 0.25:
        items.append(('visibility', rng.choice(['user', 'advanced', 'expert', 1, 2, 3])))
    if rng.random() < 0.2:
        items.append(('readonly', rng.choice([True, False, 0, 1])))
    if rng.random() < 0.15:
        items.append(('export', rng.choice(([True] if not p['limit'] else []) + [False, 'renamed_' + p['name'], '_' + p['name']])))
    if rng.random() < 0.1:
        items.append(('group', 'grp'))
    if rng.random() < 0.1:
        items.append(('description', 'cfgdesc ' + p['name']))
    if c is not None:
        fin = final_dt_guess(c, items)
        if force_value or rng.random() < 0.6:
            items.append(('value', valid_value(rng, fin)))
        elif rng.random() < 0.2:
            items.append(('default', valid_value(rng, fin, 'inside')))
    elif p['limit'] and (force_value or rng.random() < 0.5):
        items.append(('value', rng.choice([1, 2.5, 0, 3])) if p['limit'] != 'limits' else ('value', [1, 3]))
    if rng.random() < 0.3:
        rng.shuffle(items)                 # raw dicts: any key order (value before a restricting/relaxing override)
    return items


ERR_KINDS = ['bad_cmd_prop', 'optional_not_implemented', 'prop_extra_key', 'unknown_name', 'unknown_param_prop', 'bad_value', 'bad_param_prop', 'bad_mod_prop', 'missing_mandatory',
             'missing_needscfg', 'inverted', 'bad_default']


def inject(rng, spec, cfg, kind):
    """mutate cfg (dict name -> ('bare', v) | ('dict', [(k, v)])) to contain one error of the kind; returns a tag or None"""
    real = [dict(p, dt=p['dt'] or p.get('gdt')) for p in spec['params'] if (p['dt'] or p.get('gdt')) is not None]
    if kind == 'unknown_name':
        k = rng.choice(['zz', 'pq', 'Value', 'targett'])
        cfg[k] = rng.choice([('bare', 1), ('dict', [('value', 2)]), ('dict', [('max', 2)])])
        return kind
    if kind == 'bad_cmd_prop':
        cmds = commands_of(spec)
        if not cmds:
            return None
        cname = rng.choice(cmds)
        ent = cfg.get(cname)
        items = list(ent[1]) if ent and ent[0] == 'dict' else []
        k, v = rng.choice([('nosuch', 1), ('unit', 's'), ('readonly', True), ('value', 1), ('visibility', 'nonsense'),
                           ('visibility', None), ('visibility', 9), ('group', 5), ('description', 7)])
        items = [kv for kv in items if kv[0] != k]
        items.insert(rng.randint(0, len(items)), (k, v))
        cfg[cname] = ('dict', items)
        return kind
    if kind == 'optional_not_implemented':
        cands = [o for o in spec.get('optional', []) if not o['impl']]
        if not cands:
            return None
        o = rng.choice(cands)
        if o['kind'] == 'cmd':
            cfg[o['name']] = ('dict', rng.choice([[('visibility', 'expert')], [('group', 'g')], [('description', 'hold it')]]))
        else:
            v = valid_value(rng, o['dt'], 'inside')
            cfg[o['name']] = rng.choice([('dict', [('value', v)]), ('dict', [('value', v), ('readonly', False)]),
                                         ('dict', [('visibility', 'expert')])])
        return kind
    if kind == 'prop_extra_key':
        names = [m['name'] for m in spec['modprops']] + ['group', 'visibility', 'pollinterval']
        k = rng.choice(names)
        v = {'mp': 3, 'op': 'abc', 'group': 'g', 'visibility': 'expert', 'pollinterval': 2.5}[k]
        extra = rng.choice([('nosuch', 1), ('unit', 's'), ('visibility', 3), ('min', 0)])
        items = [('value', v), extra]
        if rng.random() < 0.5:
            items.reverse()
        cfg[k] = ('dict', items)
        return kind
    if kind == 'missing_mandatory':
        cands = [m['name'] for m in spec['modprops'] if m['mandatory']] + ['description']
        k = rng.choice(cands)
        cfg.pop(k, None)
        return kind
    if kind == 'bad_mod_prop':
        cands = [('mp', 'x'), ('mp', 99), ('mp', 1.5), ('op', 5), ('op', 'waytoolongvalue'), ('visibility', 'nonsense'),
                 ('visibility', 7), ('pollinterval', 'fast'), ('pollinterval', 1000), ('group', 5), ('export', 'maybe')]
        names = {m['name'] for m in spec['modprops']} | {'visibility', 'pollinterval', 'group', 'export'}
        cands += [('group', None), ('mp', None), ('visibility', None)]
        for a in spec.get('attached', []):              # the name of a module is a string
            cands += [(a['name'], 5), (a['name'], ['m0']), (a['name'], None)]
            names.add(a['name'])
        k, v = rng.choice([c for c in cands if c[0] in names])
        # a raw dict can not carry a bare None (`cfgdict.pop(key, None)`): config files wrap every value in Param()
        cfg[k] = ('bare', v) if rng.random() < 0.5 and v is not None else ('dict', [('value', v)])
        return kind
    if not real:
        return None
    p = rng.choice(real)
    name = p['name']
    ent = cfg.get(name)
    items = list(ent[1]) if ent and ent[0] == 'dict' else []
    c = p['dt']
    if kind == 'missing_needscfg':
        cands = [q for q in real if q['needscfg']]
        if not cands:
            return None
        q = rng.choice(cands)
        ent = cfg.get(q['name'])
        if ent and ent[0] == 'dict':
            its = [kv for kv in ent[1] if kv[0] != 'value']
            if rng.random() < 0.3 and not any(kv[0] == 'default' for kv in its):
                # "only a default given": a default is not the required value
                try:
                    its.append(('default', valid_value(rng, final_dt_guess(q['dt'], its), 'inside')))
                except ValueError:
                    pass                        # limits already inverted by another injected error: no value fits
            if its:
                cfg[q['name']] = ('dict', its)
            else:
                cfg.pop(q['name'])
        return kind
    if kind == 'unknown_param_prop':
        foreign = {'double': ['maxchars', 'minlen', 'nosuch'], 'int': ['unit', 'maxchars', 'nosuch'],
                   'string': ['min', 'unit', 'nosuch'], 'bool': ['min', 'nosuch'], 'enum': ['max', 'nosuch'],
                   'tuple': ['unit', 'min', 'maxlen', 'nosuch'], 'struct': ['unit', 'max', 'nosuch'],
                   'array': ['maxchars', 'nosuch'] + (['unit'] if c['t'] == 'array' and c['members']['t'] in ('int', 'tuple') else [])}[c['t']]
        items.insert(rng.randint(0, len(items)), (rng.choice(foreign), rng.choice([1, 'x'])))
    elif kind == 'bad_param_prop':
        cands = [('readonly', 'maybe'), ('readonly', 2), ('visibility', 'nonsense'), ('visibility', 9), ('export', 5),
                 ('export', None), ('group', 7)]
        if c['t'] == 'double':
            cands += [('min', 'a'), ('max', None), ('unit', 5)]
        if c['t'] == 'int':
            cands += [('min', 1.5), ('max', 'a')]
        if c['t'] == 'string':
            cands += [('maxchars', -1), ('maxchars', 1.5), ('minchars', 'a')]
        if c['t'] == 'array':
            cands += [('maxlen', -1), ('minlen', 'a')]
        k, v = rng.choice(cands)
        items = [kv for kv in items if kv[0] != k]
        items.insert(rng.randint(0, len(items)), (k, v))
    elif kind in ('bad_value', 'bad_default'):
        key = 'value' if kind == 'bad_value' else 'default'
        fin = final_dt_guess(c, items)
        items = [kv for kv in items if kv[0] != key]
        items.insert(rng.randint(0, len(items)), (key, bad_value(rng, fin)))
    elif kind == 'inverted':
        t = c['t']
        items = [kv for kv in items if kv[0] not in ('min', 'max', 'minchars', 'maxchars', 'minlen', 'maxlen', 'value', 'default')]
        if t == 'double':
            lo = c['min'] if c['min'] is not None else 0
            hi = c['max'] if c['max'] is not None else 0
            items += rng.choice([[('min', (hi + 4) / 4)], [('max', (lo - 1) / 4)], [('min', 2), ('max', 1)], [('max', 1), ('min', 2.5)]])
        elif t == 'int':
            items += rng.choice([[('min', c['max'] + 1)], [('max', c['min'] - 1)], [('min', 4), ('max', 3)]])
        elif t == 'string':
            items += rng.choice([[('minchars', c['maxchars'] + 1)], [('minchars', 5), ('maxchars', 4)]])
        elif t == 'array' and c['members']['t'] == 'tuple':
            items += rng.choice([[('minlen', c['maxlen'] + 1)], [('minlen', 3), ('maxlen', 2)]])
        elif t == 'array':
            m = c['members']
            items += rng.choice([[('minlen', c['maxlen'] + 1)], [('min', m['max'] + 1 if m['t'] == 'int' else (m['max'] + 4) / 4)],
                                 [('max', m['min'] - 1 if m['t'] == 'int' else (m['min'] - 4) / 4)], [('minlen', 3), ('maxlen', 2)]])
        else:
            return None
    seen, uniq = set(), []
    for kv in items:                       # dict keys are unique
        if kv[0] not in seen:
            seen.add(kv[0])
            uniq.append(kv)
    cfg[name] = ('dict', uniq)
    return kind


def commands_of(spec):
    return (['go'] if spec['cmd'] else []) + [o['name'] for o in spec.get('optional', []) if o['kind'] == 'cmd' and o['impl']]


def gen_module_cfg(rng, spec, nerr):
    """-> (cfg dict name -> entry, injected kinds)"""
    cfg = {'description': ('bare', 'module of ' + spec['id'])}
    for m in spec['modprops']:
        if m['mandatory'] or rng.random() < 0.4:
            v = rng.randint(0, 5) if m['name'] == 'mp' else rng.choice(['', 'abc', 'q q'])
            cfg[m['name']] = ('bare', v) if rng.random() < 0.6 else ('dict', [('value', v)])
    if rng.random() < 0.2:
        cfg['group'] = ('bare', 'mgroup')
    if rng.random() < 0.15:
        cfg['visibility'] = ('bare', rng.choice(['expert', 'advanced', 2]))
    if rng.random() < 0.1:
        cfg['pollinterval'] = ('bare', rng.choice([1, 2.5, 10]))
    gkeys = {k for g in spec.get('groups', []) for k in g['keys']}
    for p in spec['params']:
        ingroup = p['name'] in gkeys            # members of a shared write method: mostly configured, mostly with a value
        if p['needscfg'] or rng.random() < (0.85 if ingroup else 0.5):
            items = gen_param_cfg(rng, p, force_value=p['needscfg'] or (ingroup and rng.random() < 0.8))
            if items:
                cfg[p['name']] = ('dict', items)
    for cname in commands_of(spec):
        if rng.random() < 0.35:
            items = [kv for kv in [('visibility', rng.choice(['expert', 'advanced', 2, 1])), ('group', 'cgrp'),
                                   ('description', 'cfg text of ' + cname)] if rng.random() < 0.5]
            rng.shuffle(items)
            cfg[cname] = ('dict', items)
    kinds = []
    for _ in range(nerr):
        k = inject(rng, spec, cfg, rng.choice(ERR_KINDS))
        if k:
            kinds.append(k)
    # dict order of the module cfg
    keys = list(cfg)
    if rng.random() < 0.5:
        rng.shuffle(keys)
    return [(k, cfg[k]) for k in keys], kinds


def raw_cfg(cls, entries):
    """the dict handed to SecNode (raw path)"""
    d = {'cls': cls}
    for k, (form, v) in entries:
        d[k] = v if form == 'bare' else dict(v)
    return d


def lean_cfg(cls, effective):
    """effective module cfg dict (without cls) -> JSON of Cfg for Lean"""
    out = []
    for k, v in effective.items():
        if k == 'cls':
            continue
        if isinstance(v, dict):
            out.append([k, {'acc': [[pk, canon(pv)] for pk, pv in v.items()]}])
        else:
            out.append([k, {'bare': canon(v)}])
    return out


def jsonable_cfg(effective):
    """effective module cfg (python) -> JSON for replay files"""
    out = []
    for k, v in effective.items():
        if k == 'cls':
            continue
        if isinstance(v, dict):
            out.append([k, {'dict': [[pk, pv if not isinstance(pv, tuple) else list(pv)] for pk, pv in v.items()]}])
        else:
            out.append([k, {'bare': v}])
    return out


def from_jsonable_cfg(cls, j):
    d = {'cls': cls}
    for k, e in j:
        d[k] = dict((pk, pv) for pk, pv in e['dict']) if 'dict' in e else e['bare']
    return d


# ----------------------------------------------------------------------------------------
# DSL path: config files
# ----------------------------------------------------------------------------------------
def dsl_forms(rng, entries):
    """entries of a module cfg -> (description, [[key, form]]) as it will be WRITTEN in the file.
    form: {'bare': v} | {'param': {'value': {'v': x} | None, 'kw': [[k, x], ...]}, 'valkw': bool, 'var': None}
          | {'group': [member, ...]} (added by decorate_dsl)"""
    desc = ''
    forms = []
    for k, (form, v) in entries:
        if k == 'description' and form == 'bare':
            desc = v                                    # positional argument of Mod: can not be missing through the DSL
            continue
        if form == 'bare':
            forms.append([k, {'bare': v}])
            continue
        items = list(v)
        val = [x for kk, x in items if kk == 'value']
        rest = [[kk, x] for kk, x in items if kk != 'value']
        if val and not rest and rng.random() < 0.5:
            forms.append([k, {'bare': val[0]}])         # the shortcut `key=value`
        else:
            forms.append([k, {'param': {'value': {'v': val[0]} if val else None, 'kw': rest},
                              'valkw': rng.random() < 0.3, 'var': None}])
    return desc, forms


def decorate_dsl(rng, case):
    """DSL-only ways of writing a configuration: Group(...) arguments, and ONE Param(...) object bound to a variable and
    used for the same key of several modules of a file"""
    specs = {sp['id']: sp for sp in case['specs']}
    nvar = 0
    for mo in case['mods']:
        for k, f in mo['dsl']:
            if 'param' in f and k in commands_of(specs[mo['cls']]) and rng.random() < 0.7:
                f['ctor'] = 'Command'                      # `Command` is the same class as `Param` in a config file
        pnames = {p['name'] for p in specs[mo['cls']]['params']}
        if rng.random() < 0.2:
            cands = [k for k, f in mo['dsl'] if k in pnames and 'group' not in f]
            if cands:
                members = rng.sample(cands, rng.randint(1, min(2, len(cands))))
                mo['dsl'].insert(rng.randint(0, len(mo['dsl'])), ['grp' + rng.choice('AB'), {'group': members}])
    for mo in case['mods']:
        if rng.random() >= 0.35:
            continue
        others = [x for x in case['mods'] if x is not mo and x['file'] == mo['file'] and x['cls'] == mo['cls']]
        grouped = {m for k, f in mo['dsl'] if 'group' in f for m in f['group']}
        cands = [(k, f) for k, f in mo['dsl'] if 'param' in f and f['var'] is None and k not in grouped]
        if not others or not cands:
            continue
        other = rng.choice(others)
        ogrouped = {m for k, f in other['dsl'] if 'group' in f for m in f['group']}
        k, f = rng.choice(cands)
        if k in ogrouped:
            continue
        f['var'] = f'V{nvar}'
        nvar += 1
        shared = json.loads(json.dumps(f))
        for ent in other['dsl']:
            if ent[0] == k:
                ent[1] = shared
                break
        else:
            other['dsl'].append([k, shared])


def dsl_param_text(f):
    val = f['param']['value']
    kws = [f'{kk}={x!r}' for kk, x in f['param']['kw']]
    if val is not None:
        if f.get('valkw'):
            kws.append(f'value={val["v"]!r}')
        else:
            kws.insert(0, repr(val['v']))
    return f.get('ctor', 'Param') + '(' + ', '.join(kws) + ')'


def dsl_mod_text(name, clsname, desc, forms, tag):
    args = []
    for k, f in forms:
        if 'bare' in f:
            args.append(f'{k}={f["bare"]!r}')
        elif 'group' in f:
            args.append(f'{k}=Group(' + ', '.join(repr(m) for m in f['group']) + ')')
        elif f.get('var'):
            args.append(f'{k}={f["var"]}')
        else:
            args.append(f'{k}={dsl_param_text(f)}')
    desc = f'{desc} #{tag}'
    return f'Mod({name!r}, {GENMOD + "." + clsname!r}, {desc!r}' + ''.join(', ' + a for a in args) + ')\n'


def dsl_preamble(mods):
    """variable definitions of a file: each shared Param object is created once"""
    seen, out = set(), ''
    for mo in mods:
        for k, f in mo['dsl']:
            if 'param' in f and f.get('var') and f['var'] not in seen:
                seen.add(f['var'])
                out += f'{f["var"]} = {dsl_param_text(f)}\n'
    return out


def written_cfg(desc, forms, tag, extra):
    """the module as written, for Lean (read by the specification: `specCfg`; by the model: `modDict`)"""
    args = []
    for k, f in forms:
        if 'bare' in f:
            args.append([k, {'bare': canon(f['bare'])}])
        elif 'group' in f:
            args.append([k, {'group': list(f['group'])}])
        else:
            val = f['param']['value']
            args.append([k, {'param': {'value': None if val is None else {'v': canon(val['v'])},
                                       'kw': [[kk, canon(x)] for kk, x in f['param']['kw']]}}])
    return {'descr': canon(f'{desc} #{tag}'), 'args': args, 'extra': extra}


# ----------------------------------------------------------------------------------------
# running the real code
# ----------------------------------------------------------------------------------------
RX = [
    (re.compile(r"^(\w+): value .* does not match "), lambda m: {'k': 'badModProp', 'key': m.group(1)}),
    (re.compile(r"^(\w+)\.(\w+): "), lambda m: {'k': 'badValue', 'param': m.group(1), 'key': m.group(2)}),
    (re.compile(r"^limit '(\w+)' is given, but not"), lambda m: {'k': 'limitNoBase', 'param': m.group(1)}),
    (re.compile(r"^(\w+) needs a datatype"), lambda m: {'k': 'noDatatype', 'param': m.group(1)}),
    (re.compile(r"^'(\w+)' has no default value and was not given in config"), lambda m: {'k': 'needsCfg', 'param': m.group(1)}),
    (re.compile(r"^(.*) does not exist \(use one of"), lambda m: {'k': 'unknownNames', 'keys': m.group(1).split(', ')}),
    (re.compile(r"^'(\w+)' has no property '(\w+)'"), lambda m: {'k': 'unknownProp', 'name': m.group(1), 'key': m.group(2)}),
    (re.compile(r"^ConfigError: (\w+) needs a value of type"), lambda m: {'k': 'mandatory', 'key': m.group(1)}),
    (re.compile(r"^(\w+): .*min\w*=.* must be <= max"), lambda m: {'k': 'badDatatype', 'param': m.group(1)}),
]


def classify(text):
    for rx, f in RX:
        m = rx.match(text)
        if m:
            return f(m)
    return {'k': 'other', 'text': text[:120]}


def split_errors(errors):
    """SecNode.errors -> {module: [kinds]} for the modules which were not created (a constructor which is run a second
    time - `get_module_instance` for an attached module which is configured but not registered - reports again: the first
    block counts, `creation_blocks` counts them)"""
    res = {}
    cur = None
    seen = set()
    for line in errors:
        m = re.match(r'^error creating module (\w+):$', line)
        if m:
            cur = m.group(1) if m.group(1) not in seen else '#again'
            seen.add(m.group(1))
            if cur != '#again':
                res.setdefault(cur, [])
            continue
        m = re.match(r'^error creating (\w+)$', line)
        if m:
            if m.group(1) not in seen:
                res.setdefault(m.group(1), []).append({'k': 'raised'})
            seen.add(m.group(1))
            cur = None
            continue
        if INIT_RX.match(line):
            cur = None
            continue
        if line.startswith('  ') and cur == '#again':
            continue
        if line.startswith('  ') and cur is not None:
            res[cur].append(classify(line[2:]))
        else:
            res.setdefault('?', []).append({'k': 'other', 'text': line[:120]})
    return res


INIT_RX = re.compile(r'^error initializing (\w+): (.*)$')
INIT_KINDS = [
    (re.compile(r"NoSuchModule\(.*Module '(\w*)' does not exist on this"), 'noSuchModule'),
    (re.compile(r"attached module \w+='(\w*)' does not exist"), 'doesNotExist'),
    (re.compile(r"attached module \w+='(\w*)' must inherit from"), 'wrongKind'),
    (re.compile(r"attached module \w+='(\w*)' failed to initialize"), 'targetFailed'),
    (re.compile(r"cyclic dependency: module '(\w*)' is needed"), 'cyclic'),
]


def init_errors(errors):
    """SecNode.errors -> [[module, kind, target]] for the modules which were created but failed to initialise"""
    out = []
    for line in errors:
        m = INIT_RX.match(line)
        if m:
            for rx, kind in INIT_KINDS:
                t = rx.search(m.group(2))
                if t:
                    out.append([m.group(1), kind, t.group(1)])
                    break
            else:
                out.append([m.group(1), 'other', m.group(2)[:100]])
    return out


def creation_blocks(errors):
    """how often each module is reported as not created"""
    n = {}
    for line in errors:
        m = re.match(r'^error creating (?:module )?(\w+):?$', line)
        if m:
            n[m.group(1)] = n.get(m.group(1), 0) + 1
    return n


class _Stop(Exception):
    pass


def run_prologue(m, real_thread):
    """start-up of the poll thread: the real `startModule` (thread, MultiEvent) when real_thread, else the head of the real
    `__pollThread` called directly (writeInitParams, initialReads, first polls; stopped by the start callback).
    Every call of `write_<p>` is logged with its argument and with the entries of writeDict it consumed besides"""
    log = m._vlog
    for pname in list(m.parameters):
        orig = getattr(m, 'write_' + pname, None)
        if orig is not None:
            def wrapper(value, _n=pname, _o=orig):
                before = dict(m.writeDict)
                ev = ['write', _n, canon(value), []]
                log.append(ev)
                try:
                    return _o(value)
                finally:
                    ev[3] = [[k, canon(v)] for k, v in before.items() if k not in m.writeDict]
            wrapper.__name__ = 'write_' + pname
            setattr(m, 'write_' + pname, wrapper)
    if real_thread:
        from frappy.lib.multievent import MultiEvent
        start_events = MultiEvent(default_timeout=20)
        m.startModule(start_events)
        if not start_events.wait():
            raise RuntimeError('poll thread did not finish its initial work within 20 s')
        log.append(('started',))
        m.joinPollThread(5)
    else:
        def started():
            log.append(('started',))
            raise _Stop()
        try:
            m._Module__pollThread(list(m.polledModules) or [m], started)
        except _Stop:
            pass
    for pname in list(m.parameters):
        m.__dict__.pop('write_' + pname, None)


def probe_values(p, items):
    """candidates for later range checks, around the class limits and the configured ones"""
    c = p['dt']
    if c is None:
        return []
    fin = final_dt_guess(c, [(k, v) for k, v in items])
    out = []
    if c['t'] in ('double', 'int'):
        f = 4 if c['t'] == 'int' else 1
        for cc in (c, fin):
            for lim in (cc['min'], cc['max']):
                if lim is not None:
                    out += [lim * f - f, lim * f, lim * f + f]
        out = sorted(set(out))[:10]
        return [q / 4 if q % 4 else q // 4 for q in out]
    if c['t'] == 'string':
        return ['a' * n for n in sorted({max(0, c['maxchars'] - 1), c['maxchars'], c['maxchars'] + 1, fin['maxchars'], fin['maxchars'] + 1, 0})
                if n < 64]
    return []


def observe_module(node, name, spec, cls, effective):
    """observation record of one module on the real node"""
    from frappy.errors import SECoPError
    errs = split_errors(node.errors)
    m = node.modules.get(name)
    obs = {'registered': m is not None, 'errors': errs.get(name, []), 'params': [], 'modprops': [], 'events': [], 'driver': []}
    if m is None:
        return obs
    for k in ('group', 'visibility', 'pollinterval', 'mp', 'op', 'export'):
        if k in cls.propertyDict:
            try:
                obs['modprops'].append([k, canon(getattr(m, k))])
            except Exception:
                pass
    from frappy.modules import Attached
    for k, po in cls.propertyDict.items():
        if isinstance(po, Attached) and k in m.propertyValues:
            obs['modprops'].append([k, canon(m.propertyValues[k])])          # the NAME stored (the attribute is judged at node level)
    m._vlog = []
    start_values = {pn: (canon(po.value), po.readerror) for pn, po in m.parameters.items()}
    run_prologue(m, bool(spec.get('groups')) or name.endswith('1'))
    seen_poll = False
    for ev in m._vlog:
        if ev[0] == 'write':
            obs['events'].append(['write', ev[1], ev[2], ev[3]])
        elif ev[0] == 'driver':
            obs['driver'].append([ev[1], ev[2]])
        elif ev[0] in ('read', 'doPoll', 'started') and not seen_poll:
            seen_poll = True
            obs['events'].append(['firstPoll'])
    desc = node.describe()['modules'].get(name, {}).get('accessibles', {})
    conn = node.connect()
    limit_bases = {p['base'] for p in spec['params'] if p['limit']}
    for p in spec['params']:
        pn = p['name']
        items = effective.get(pn) if isinstance(effective.get(pn), dict) else {}
        descs = {f'param {pn}', f'limit for {p["base"]}'} if p['limit'] else {f'param {pn}'}
        if 'description' in items:
            descs = {items['description']}
        dname = [k for k, v in desc.items() if v.get('description') in descs]
        described = dname[0] if len(dname) == 1 else None
        dentry = desc.get(described) if described else None
        cands = {'_' + pn, pn, 'x' + pn, 'renamed_' + pn} | set(dname)
        if isinstance(items.get('export'), str):
            cands.add(items['export'])
        reach = []
        for n in sorted(c for c in cands if c):
            try:
                if m.accessiblename2attr.get(n) == pn:
                    r = node.request(conn, 'read', f'{name}:{n}')
                    if not r[0].startswith('error_') or r[2][0] != 'NoSuchParameter':
                        reach.append(n)
            except Exception:
                pass
        own = []
        if dentry is not None:
            own = [['readonly', bool(dentry.get('readonly'))], ['visibility', {'n': 4 * int(dentry.get('visibility', 1))}],
                   ['group', canon(dentry.get('group', ''))]]
        probes = []
        if (dentry is not None and not dentry.get('readonly') and pn not in limit_bases and not p['limit'] and reach
                and ('write_' + pn) in cls.wrappedAttributes):
            for v in probe_values(p, list(items.items())):
                r = node.request(conn, 'change', f'{name}:{reach[0]}', v)
                probes.append([canon(v), not r[0].startswith('error_')])
        val, rerr = start_values[pn]
        obs['params'].append({'name': pn, 'value': {'v': val}, 'readerror': type(rerr).__name__ if rerr else None,
                              'datainfo': datainfo_to_cdt(dentry['datainfo']) if dentry else None,
                              'described': described, 'reach': reach, 'own': own, 'probes': probes})
    return obs


def observe_node(node, eff, errs):
    """node-level observation: which modules are registered / reported as not created / reported as not initialised,
    whether the node would start, and - for a node which starts - what every attached-module attribute IS"""
    from frappy.modules import Attached
    ierrs = init_errors(node.errors)
    obs = {'configured': list(eff), 'registered': list(node.modules), 'reported': [k for k in errs],
           'starts': getattr(node, 'started', not node.errors), 'initReported': sorted({e[0] for e in ierrs}), 'attached': [],
           'init': ierrs, 'blocks': creation_blocks(node.errors),
           'unclassified': [e.get('text') for e in errs.get('?', [])]}
    if not node.errors:
        for name, m in node.modules.items():
            for k, po in type(m).propertyDict.items():
                if isinstance(po, Attached):
                    try:
                        x = getattr(m, k)
                        obs['attached'].append([name, k, None if x is None else x.name])
                    except Exception:
                        obs['attached'].append([name, k, None])
    return obs


NODE_KEYS = ('configured', 'registered', 'reported', 'starts', 'initReported', 'attached')


def node_requests(g):
    """the model of the node (`node`) and the monitors on what was observed (`judge_node`: the modules as WRITTEN)"""
    mods = [{'name': mo['name'], 'cls': mo['cls'], 'cfg': mo['cfg']} for mo in g['mods']]
    return [{'p': 'C10', 'k': 'node', 'mods': mods},
            dict({k: g['node'][k] for k in NODE_KEYS}, p='C10', k='judge_node', mods=mods)]


def node_sig(judge, nodeobs):
    """short stable signature of what fails at node level (Python only names it; the verdict is Lean's)"""
    if judge['ok']:
        return None
    if not judge.get('node', False):
        if nodeobs['starts'] and (nodeobs['reported'] or nodeobs['initReported']):
            return 'C10:node:starts-with-failing-modules'
        return 'C10:node:failing-module-not-reported'
    if not judge['attached']:
        if judge['bad'] and nodeobs['starts']:
            return 'C10:attached-module:erroneous-config-accepted'
        if judge['bad']:
            return 'C10:attached-module:failing-module-not-reported'
        return 'C10:attached-module:not-applied'
    return 'C10:attached-module:valid-config-rejected'


def compare_node(model, nodeobs):
    diffs = []
    if '?' in nodeobs['reported'] or any(e[1] == 'other' for e in nodeobs['init']):
        diffs.append(f'an error line of the node is not classified: {nodeobs["unclassified"][:3]} {nodeobs["init"]}')
    if model['registered'] != nodeobs['registered'] or model['starts'] != nodeobs['starts'] \
            or [e[0] for e in model['errors']] != nodeobs['reported']:
        diffs.append('registered / reported / starts')
    mi = sorted([e[0], e[1]['k'], e[1].get('target')] for e in model['init'])
    if mi != sorted(nodeobs['init']):
        diffs.append(f'modules failing to initialise: model {mi} impl {sorted(nodeobs["init"])}')
    mb = {e[0]: 1 + model['recreated'].count(e[0]) for e in model['errors']}
    if mb != nodeobs['blocks']:
        diffs.append(f'how often a failing constructor is run and reported: model {mb} impl {nodeobs["blocks"]}')
    if nodeobs['starts'] and sorted(model['attached']) != sorted(a for a in nodeobs['attached'] if a[2] is not None):
        diffs.append(f'attached modules: model {sorted(model["attached"])} impl {sorted(nodeobs["attached"])}')
    return diffs


_srv_counter = iter(range(1, 1 << 30))


def make_server(paths, base, confdir=None, parsed=None, via=None):
    """the REAL `Server` object for a list of config files or config names (`Server.__init__`: `load_config` with
    `to_config_path`, node section, interface).  confdir: the configuration directories, in order; parsed: a list which
    gets the path of every file `process_file` is called for (recording only)"""
    import signal
    import mlzlog
    from pathlib import Path
    import frappy.config
    from frappy.lib import generalConfig
    from frappy.server import Server
    from vlib.node import patch_version
    patch_version()
    if confdir is None:
        generalConfig.testinit(piddir=Path(base))
    elif via == 'env':
        # as the operator gives it: FRAPPY_CONFDIR=<dir>:<dir>:… (frappy/lib/__init__.py: GeneralConfig.init)
        keys = ('FRAPPY_CONFDIR', 'FRAPPY_PIDDIR', 'FRAPPY_LOGDIR', 'FRAPPY_CONFIG_FILE')
        saved = {k: os.environ.get(k) for k in keys}
        os.environ.update(FRAPPY_CONFDIR=':'.join(str(d) for d in confdir), FRAPPY_PIDDIR=str(base), FRAPPY_LOGDIR=str(base))
        os.environ.pop('FRAPPY_CONFIG_FILE', None)
        try:
            generalConfig.init()
        finally:
            for k, v in saved.items():
                if v is None:
                    os.environ.pop(k, None)
                else:
                    os.environ[k] = v
    elif via == 'cfgfile':
        # the [FRAPPY] section of a general configuration file: confdir = <dir>:<dir>:…
        gc = os.path.join(base, 'generalConfig.cfg')
        with open(gc, 'w', encoding='utf-8') as fh:
            fh.write('[FRAPPY]\nlogdir = %s\npiddir = %s\nconfdir = %s\n' % (base, base, ':'.join(str(d) for d in confdir)))
        saved = {k: os.environ.pop(k, None) for k in ('FRAPPY_CONFDIR', 'FRAPPY_PIDDIR', 'FRAPPY_LOGDIR')}
        try:
            generalConfig.init(gc)
        finally:
            os.environ.update({k: v for k, v in saved.items() if v is not None})
    else:
        generalConfig.testinit(piddir=Path(base), confdir=[Path(d) for d in confdir])
    old = {sig: signal.getsignal(sig) for sig in (signal.SIGINT, signal.SIGTERM)}     # Server installs its own handlers
    real_process_file = frappy.config.process_file

    def recording(filename, log):
        if parsed is not None:
            parsed.append(str(filename))
        return real_process_file(filename, log)
    frappy.config.process_file = recording
    logging.disable(logging.CRITICAL)
    try:
        return Server('verifc10', mlzlog.MLZLogger('fvs%d' % next(_srv_counter)), cfgfiles=list(paths),
                      interface='tcp://5000', testonly=True)
    finally:
        frappy.config.process_file = real_process_file
        logging.disable(logging.NOTSET)
        for sig, h in old.items():
            signal.signal(sig, h)


SUFFIXES = ['_cfg.py', '.py', '']


def split_path(path, base, ndirs):
    """path of a parsed file -> [directory label, file name] as sent to Lean ('' + full path for a file outside the
    configuration directories)"""
    path = str(path)
    for d in range(ndirs):
        pre = os.path.join(base, f'd{d}') + os.sep
        if path.startswith(pre) and os.sep not in path[len(pre):]:
            return [f'd{d}', path[len(pre):]]
    return ['', path[len(base) + 1:] if path.startswith(base + os.sep) else path]


def lookup_requests(lk):
    q = {'files': lk['files'], 'dirs': lk['dirs'], 'refs': lk['refs']}
    return [dict(q, p='C10', k='lookup'), dict(q, p='C10', k='judge_lookup', loaded=lk['loaded'])]


def gen_lookup_case(rng):
    """which file is applied: 1-3 configuration directories, 1-2 configuration names, each present in any subset of
    (directory, suffix) places - also in none -, sometimes a file given by its path"""
    ndirs = rng.choice([1, 2, 2, 3, 3])
    names = rng.sample(['cryo', 'x', 'stick_a'], rng.choice([1, 1, 2]))
    places = []
    for n in names:
        slots = [(d, sfx) for d in range(ndirs) for sfx in SUFFIXES]
        k = rng.choice([0, 1, 1, 2, 2, 2, 3, 4, len(slots)])
        for d, sfx in rng.sample(slots, min(k, len(slots))):
            places.append([d, n + sfx])
    refs = [{'name': n} for n in names]
    if rng.random() < 0.2:
        refs.insert(rng.randint(0, len(refs)), {'path': rng.choice(['sub/other_cfg.py', 'sub/plain'])})
        if rng.random() < 0.8:
            places.append([None, refs[[i for i, r in enumerate(refs) if 'path' in r][0]]['path']])
    order = list(range(ndirs))
    rng.shuffle(order)                              # the order of confdir is not the order of creation / of the names
    return {'ndirs': ndirs, 'order': order, 'places': places, 'refs': refs, 'via': rng.choice(['testinit', 'env', 'cfgfile'])}


def run_lookup_case(lc):
    """write the files, let the REAL Server load the references (Server.__init__ -> load_config -> to_config_path /
    process_file) -> what exists, what was asked for, which files were parsed, and which file's CONTENT is in the loaded
    configuration (every file defines its own equipment id and a module named after the reference, described by its place)"""
    from frappy.errors import ConfigError
    base = tempfile.mkdtemp(prefix='verif-c10-lk-')
    try:
        os.mkdir(os.path.join(base, 'sub'))
        for d in range(lc['ndirs']):
            os.mkdir(os.path.join(base, f'd{d}'))
        files = []
        for d, fn in lc['places']:
            path = os.path.join(base, fn) if d is None else os.path.join(base, f'd{d}', fn)
            label = ['', fn] if d is None else [f'd{d}', fn]
            files.append(label)
            stem = os.path.basename(fn)
            for sfx in ('_cfg.py', '.py'):
                if stem.endswith(sfx):
                    stem = stem[:-len(sfx)]
                    break
            with open(path, 'w', encoding='utf-8') as fh:
                fh.write(f"Node({'|'.join(label)!r}, 'file', interface='tcp://5000')\n"
                         f"Mod({'mod_' + stem!r}, 'frappy.modules.Module', {'|'.join(label)!r})\n")
        dirs = [f'd{d}' for d in lc['order']]
        refs = [dict(r) for r in lc['refs']]
        args = [os.path.join(base, r['path']) if 'path' in r else r['name'] for r in refs]
        parsed = []
        try:
            srv = make_server(args, base, confdir=[os.path.join(base, d) for d in dirs], parsed=parsed, via=lc.get('via'))
            loaded = [split_path(p, base, lc['ndirs']) for p in parsed]
            cfg = srv.module_cfg
            content = []
            for i, r in enumerate(refs):
                stem = os.path.basename(r['path']) if 'path' in r else r['name']
                for sfx in ('_cfg.py', '.py'):
                    if stem.endswith(sfx):
                        stem = stem[:-len(sfx)]
                        break
                mod = cfg.get('mod_' + stem)
                desc = mod.get('description') if mod else None
                if isinstance(desc, dict):
                    desc = desc.get('value')
                content.append(str(desc).split('|', 1) if desc else ['?', '?'])
            first = str(srv.node_cfg.get('equipment_id')).split('|', 1)
        except ConfigError:
            loaded, content, first = None, None, None
        finally:
            ld = logging.Logger.manager.loggerDict
            for k in [k for k in ld if k.startswith('fv')]:
                del ld[k]
        return {'files': files, 'dirs': dirs, 'refs': refs, 'loaded': loaded, 'content': content, 'first': first}
    finally:
        shutil.rmtree(base, ignore_errors=True)


def server_node(srv):
    """one round of the real `Server._processCfg` (what `Server.run` does at start and after every `restart`): SecNode,
    Dispatcher, create_modules, descriptive data, the error report on stderr and `sys.exit(1)`.  The result offers what
    `vlib.node.Node` offers; `errors` is the report the operator gets (the lines written to stderr)"""
    import contextlib
    import io
    from vlib.node import Node

    class ServerNode(Node):
        def __init__(self):                     # pylint: disable=super-init-not-called
            self.conns = {}
    node = ServerNode()
    err = io.StringIO()
    node.exited = None
    logging.disable(logging.CRITICAL)
    try:
        with contextlib.redirect_stderr(err):
            try:
                srv._processCfg()
            except SystemExit as e:
                node.exited = e.code
    finally:
        logging.disable(logging.NOTSET)
    node.srv, node.secnode, node.dispatcher = srv, srv.secnode, srv.dispatcher
    node.stderr = err.getvalue()
    node.started = node.exited is None                  # `_processCfg` came back: the node starts
    if node.exited is None:
        node.errors = list(srv.secnode.errors)          # a node which starts although it has errors is judged as such
    else:
        node.errors = node.stderr.split('\n')[:-1] or ['(exit without report)']
    return node


def cls_of(d, classes):
    return d['cls'] if not isinstance(d['cls'], str) else classes[d['cls'].split('.')[-1]]


def make_node(module_cfg):
    from vlib.node import Node
    logging.disable(logging.CRITICAL)
    try:
        return Node(module_cfg)
    finally:
        logging.disable(logging.NOTSET)


def register_classes(specs):
    mod = sys.modules.get(GENMOD)
    if mod is None:
        mod = types.ModuleType(GENMOD)
        sys.modules[GENMOD] = mod
    classes = {}
    for s in specs:
        cls = build_class(s)
        setattr(mod, s['id'], cls)
        classes[s['id']] = cls
    return classes


# ----------------------------------------------------------------------------------------
# one node case
# ----------------------------------------------------------------------------------------
def gen_case(rng, idx):
    nmod = rng.choice([1, 1, 2, 3, 4])
    specs = [gen_class(rng, f'{idx}_{i}') for i in range(rng.randint(1, min(nmod, 2)))]
    path = rng.choice(['raw', 'dsl', 'dsl'])
    nfiles = rng.choice([1, 1, 2, 3]) if path == 'dsl' else 1
    mods = []
    # a third of the nodes has no injected error at all: only such a node starts (and is started a second time), and only
    # on a node which starts an attached module shows on the instance
    clean = rng.random() < 0.3
    for i in range(nmod):
        spec = rng.choice(specs)
        nerr = 0 if clean else rng.choice([0, 0, 0, 1, 1, 2, 3, 4])
        entries, kinds = gen_module_cfg(rng, spec, nerr)
        mods.append({'name': f'm{i}', 'cls': spec['id'], 'entries': entries, 'kinds': kinds, 'file': rng.randrange(nfiles)})
    # duplicates of a module name in another file (and rarely in the same file)
    extra = []
    if path == 'dsl' and nfiles > 1:
        for mo in mods:
            if rng.random() < 0.35:
                spec = rng.choice(specs)
                entries, kinds = gen_module_cfg(rng, spec, rng.choice([0, 0, 1]))
                f = rng.choice([x for x in range(nfiles) if x != mo['file']] if rng.random() < 0.9 else [mo['file']])
                extra.append({'name': mo['name'], 'cls': spec['id'], 'entries': entries, 'kinds': kinds, 'file': f})
    assign_attachments(rng, specs, mods + extra, 0.85 if clean else 0.55)
    case = {'specs': specs, 'path': path, 'nfiles': nfiles, 'mods': mods + extra}
    if path == 'dsl' and rng.random() < 0.7:
        # the files live in 1-3 configuration directories under any of the three suffixes and the node is started with
        # their NAMES (frappy-server f0,f1): to_config_path finds them; else: full paths
        nd = rng.choice([1, 2, 3])
        case['layout'] = {'ndirs': nd, 'files': [{'dir': rng.randrange(nd), 'suffix': rng.choice(SUFFIXES),
                                                  'by': 'name' if rng.random() < 0.85 else 'path'} for _ in range(nfiles)]}
    if path == 'dsl':
        for mo in case['mods']:
            mo['desc'], mo['dsl'] = dsl_forms(rng, mo['entries'])
        decorate_dsl(rng, case)
    # a node without configuration error is started a second time from the SAME loaded configuration (Server.restart)
    case['restart'] = True
    return case


def assign_attachments(rng, specs, mods, pgood):
    """values for the attached-module properties: needs the node (names and kinds of the other modules).  Mostly a module
    of the right kind; also a module of the wrong kind, a name no module has (typo), the empty string, the module itself,
    nothing at all (mandatory or not)"""
    byid = {sp['id']: sp for sp in specs}
    for mo in mods:
        spec = byid[mo['cls']]
        for a in spec.get('attached', []):
            if any(k == a['name'] for k, _ in mo['entries']):
                continue
            if rng.random() >= (0.93 if a['mandatory'] else 0.65):
                if a['mandatory']:
                    mo['kinds'].append('missing_mandatory')
                continue
            others = [x for x in mods if x['name'] != mo['name']]
            good = [x['name'] for x in others if a['base'] == 'Module' or a['base'] in byid[x['cls']].get('kinds', [])]
            wrong = [x['name'] for x in others if x['name'] not in good]
            r = rng.random()
            if rng.random() < pgood and good:
                v = rng.choice(good)
            elif r < 0.3 and wrong:
                v, _ = rng.choice(wrong), mo['kinds'].append('att_wrong_kind')
            elif r < 0.6:
                v = rng.choice(['nosuch', mo['name'] + 'x'] + [x['name'] + 't' for x in others] + [x['name'][:-1] for x in others])
                mo['kinds'].append('att_no_such_module')
            elif r < 0.72:
                v = ''
            elif r < 0.8:
                v = mo['name']                       # needs itself
            elif others:
                v = rng.choice(others)['name']
            else:
                continue
            ent = ('bare', v) if rng.random() < 0.6 else ('dict', [('value', v)])
            mo['entries'].insert(rng.randint(0, len(mo['entries'])), (a['name'], ent))


def effective_cfgs(case, classes, res=None):
    """run the DSL (or not) -> ordered {module name: effective cfg dict incl. cls}, merge observation or None"""
    if case['path'] == 'raw':
        out = {}
        for mo in case['mods']:
            out[mo['name']] = raw_cfg(classes[mo['cls']], mo['entries'])
        return out, None
    from pathlib import Path
    from frappy.config import process_file
    base = tempfile.mkdtemp(prefix='verif-c10-')
    try:
        paths, texts = [], []
        per_file = [[] for _ in range(case['nfiles'])]
        for i, mo in enumerate(case['mods']):
            per_file[mo['file']].append((i, mo))
        for f in range(case['nfiles']):
            text = f"Node('eq{f}', 'node {f}', interface='tcp://5000')\n"
            text += dsl_preamble([mo for _, mo in per_file[f]])
            for i, mo in per_file[f]:
                text += dsl_mod_text(mo['name'], mo['cls'], mo['desc'], mo['dsl'], f'{f}.{i}')
            lay = case.get('layout')
            if lay:
                os.makedirs(os.path.join(base, f'd{lay["files"][f]["dir"]}'), exist_ok=True)
                p = os.path.join(base, f'd{lay["files"][f]["dir"]}', f'f{f}' + lay['files'][f]['suffix'])
            else:
                p = os.path.join(base, f'f{f}_cfg.py')
            with open(p, 'w', encoding='utf-8') as fh:
                fh.write(text)
            paths.append(p)
            texts.append(text)
        log = logging.getLogger('verif-c10')
        logging.disable(logging.CRITICAL)
        try:
            files_obs = []
            for f, p in enumerate(paths):
                c = process_file(Path(p), log)
                files_obs.append({'eq': c['node']['equipment_id'],
                                  'modules': [[k, tag_of(v)] for k, v in c.items() if k != 'node']})
            raw_lists = [{'eq': f'eq{f}', 'modules': [[mo['name'], f'{f}.{i}'] for i, mo in per_file[f]]}
                         for f in range(case['nfiles'])]
        finally:
            logging.disable(logging.NOTSET)
        # the node is built by the real Server from these files (`Server.__init__` calls `load_config`): its module_cfg IS
        # the loaded, merged configuration
        lay, lookup = case.get('layout'), None
        if lay:
            for d in range(lay['ndirs']):
                os.makedirs(os.path.join(base, f'd{d}'), exist_ok=True)
            parsed = []
            args = [f'f{f}' if lay['files'][f]['by'] == 'name' else paths[f] for f in range(case['nfiles'])]
            srv = make_server(args, base, confdir=[os.path.join(base, f'd{d}') for d in range(lay['ndirs'])], parsed=parsed)
            lookup = {'files': [split_path(p, base, lay['ndirs']) for p in paths], 'dirs': [f'd{d}' for d in range(lay['ndirs'])],
                      'refs': [{'name': a} if os.sep not in a else {'path': split_path(a, base, 0)[1]} for a in args],
                      'loaded': [split_path(p, base, lay['ndirs']) for p in parsed]}
            lookup['files'] = [f if lay['files'][i]['by'] == 'name' else ['', split_path(paths[i], base, 0)[1]]
                               for i, f in enumerate(lookup['files'])]
            lookup['loaded'] = [f if f in lookup['files'] else ['', os.path.join(*f)] for f in lookup['loaded']]
        else:
            srv = make_server(paths, base)
        config = srv.module_cfg
        merged = {'modules': [[k, tag_of(v), origin_of(v)] for k, v in config.items() if k != 'node'],
                  'ambiguous': sorted(getattr(config, 'ambiguous', ['(the merged configuration has no attribute ambiguous)']))}
        return {k: v for k, v in config.items() if k != 'node'}, {
            'files_obs': files_obs, 'files_raw': raw_lists, 'merged': merged, 'texts': texts, 'server': srv, 'lookup': lookup}
    finally:
        shutil.rmtree(base, ignore_errors=True)


def tag_of(mod):
    d = mod.get('description')
    if isinstance(d, dict):
        d = d.get('value')
    return str(d).rpartition('#')[2]


def origin_of(mod):
    o = mod.get('original_id')
    if isinstance(o, dict):
        o = o.get('value')
    return o


def run_case(case):
    """-> dict with everything observed, and the requests for Lean"""
    classes = register_classes(case['specs'])
    specs = {s['id']: s for s in case['specs']}
    eff, merge = effective_cfgs(case, classes)
    # what the configuration SAYS is captured before anything is built from it
    srv = merge.pop('server') if merge else None
    snap = {}
    for name, d in eff.items():
        before = lean_cfg(d['cls'], d)
        if case['path'] == 'dsl':
            tag = tag_of(d)
            mo = case['mods'][int(tag.rpartition('.')[2])]
            keys = {k for k, _ in mo['dsl']} | {'description'}
            extra = [e for e in before if e[0] not in keys]             # original_id of a merged-in module
            cfg = written_cfg(mo['desc'], mo['dsl'], tag, extra)
        else:
            cfg = before
        snap[name] = {'before': before, 'cfg': cfg, 'jcfg': json.loads(json.dumps(jsonable_cfg(d)))}
    gens = []
    for gen in (1, 2):
        # Server._processCfg: a new SecNode from Server.module_cfg — the SAME configuration objects at every (re)start
        # (config files: the real Server processes its configuration, again for the second start)
        node = server_node(srv) if srv is not None else make_node({k: dict(v) for k, v in eff.items()})
        errs = split_errors(node.errors)
        mods = []
        for name, d in eff.items():
            cls = cls_of(d, classes)
            spec = specs[cls.__name__]
            mods.append({'name': name, 'spec': spec, 'cls': class_desc(spec, cls), 'cfg': snap[name]['cfg'],
                         'before': snap[name]['before'], 'after': lean_cfg(cls, d), 'gen': gen, 'dsl': case['path'] == 'dsl',
                         'jcfg': snap[name]['jcfg'], 'obs': observe_module(node, name, spec, cls, d)})
        nodeobs = observe_node(node, eff, errs)
        gens.append({'mods': mods, 'node': nodeobs, 'by': 'Server._processCfg' if srv is not None else 'vlib.node.Node'})
        if node.errors or not case.get('restart') or os.environ.get('VERIF_C10_NORESTART'):
            break                       # a node with configuration errors exits: there is no restart
    # the loggers of this case's nodes (vlib.node: 'fv<n>…', make_server: 'fvs<n>…') would pile up in the logging manager;
    # `logging.disable` walks over all of them on every call, which made long runs quadratic
    ld = logging.Logger.manager.loggerDict
    for k in [k for k in ld if k.startswith('fv')]:
        del ld[k]
    for sp in case['specs']:                    # the generated classes of this case (re-registered when a case is re-run)
        if hasattr(sys.modules.get(GENMOD), sp['id']):
            delattr(sys.modules[GENMOD], sp['id'])
    return {'gens': gens, 'merge': merge}


def module_requests(mo):
    reqs = [{'p': 'C10', 'k': 'apply', 'cls': mo['cls'], 'cfg': mo['cfg']},
            {'p': 'C10', 'k': 'judge', 'cls': mo['cls'], 'cfg': mo['cfg'], 'obs': lean_obs(mo['obs'])}]
    if mo.get('dsl') and mo.get('gen') == 1:
        reqs.append({'p': 'C10', 'k': 'dsl', 'cfg': mo['cfg']})
    return reqs


def lean_obs(o):
    return {'registered': o['registered'], 'errors': [e for e in o['errors'] if e['k'] != 'other'],
            'params': [{k: p[k] for k in ('name', 'value', 'datainfo', 'described', 'reach', 'own', 'probes')} for p in o['params']],
            'modprops': o['modprops'], 'events': o['events'], 'driver': o['driver']}


def compare_module(model, obs, cmds=()):
    """obs-level differences between the model's answer and the implementation (list of strings)"""
    diffs = []
    if model['ok'] != obs['registered']:
        diffs.append(f'registered: model {model["ok"]} impl {obs["registered"]}')
    cmds = set(cmds)

    def split(errs):
        c = [e for e in errs if (e.get('name') if e['k'] == 'unknownProp' else e.get('param') if e['k'] == 'badValue' else None) in cmds]
        return [e for e in errs if e not in c], c
    if split(model['errors']) != split(obs['errors']):
        diffs.append(f'errors: model {model["errors"]} impl {obs["errors"]}')
    if model['ok'] and obs['registered']:
        inst = model['inst']
        if inst['events'] != obs['events']:
            diffs.append(f'events: model {inst["events"]} impl {obs["events"]}')
        mp = dict((k, v) for k, v in inst['modprops'])
        for k, v in obs['modprops']:
            if k in mp and mp[k] != v and mp[k] != {'x': None}:
                diffs.append(f'modprop {k}: model {mp[k]} impl {v}')
        byname = {p['name']: p for p in inst['params']}
        for p in obs['params']:
            q = byname.get(p['name'])
            if q is None:
                diffs.append(f'param {p["name"]} missing in model')
                continue
            if q['value'] != p['value']['v']:
                diffs.append(f'value {p["name"]}: model {q["value"]} impl {p["value"]["v"]}')
            if p['described'] is not None and q['dt'] != p['datainfo']:
                diffs.append(f'datainfo {p["name"]}: model {q["dt"]} impl {p["datainfo"]}')
            if q['export'] != p['described']:
                diffs.append(f'export {p["name"]}: model {q["export"]} impl described {p["described"]}')
            if (p['readerror'] == 'ConfigError') != q['notInit']:
                diffs.append(f'notInit {p["name"]}: model {q["notInit"]} impl readerror {p["readerror"]}')
    return diffs


def unresolved_units(obs):
    """described parameters whose datainfo still shows a `$` somewhere (for the report line only)"""
    return [[p['name'], p['datainfo']] for p in obs['params'] if p['described'] is not None and '$' in json.dumps(p['datainfo'])]


def violation_sig(judge, obs, mo):
    """short stable signature of what fails (Python only names it; the verdict is Lean's)"""
    if not judge['whole']:
        return 'C10:half-applied:registered-and-reported' if obs['registered'] else 'C10:rejected-without-report'
    if not judge['rejected']:
        return 'C10:erroneous-config-accepted'
    if not judge['modprops']:
        return 'C10:module-property-not-applied'
    if not judge['applied']:
        if judge.get('mainunit') and unresolved_units(obs):
            return 'C10:main-unit-not-applied'
        bad = [p['name'] for p in obs['params'] if p['described'] is not None and p['reach'] != [p['described']]]
        bad += [p['name'] for p in obs['params'] if p['described'] is None and p['reach']]
        if bad:
            return 'C10:export-override-half-applied'
        if any(p['readerror'] not in (None, 'ConfigError') for p in obs['params']):
            return 'C10:configured-value-dropped'
        return 'C10:config-not-applied'
    if not judge['writes']:
        return 'C10:writes-before-poll'
    if not judge['accepted']:
        return 'C10:valid-config-rejected'
    return None


def judge_module(ctx, mo):
    a = ctx.driver.batch(module_requests(mo))
    for x in a:
        if 'driver_error' in x:
            raise RuntimeError(f'driver error: {x}')
    return a


def shrink_module(ctx, case_mod, sig):
    """remove cfg entries / items while the same signature persists"""
    spec, name, jcfg = case_mod['spec'], case_mod['name'], case_mod['jcfg']

    def fails(j):
        try:
            r = run_single(spec, name, j)
            a = judge_module(ctx, r)
            return violation_sig(a[1], r['obs'], r) == sig
        except Exception:
            return False
    cur = json.loads(json.dumps(jcfg))
    changed = True
    rounds = 0
    while changed and rounds < 40:
        changed = False
        rounds += 1
        for i in range(len(cur)):
            cand = cur[:i] + cur[i + 1:]
            if fails(cand):
                cur = cand
                changed = True
                break
            if 'dict' in cur[i][1]:
                items = cur[i][1]['dict']
                for t in range(len(items)):
                    cand = json.loads(json.dumps(cur))
                    cand[i][1]['dict'] = items[:t] + items[t + 1:]
                    if fails(cand):
                        cur = cand
                        changed = True
                        break
                if changed:
                    break
    return cur


def run_single(spec, name, jcfg):
    """one module through the raw path (replay / shrinking)"""
    classes = register_classes([spec])
    cls = classes[spec['id']]
    d = from_jsonable_cfg(cls, jcfg)
    before = lean_cfg(cls, d)
    node = make_node({name: dict(d)})
    return {'name': name, 'spec': spec, 'cls': class_desc(spec, cls), 'cfg': before, 'before': before, 'jcfg': jcfg,
            'gen': 1, 'dsl': False, 'obs': observe_module(node, name, spec, cls, d), 'after': lean_cfg(cls, d)}


# ----------------------------------------------------------------------------------------
def corpus_cases(ctx):
    cdir = os.path.join(ctx.verif, 'corpus', 'C10')
    out = []
    if os.path.isdir(cdir):
        for fn in sorted(os.listdir(cdir)):
            if fn.endswith('.json'):
                out.append(json.load(open(os.path.join(cdir, fn))))
    return out


def subprocess_exit_check(ctx, res):
    """the real `Server._processCfg` in a subprocess: exit status and stderr of a good configuration (processed twice by the
    same Server object, as `Server.run` does after `restart`) and of one with two failing modules; the node-level monitor
    judges (starts iff nothing reported, all failing reported)"""
    import subprocess
    base = tempfile.mkdtemp(prefix='verif-c10-srv-')
    try:
        cases = {'good': ("Mod('m1', 'frappy.modules.Readable', 'x', value=Param(default=1))\n"
                          "Mod('m2', 'frappy.modules.Readable', 'y', value=Param(default=2))\n", []),
                 'bad': ("Mod('m1', 'frappy.modules.Readable', 'x', value=Param(default=1), zz=1)\n"
                         "Mod('m2', 'frappy.modules.Readable', 'y', value=Param(default='abc'))\n"
                         "Mod('m3', 'frappy.modules.Readable', 'z', value=Param(default=3))\n", ['m1', 'm2'])}
        # modules with an OPTIONAL attached module which their own code does not use while initialising
        cases['goodatt'] = ("Mod('m1', 'frappy_verifc10srv.Out', 'x')\nMod('m2', 'frappy_verifc10srv.Reg', 'y', out='m1')\n"
                            "Mod('m3', 'frappy_verifc10srv.Reg', 'z')\n", [])
        cases['badatt'] = ("Mod('m1', 'frappy_verifc10srv.Out', 'x')\nMod('m2', 'frappy_verifc10srv.Reg', 'y', out='m1')\n"
                           "Mod('m3', 'frappy_verifc10srv.Reg', 'z', out='m1x')\nMod('m4', 'frappy_verifc10srv.Reg', 'z', out='m2')\n"
                           "Mod('m5', 'frappy_verifc10srv.Reg', 'z', zz=1)\n", ['m3', 'm4', 'm5'])
        strdt = {'t': 'string', 'minchars': 0, 'maxchars': 1 << 64, 'utf8': False}
        srvcls = {'Out': {'modprops': [], 'params': [], 'other': [], 'kinds': ['Module', 'KA'], 'attached': []},
                  'Reg': {'modprops': [{'name': 'out', 'dt': strdt, 'mandatory': False, 'classValue': None}], 'params': [], 'other': [],
                          'kinds': ['Module'], 'attached': [['out', 'KA']]}}
        code = ("import sys\nfrom pathlib import Path\nfrom vlib.node import patch_version; patch_version()\n"
                "from frappy.modules import Module, Attached\n"
                "class KA: pass\n"
                "class Out(KA, Module): pass\n"
                "class Reg(Module):\n    out = Attached(KA, mandatory=False)\n"
                "import types\nsys.modules['frappy_verifc10srv'] = gm = types.ModuleType('frappy_verifc10srv')\n"
                "gm.Out, gm.Reg = Out, Reg\n"
                "from frappy.lib import generalConfig; generalConfig.testinit(piddir=Path(sys.argv[1]).parent)\n"
                "from frappy.server import Server\nimport mlzlog\n"
                "srv = Server('x', mlzlog.MLZLogger('x'), cfgfiles=[sys.argv[1]], interface='tcp://5000', testonly=True)\n"
                "srv._processCfg()\nprint('REGISTERED', ' '.join(srv.secnode.modules))\n"
                "for n, m in srv.secnode.modules.items():\n"
                "    if isinstance(m, Reg): print('ATTACHED', n, m.out.name if m.out else '-')\n"
                "srv._processCfg()\nprint('REGISTERED2', ' '.join(srv.secnode.modules))\n")
        for tag, (mods, _) in cases.items():
            p = os.path.join(base, f'{tag}_cfg.py')
            with open(p, 'w') as f:
                f.write("Node('eq', 'd', interface='tcp://5000')\n" + mods)
            pr = subprocess.run([sys.executable, '-c', code, p], stdout=subprocess.PIPE, stderr=subprocess.PIPE, timeout=120,
                                env=dict(os.environ))
            err = pr.stderr.decode(errors='replace')
            out = pr.stdout.decode(errors='replace')
            configured = re.findall(r"Mod\('(\w+)'", mods)
            registered = []
            second = None
            for line in out.splitlines():
                if line.startswith('REGISTERED2'):
                    second = line.split()[1:]
                elif line.startswith('REGISTERED'):
                    registered = line.split()[1:]
            reported = sorted(set(re.findall(r'error creating (?:module )?(\w+)', err)))
            init_reported = sorted(set(re.findall(r'error initializing (\w+)', err)))
            if pr.returncode != 0 and not reported and not init_reported:
                raise RuntimeError(f'Server subprocess failed for another reason: {err[-400:]}')
            if pr.returncode != 0:
                registered = [m for m in configured if m not in reported]     # not observable after exit: not contradicted
            attached = [[l.split()[1], 'out', None if l.split()[2] == '-' else l.split()[2]]
                        for l in out.splitlines() if l.startswith('ATTACHED')]
            obs = {'configured': configured, 'registered': registered, 'reported': reported, 'starts': pr.returncode == 0,
                   'initReported': init_reported, 'attached': attached}
            if 'att' in tag:
                # the node as written, for the monitors of the attached-module clause
                obs['mods'] = [{'name': n, 'cls': srvcls[c], 'cfg': [['description', {'bare': {'s': 'd'}}]] +
                                ([['out', {'acc': [['value', {'s': o}]]}]] if o else [])}
                               for n, c, o in re.findall(r"Mod\('(\w+)', 'frappy_verifc10srv\.(\w+)', '\w+'(?:, out='(\w*)')?", mods)]
            a = ctx.driver.batch([dict(obs, p='C10', k='judge_node')])[0]
            res.evaluations += 1
            res.traces += 1
            res.count(f'subprocess.{tag}.exit={pr.returncode}')
            if pr.returncode == 0:
                # the second _processCfg of the same Server object: again every module, nothing reported
                obs2 = dict(obs, registered=second or [])
                a2 = ctx.driver.batch([dict(obs2, p='C10', k='judge_node')])[0]
                res.evaluations += 1
                res.traces += 1
                res.count(f'subprocess.{tag}.second-start.registered={len(obs2["registered"])}')
                if not a2.get('ok'):
                    a, obs = a2, obs2
            if not a.get('ok'):
                res.violations.append({'sig': 'C10:processCfg-exit', 'what': f'Server._processCfg ({tag} cfg): exit {pr.returncode}, {obs}',
                                       'case': {'kind': 'subprocess', 'tag': tag}})
    finally:
        shutil.rmtree(base, ignore_errors=True)


def subprocess_errors():
    import subprocess
    return (subprocess.TimeoutExpired, OSError)


def case_sigs(ctx, case):
    """all violation signatures a whole case (every module of every start) shows -> {sig: (mo, judge)}"""
    out = run_case(case)
    sigs = {}
    for g in out['gens']:
        for mo in g['mods']:
            a = judge_module(ctx, mo)
            sig = violation_sig(a[1], mo['obs'], mo)
            if sig and sig not in sigs:
                sigs[sig] = (mo, a[1])
        if g['node'] is not None:
            a = ctx.driver.batch(node_requests(g))
            sig = node_sig(a[1], g['node'])
            if sig and sig not in sigs:
                sigs[sig] = (None, a[1], g['node'])
    return sigs


def shrink_case(ctx, case, sig, limit=40):
    """a failing input which needs its context (the text of the config file, a second module sharing a Param object, a
    second start): drop modules, then written arguments, while the same signature persists"""
    runs = [0]

    def fails(c):
        if runs[0] >= limit:
            return False
        runs[0] += 1
        try:
            return sig in case_sigs(ctx, c)
        except Exception:
            return False
    cur = json.loads(json.dumps(case))
    changed = True
    while changed:
        changed = False
        for i in range(len(cur['mods'])):
            if len(cur['mods']) > 1:
                cand = json.loads(json.dumps(cur))
                del cand['mods'][i]
                if fails(cand):
                    cur, changed = cand, True
                    break
            key = 'dsl' if cur['path'] == 'dsl' else 'entries'
            for t in range(len(cur['mods'][i][key])):
                cand = json.loads(json.dumps(cur))
                del cand['mods'][i][key][t]
                if fails(cand):
                    cur, changed = cand, True
                    break
            if changed:
                break
    return cur


def case_text(case):
    """how the failing configuration reads (for the report line)"""
    if case['path'] != 'dsl':
        return json.dumps([[mo['name'], mo['entries']] for mo in case['mods']], default=str)[:400]
    out = []
    for f in range(case['nfiles']):
        mods = [(i, mo) for i, mo in enumerate(case['mods']) if mo['file'] == f]
        out.append(dsl_preamble([mo for _, mo in mods]) +
                   ''.join(dsl_mod_text(mo['name'], mo['cls'], mo['desc'], mo['dsl'], f'{f}.{i}') for i, mo in mods))
    return ' | '.join(t.replace('\n', '; ') for t in out)[:500]


def lookup_views(lk):
    """the two observations of one start judged by `lookupB`: the files parsed (recorded at process_file) and the files
    whose CONTENT is in the configuration the Server holds (first file: equipment id; every reference: its module)"""
    views = [('parsed', lk['loaded'])]
    if lk['loaded'] is not None:
        views.append(('content', lk['content']))
        views.append(('node-section', [lk['first']] + lk['content'][1:]))
    return views


def lookup_stream(ctx, res):
    """which configuration file is applied (config.py: to_config_path / load_config through the real Server.__init__)"""
    n = ctx.budget(150, 3000) * (3 if ctx.escalated else 1)
    cases = [gen_lookup_case(ctx.rng) for _ in range(n)]
    outs = [run_lookup_case(lc) for lc in cases]
    reqs = []
    for lk in outs:
        lk['pos'] = len(reqs)
        reqs.append(lookup_requests(lk)[0])
        for _, loaded in lookup_views(lk):
            reqs.append(lookup_requests(dict(lk, loaded=loaded))[1])
    ans = ctx.driver.batch(reqs)
    for x in ans:
        if 'driver_error' in x:
            raise RuntimeError(f'driver error: {x}')
    for lc, lk in zip(cases, outs):
        res.evaluations += 1
        res.traces += 1
        res.count('lookup.dirs=%d' % lc['ndirs'])
        res.count('lookup.confdir-given-by=' + lc.get('via', 'testinit'))
        res.count('lookup.files-of-a-name=%d' % min(4, max([0] + [sum(1 for d, fn in lc['places'] if d is not None and fn in
                                                                    [r['name'] + x for x in SUFFIXES]) for r in lc['refs'] if 'name' in r])))
        res.count('lookup.outcome=' + ('not-found' if lk['loaded'] is None else 'loaded'))
        if lk['loaded'] is not None:
            for (d, fn), r in zip(lk['loaded'], lk['refs']):
                res.count('lookup.found-in=' + ('path' if 'path' in r else 'dir%d' % lk['dirs'].index(d) if d in lk['dirs'] else '?'))
                if 'name' in r:
                    res.count('lookup.suffix=' + repr(fn[len(r['name']):]))
            if len({fn for d, fn in lc['places'] if d is not None}) > 1 or len(lc['places']) > 1:
                res.nontriv({'lookup': lc})
        model = ans[lk['pos']]
        if ctx.model_ok and model['loaded'] != lk['loaded']:
            res.disagreements.append({'case': {'kind': 'lookup', 'case': lc}, 'model': model['loaded'], 'impl': lk['loaded']})
        for i, (view, loaded) in enumerate(lookup_views(lk)):
            judge = ans[lk['pos'] + 1 + i]
            if not judge['ok']:
                sig = 'C10:cfg-lookup:wrong-file-applied' if loaded is not None else 'C10:cfg-lookup:existing-file-not-found'
                res.count('violation.' + sig)
                res.violations.append({'sig': sig,
                                       'what': f'{sig}: configuration directories {lk["dirs"]} (in this order) contain {lk["files"]}; '
                                               f'started with {lk["refs"]} -> {view}: {loaded}; the files these references '
                                               f'stand for: {judge["expected"]}',
                                       'case': {'kind': 'lookup', 'case': lc}})
                break


def run(ctx):
    res = Result()
    res.rule = ('a case = one node: 1-4 modules of generated classes (1-5 parameters of double/int/string/bool/enum/array '
                'datatypes - also TupleOf / StructOf / ArrayOf(TupleOf), units referring to the main unit by `$` -, with/without write_/read_ methods, groups of 2-3 parameters sharing a rwhandler.CommonWriteHandler / '
                'WriteHandler / a hand-written write_<p> popping its siblings from writeDict (started through the real '
                'startModule + poll thread), needscfg (with or without a default, declared here or only added to an inherited parameter), class-level values, Limit parameters, optional accessibles declared in a '
                'base class and implemented or not, mandatory and optional module properties), cfg through raw dicts or '
                'through 1-3 merged config files written with the DSL (Mod / Param(v, k=..) / bare value / Group / one Param '
                'object bound to a variable and used by several modules), any subset configured, values inside/at/outside '
                'limits, overrides of min/max/unit/visibility/export/readonly/group/description in any key order, 0-4 '
                'injected errors of 12 kinds (commands configured, too); classes inherit from 0-2 mixin kinds and have 0-2 '
                'Attached(basecls) properties (mandatory or optional, used by their own initModule or not), configured with the '
                'name of a module of the right kind / of the wrong kind / of no module (typo) / the module itself / the empty '
                'string / nothing, also towards modules whose own configuration is erroneous; 30 % of the nodes have no '
                'injected error; a node without configuration error is started a second time from the same '
                'loaded configuration; the real Server._processCfg runs in a subprocess on four configurations (good, two '
                'failing modules, optional attached modules good / typo + wrong kind); config files live in 1-3 configuration '
                'directories under any suffix and are given by name or path; lookup stream: 1-2 names present in any subset of '
                '(directory, suffix) places of 1-3 directories in shuffled order; non-trivial = a module that is '
                'registered with at least one configured parameter entry, or rejected with an injected error')
    rng = ctx.rng
    n = ctx.budget(1000, 20000)
    shrunk = 0
    idx = 0
    def all_cases():
        for c in corpus_cases(ctx):
            yield 'corpus', c
        for i in range(1, n + 1):
            yield 'gen', gen_case(rng, i)
    cases = all_cases()
    O01 = 0
    def prepare():
        # cases are generated, run and judged in chunks: nothing of a chunk is kept afterwards
        for origin, case in cases:
            if origin == 'corpus' and case.get('kind') == 'node':
                origin, case = 'gen', case['case']
            if origin == 'corpus':
                try:
                    r = run_single(case['spec'], case['name'], case['jcfg'])
                except Exception as e:
                    res.notes.append(f'corpus case failed to run: {e!r}')
                    continue
                out = {'gens': [{'mods': [r], 'node': None}], 'merge': None}
            else:
                out = run_case(case)
            reqs = []
            for g in out['gens']:
                for mo in g['mods']:
                    mo['pos'] = len(reqs)
                    reqs += module_requests(mo)
                if g['node'] is not None:
                    g['pos'] = len(reqs)
                    reqs += node_requests(g)
            mpos = None
            if out['merge'] is not None:
                mpos = len(reqs)
                reqs.append({'p': 'C10', 'k': 'merge', 'files': out['merge']['files_raw']})
                reqs.append({'p': 'C10', 'k': 'judge_merge', 'files': out['merge']['files_obs'], 'merged': out['merge']['merged']})
                if out['merge'].get('lookup'):
                    reqs += lookup_requests(out['merge']['lookup'])
            yield origin, case, out, reqs, mpos

    def answered(chunk=40):
        # one driver process per chunk of cases (starting the driver costs more than answering)
        import itertools
        it = prepare()
        while True:
            part = list(itertools.islice(it, chunk))
            if not part:
                return
            ans = ctx.driver.batch([r for p in part for r in p[3]])
            for x in ans:
                if 'driver_error' in x:
                    raise RuntimeError(f'driver error: {x}')
            pos = 0
            for origin, case, out, reqs, mpos in part:
                yield origin, case, out, ans[pos:pos + len(reqs)], mpos
                pos += len(reqs)

    for origin, case, out, ans, mpos in answered():
        if origin == 'gen':
            res.count('path.' + case['path'])
            res.count('starts=%d' % len(out['gens']))
            if case['path'] == 'dsl' and any(f.get('var') for mo in case['mods'] for _, f in mo['dsl']):
                res.count('dsl.file-shares-a-param-object')
        for g in out['gens']:
          for mo in g['mods']:
            model, judge = ans[mo['pos']], ans[mo['pos'] + 1]
            obs = mo['obs']
            res.evaluations += 1
            res.traces += 1
            wargs = mo['cfg']['args'] if isinstance(mo['cfg'], dict) else []
            nitems = sum(len(e[1].get('acc', [])) for e in mo['before'])
            res.count('module.registered' if obs['registered'] else 'module.rejected')
            res.count('module.offending' if judge['offending'] else 'module.clean')
            res.count('errors.n=%d' % min(len(obs['errors']), 4))
            for e in obs['errors']:
                res.count('errkind.' + e['k'])
            for k, a in wargs:
                res.count('dsl.arg.' + ('bare' if 'bare' in a else 'group' if 'group' in a else
                                        'param' if a['param']['value'] is not None else 'param-novalue'))
            if mo['gen'] == 2:
                res.count('module.second-start')
            res.count('module.main-unit=' + ('none' if judge.get('mainunit') is None else 'from-cfg' if any(
                e[0] == 'value' and any(k == 'unit' for k, _ in e[1].get('acc', [])) for e in mo['before']) else 'from-class'))
            for p in mo['spec']['params']:
                dtp = p['dt'] or p.get('gdt') or next((q['dt'] for q in mo['spec']['params'] if q['name'] == p['base']), None)
                if p['limit']:
                    res.count('param.dt=limit-' + p['limit'])
                elif dtp:
                    res.count('param.dt=' + dtp['t'] + ('-of-' + dtp['members']['t'] if dtp['t'] == 'array' else ''))
                if dtp and '$' in json.dumps(dtp):
                    res.count('param.unit-refers-to-main-unit.' + ('structured' if dtp['t'] in ('tuple', 'struct', 'array') or p['limit'] == 'limits' else 'scalar')
                              + ('' if judge.get('mainunit') else '.no-main-unit'))
                if p['needscfg']:
                    res.count('param.needscfg.' + ('with-default' if p['default'] is not None else 'no-default')
                              + ('.inherited' if p.get('inherit') else ''))
            if any(p.get('optional') for p in mo['cls']['params']):
                res.count('class.has-unimplemented-optional')
            for gr in mo['spec'].get('groups', []):
                ncfg = sum(1 for e in mo['before'] if e[0] in gr['keys'] and any(k == 'value' for k, _ in e[1].get('acc', [])))
                res.count('writegroup.%s.configured=%s' % (gr['kind'], min(ncfg, 3)))
                if obs['registered'] and any(e[0] == 'write' and e[3] for e in obs['events']):
                    res.count('writegroup.call-consumed-siblings')
            res.count('cfg.items=%s' % ('0' if nitems == 0 else '1-3' if nitems < 4 else '4-8' if nitems < 9 else '9+'))
            if (obs['registered'] and nitems) or (not obs['registered'] and judge['offending']):
                res.nontriv({'cls': mo['cls'], 'cfg': mo['cfg'], 'gen': mo['gen']})
            for p in obs['params']:
                if p['probes']:
                    res.count('probes', len(p['probes']))
            if obs['registered'] and not mo['spec'].get('groups') and len(obs['driver']) < sum(1 for e in obs['events'] if e[0] == 'write'):
                O01 += 1
            if len(res.samples) < 4 and nitems >= 2 and len(json.dumps(mo['cfg'])) < 500:
                res.samples.append({'cfg': mo['cfg'], 'registered': obs['registered'], 'errors': obs['errors'],
                                    'events': obs['events']})
            modcase = {'kind': 'module', 'spec': mo['spec'], 'name': mo['name'], 'jcfg': mo['jcfg']}
            ctxcase = {'kind': 'node', 'case': case} if origin == 'gen' else modcase
            if any(e['k'] == 'other' for e in obs['errors']):
                res.disagreements.append({'case': modcase, 'model': 'error text not classified', 'impl': obs['errors']})
            elif ctx.model_ok:
                diffs = compare_module(model, obs, mo['cls']['other']) if model.get('loads', True) else ['model: the file does not load']
                if mo.get('dsl') and mo['gen'] == 1:
                    d = ans[mo['pos'] + 2]
                    mcfg = (d['cfg'] + mo['cfg']['extra']) if d['loads'] else None
                    if mcfg != mo['before']:
                        diffs.append(f'dict built by Mod(...): model {json.dumps(mcfg)[:300]} impl {json.dumps(mo["before"])[:300]}')
                if not judge['hyp']:
                    diffs.append('the class description / the written module is outside the hypotheses of the theorems '
                                 '(WellFormed, WrittenOk, GroupsOk)')
                if mo['after'] != mo['before']:
                    diffs.append(f'the configuration is only read: impl changed it to {json.dumps(mo["after"])[:300]} '
                                 f'from {json.dumps(mo["before"])[:300]}')
                if diffs:
                    res.disagreements.append({'case': ctxcase if (mo.get('dsl') or mo['gen'] == 2) else modcase, 'model': diffs[:4],
                                              'impl': {'registered': obs['registered'], 'errors': obs['errors']}})
            sig = violation_sig(judge, obs, mo)
            if sig:
                res.count('violation.' + sig)
                vcase, text = modcase, json.dumps(mo['jcfg'])[:300]
                first = not any(v['sig'] == sig for v in res.violations)
                if first and origin == 'gen':
                    # does the module alone, configured by the dict the DSL produced, show it?  else the failing input is the
                    # case as a whole (text of the file / the other module sharing a Param object / the second start)
                    try:
                        r1 = run_single(mo['spec'], mo['name'], mo['jcfg'])
                        alone = violation_sig(judge_module(ctx, r1)[1], r1['obs'], r1) == sig
                    except Exception:
                        alone = False
                    if not alone:
                        vcase = ctxcase
                        if shrunk < 6:
                            shrunk += 1
                            try:
                                vcase = {'kind': 'node', 'case': shrink_case(ctx, case, sig)}
                            except Exception:
                                pass
                        text = case_text(vcase['case'])
                elif origin == 'gen' and (mo.get('dsl') or mo['gen'] == 2):
                    vcase, text = ctxcase, case_text(case)
                if vcase['kind'] == 'module' and first and shrunk < 6:
                    shrunk += 1
                    try:
                        vcase = dict(modcase, jcfg=shrink_module(ctx, mo, sig))
                        text = json.dumps(vcase['jcfg'])[:300]
                    except Exception:
                        pass
                start = '' if mo['gen'] == 1 else ' at the SECOND start from the same loaded configuration'
                res.violations.append({'sig': sig,
                                       'what': f'{sig}: module {mo["name"]} (class {mo["spec"]["id"]}){start}, cfg: {text} -> '
                                               + (f'main unit {judge["mainunit"]!r} (class or cfg; judged before shrinking), described with `$` left: '
                                                  f'{json.dumps(unresolved_units(obs))[:400]} ' if sig == 'C10:main-unit-not-applied' else '') +
                                               f'registered={obs["registered"]} errors={obs["errors"]} '
                                               f'modprops={obs["modprops"]} judge={judge}',
                                       'case': vcase})
          if g['node'] is not None:
            model, judge = ans[g['pos']], ans[g['pos'] + 1]
            res.evaluations += 1
            res.traces += 1
            res.count('node.modules=%d' % len(g['node']['configured']))
            res.count('node.built-by=' + g.get('by', '?'))
            res.count('node.failing=%d' % min(len(g['node']['reported']), 3))
            res.count('node.failing-to-initialise=%d' % min(len(g['node']['initReported']), 3))
            for e in g['node']['init']:
                res.count('initerr.' + e[1])
            for a in g['node']['attached']:
                res.count('attached.attribute=' + ('module' if a[2] else 'None'))
            if judge['bad']:
                res.count('node.with-bad-attachment')
            if ctx.model_ok:
                diffs = compare_node(model, g['node'])
                if not judge['hyp']:
                    diffs.append('the node is outside the hypotheses of the theorems (distinct module names, WellFormed classes)')
                if diffs:
                    res.disagreements.append({'case': {'kind': 'node', 'case': case}, 'model': diffs[:4], 'impl': g['node']})
            sig = node_sig(judge, g['node'])
            if sig:
                res.count('violation.' + sig)
                vcase, vobs, vjudge = {'kind': 'node', 'case': case}, g['node'], judge
                if not any(v['sig'] == sig for v in res.violations) and shrunk < 6:
                    shrunk += 1
                    try:
                        small = shrink_case(ctx, case, sig)
                        _, vjudge, vobs = case_sigs(ctx, small)[sig]          # what the shrunk node shows
                        vcase = {'kind': 'node', 'case': small}
                    except Exception:
                        vcase, vobs, vjudge = {'kind': 'node', 'case': case}, g['node'], judge
                res.violations.append({'sig': sig,
                                       'what': f'{sig}: modules with an attachment the node can not provide: {vjudge["bad"]}; '
                                               f'cfg: {case_text(vcase["case"])} -> '
                                               f'{ {k: vobs[k] for k in NODE_KEYS} } judge={vjudge}',
                                       'case': vcase})
        if out['merge'] is not None:
            model, judge = ans[mpos], ans[mpos + 1]
            res.evaluations += 1
            res.traces += 1
            res.count('merge.files=%d' % len(out['merge']['files_raw']))
            res.count('merge.ambiguous=%d' % min(len(out['merge']['merged']['ambiguous']), 3))
            mm = dict(model, ambiguous=sorted(model['ambiguous']))
            if ctx.model_ok and mm != out['merge']['merged']:
                res.disagreements.append({'case': {'kind': 'node', 'case': case}, 'model': mm, 'impl': out['merge']['merged']})
            lk = out['merge'].get('lookup')
            if lk:
                lmodel, ljudge = ans[mpos + 2], ans[mpos + 3]
                res.evaluations += 1
                res.traces += 1
                res.count('node.files-found-by=' + '+'.join(sorted({'path' if 'path' in r else 'name' for r in lk['refs']})))
                for d, fn in lk['loaded']:
                    res.count('node.file-suffix=' + ('.py' if fn.endswith('.py') and not fn.endswith('_cfg.py') else
                                                     '_cfg.py' if fn.endswith('_cfg.py') else 'none'))
                if ctx.model_ok and lmodel['loaded'] != lk['loaded']:
                    res.disagreements.append({'case': {'kind': 'node', 'case': case}, 'model': lmodel['loaded'], 'impl': lk['loaded']})
                if not ljudge['ok']:
                    res.violations.append({'sig': 'C10:cfg-lookup:wrong-file-applied',
                                           'what': f'C10:cfg-lookup:wrong-file-applied: directories {lk["dirs"]} contain {lk["files"]}; '
                                                   f'started with {lk["refs"]} -> parsed {lk["loaded"]}; expected {ljudge["expected"]}',
                                           'case': {'kind': 'node', 'case': case}})
            if not judge['ok']:
                res.violations.append({'sig': 'C10:merge:not-first-wins',
                                       'what': f'merged configuration: {out["merge"]["merged"]} from {out["merge"]["files_obs"]}',
                                       'case': {'kind': 'node', 'case': case}})
    lookup_stream(ctx, res)
    res.notes.append(f'observation O01 (not demanded by the statement): {O01} registered modules had a configured value outside '
                     f'the limits: it is cached as start value, write_<p> is called once and refuses it (RangeError logged), the '
                     f'driver function is not reached')
    if not ctx.escalated and not os.environ.get('VERIF_C10_NO_SUBPROCESS'):
        try:
            subprocess_exit_check(ctx, res)
        except subprocess_errors() as e:
            res.notes.append(f'subprocess check not run: {e!r}')
    return res


def replay(ctx, rp):
    case = rp['case']
    if case['kind'] == 'lookup':
        lk = run_lookup_case(case['case'])
        bad = False
        print('dirs   :', lk['dirs'], ' files:', lk['files'])
        print('refs   :', lk['refs'])
        for view, loaded in lookup_views(lk):
            a = ctx.driver.batch(lookup_requests(dict(lk, loaded=loaded)))
            print(f'{view:7s}:', loaded, ' model:', a[0]['loaded'], ' judge:', a[1])
            bad = bad or not a[1]['ok']
        return 1 if bad else 0
    if case['kind'] == 'module':
        r = run_single(case['spec'], case['name'], case['jcfg'])
        a = judge_module(ctx, r)
        print('cfg    :', json.dumps(case['jcfg']))
        print('impl   :', json.dumps({k: r['obs'][k] for k in ('registered', 'errors', 'events', 'driver')}))
        for p in r['obs']['params']:
            print('   param', json.dumps(p))
        print('model  :', json.dumps(a[0])[:1500])
        print('judge  :', a[1])
        return 1 if violation_sig(a[1], r['obs'], r) else 0
    if case['kind'] == 'subprocess':
        r = Result()
        subprocess_exit_check(ctx, r)
        print(r.dist, r.violations)
        return 1 if r.violations else 0
    out = run_case(case['case'])
    print('config :', case_text(case['case']))
    bad = False
    for g in out['gens']:
        a = ctx.driver.batch(node_requests(g))
        print('node   :', g['node'])
        print('model  :', json.dumps(a[0])[:800])
        print('judge  :', a[1], node_sig(a[1], g['node']) or '')
        bad = bad or not a[1].get('ok')
        for mo in g['mods']:
            j = judge_module(ctx, mo)
            sig = violation_sig(j[1], mo['obs'], mo)
            print(f'start {mo["gen"]} module {mo["name"]}: registered={mo["obs"]["registered"]} errors={mo["obs"]["errors"]} '
                  f'modprops={mo["obs"]["modprops"]} judge={j[1]}' + (f'  <-- {sig}' if sig else ''))
            bad = bad or bool(sig)
    if out['merge'] is not None:
        a = ctx.driver.batch([{'p': 'C10', 'k': 'judge_merge', 'files': out['merge']['files_obs'], 'merged': out['merge']['merged']}])
        print('merge  :', out['merge']['merged'], a)
        bad = bad or any(not x.get('ok') for x in a)
        if out['merge'].get('lookup'):
            a = ctx.driver.batch(lookup_requests(out['merge']['lookup']))
            print('lookup :', out['merge']['lookup'], a)
            bad = bad or not a[1]['ok']
    return 1 if bad else 0
