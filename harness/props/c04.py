"""C04 — No invalid, forbidden or out-of-limit request ever reaches the driver.

Generated module classes (type() over random parameter/command sets, hierarchies of 2-4 classes with plain mixins so that
check_ hooks and the automatic limit check chain along the MRO, Limit parameters introduced by any class, flags, export
settings, cfg overrides incl. initial limits) on a real SecNode + Dispatcher; request
histories with scripted recording drivers.  The datatype layer is an ORACLE for the Lean model: the real datatype
methods are run here and their results are sent as tables; every decision is taken by the model / the monitors.
The node generator and the node -> JSON canonicaliser are shared with C06 (props/c06.py imports them).

Streams of one run (all judged by the Lean side): (1) sequential histories (`run_case`); (2) `run_concurrent`: a value on its
way to write_target (by a change request, by a do request whose command forwards to the wrapper, by module code) racing
a thread that moves the dynamic limit (lock discipline of the wrappers); (3) `run_merging`: 2-3 threads changing / polling /
writing ONE struct parameter (the value given to the driver is the payload merged into the value cached at that moment);
(4) `run_shared`: generated histories served to 2-3 connections at once (requests handled one at a time, sequential model
in served order); (5) `run_wire`: generated histories as request lines through the real TCPRequestHandler.
"""
import json
import logging
import os
import random
import zlib

from check import Result
from vlib.shrink import ddmin

META = {
    'level_text': 'Theorems for all well-formed nodes, all datatype / driver / hook oracles, all requests and all histories: '
                  'change_calls_iff (write_<p> is called - exactly once, with exactly the validated value - iff module and '
                  'parameter exist and are exported, not readonly, not constant, payload accepted against the cached value, '
                  'dynamic limits and check hooks satisfied), change_calls_le_one, rejected_is_inert (otherwise: no call, node '
                  'unchanged, no update, error report of the class named by the decision list), no_call_cases, fitting_* (the '
                  'class clause by clause, fitting_invertedPair for a LimitsType pair), do_calls_iff, do_rejected_is_inert, request_ok + histories (every request of any '
                  'history, limits moved by earlier requests included, satisfies the monitored specification; WF is kept). '
                  'calls_within_current_limits (lock discipline of the wrappers: in every interleaving of any number of threads a driver call is '
                  'made with a value inside the limit in force at that moment). '
                  'calls_merge_current (change-section system: in every interleaving every driver call caused by a request is given the '
                  'payload merged into the value cached at the moment of the call), requests_one_at_a_time, '
                  'change_exactly_validated (for datatypes of the C01 model the driver gets exactly acceptWire dt j (some current); '
                  'the idempotence assumption is discharged by C01 revalidate_unchanged). '
                  'The chain of check functions is computed by the model from the class layout (chainOf = HasAccessibles.__init_subclass__ '
                  '156-172 over the classes of the MRO): chain_layout_iff (a value passes it iff every programmer\'s hook before the first '
                  'that takes over passes and - whenever the automatic limit check applies, C18 AutoApplies - the dynamic limits hold), '
                  'layout_change_calls_iff, limits_not_switched_off (an inherited hook never switches the limits off), fitting_limits_layout, '
                  'layout_histories (along every history), merge_clause_needs_no_request_lock (the merge clause rests on accessLock alone), '
                  'wf_of_wfB (Node.WF is decided by the driver for every generated node). '
                  'The model is tied to dispatcher.py / modulebase.py / params.py by a correspondence run on the real '
                  'dispatcher with recording drivers (sequentially, with 2-3 connections at once under a deterministic scheduler, and as '
                  'request lines through the real TCPRequestHandler / handler.py) on generated class hierarchies of 2-4 classes with plain '
                  'mixins (the chain the model computes is also compared with the check_funcs of the real write wrapper), and the Lean '
                  'monitors judge every implementation exchange.',
    'level_note': 'Trusted: Lean kernel + axioms; for the ten SECoP datatype kinds the value accepted from the wire is recomputed '
                  'by the C01 datatype model (acceptWire) in the Lean judge - change payloads against the cached value, command arguments, '
                  'and under concurrency against the value cached at the moment of the driver call - and the implementation must agree; export_value, '
                  'comparisons, LimitsType/StatusType and driver-returned values remain an oracle (C01-C03); drivers, command functions and check_ hooks are '
                  'oracles by definition; time stamps / omit_unchanged_within are not modelled (C05): the node runs with '
                  'omit_unchanged_within = 0.',
    'trusted': [
        'datatype oracle: the model receives the results of the real datatype methods as tables (C01-C03 verify the datatypes)',
        'value comparisons (<=, <) and unpacking of <p>_limits are Python semantics sent as data',
        'a stored read error is identified by (type, args) as SECoPError.__eq__ does',
    ],
    'modelled_not_verified': [
        'threading: the sequential model serves one request at a time; that the dispatcher does so is checked on every run '
        '(handler sections of histories served to 2-3 connections under the deterministic scheduler must not overlap and must '
        'behave as the sequential model in served order), not proved as a refinement; the accessLock disciplines (limit check + '
        'call: AccessLock.lean; merge into the current value + call: ChangeSection.lean) are small-step systems tied to the '
        'real code by replaying its events',
        'time stamps and the omit_unchanged_within window (C05)',
        'the MRO of a generated module class (C3 linearisation) is read from the real class; which class body declares which Limit '
        'parameter / check_ hook is read from the plain-data spec the classes were generated from (cross-checked against the class '
        'dicts); classes of shipped configurations (C06) still hand their check chain over as data',
        'a command function forwarding to write_<p> (the do-request road to the write wrapper) is exercised in the concurrent '
        'scenario and judged by callWithinLimitsB, it is not part of the sequential model',
    ],
    'assumptions': [
        'wire names of a module are pairwise distinct and predefined names are used for their own kind (Node.WF)',
        'command functions and check hooks do not assign parameters themselves',
        'module code changes a parameter from another thread only through read_/write_ wrappers (under accessLock), not by '
        'a bare assignment',
        'validate is idempotent on accepted values where the statement says "exactly the validated value" (the general '
        'theorems carry both values v, w; proved equal for datatypes of the C01 model: change_exactly_validated)',
    ],
}

PID = 'C04'

# ----------------------------------------------------------------------------------------
# canonical forms
# ----------------------------------------------------------------------------------------


def canon(v):
    """canonical string of a Python-side value (`V` of the model)"""
    from frappy.lib.enum import EnumMember
    if v is None:
        return 'None'
    if isinstance(v, bool):
        return 'b:%s' % v
    if isinstance(v, EnumMember):
        return 'e:%s=%d' % (v.name, v.value)
    if isinstance(v, int):
        return 'i:%d' % v
    if isinstance(v, float):
        return 'f:%r' % v
    if isinstance(v, str):
        return 's:' + json.dumps(v)
    if isinstance(v, bytes):
        return 'y:' + v.hex()
    if isinstance(v, tuple):
        return 't[' + ','.join(canon(x) for x in v) + ']'
    if isinstance(v, list):
        return 'l[' + ','.join(canon(x) for x in v) + ']'
    if isinstance(v, dict):
        return 'd{' + ','.join('%s=%s' % (json.dumps(str(k)), canon(x)) for k, x in sorted(v.items(), key=lambda kv: str(kv[0]))) + '}'
    return 'o:%s:%r' % (type(v).__name__, v)


def canonj(x):
    """canonical string of a wire value (`J` of the model)"""
    try:
        return json.dumps(x, sort_keys=True, default=lambda o: 'UNSERIALISABLE:%s' % type(o).__name__)
    except Exception as e:
        return 'UNSERIALISABLE:%s' % type(e).__name__


def err_of(exc):
    """(SECoP class name, identity) of an exception, the identity as SECoPError.__eq__ sees it after secop_error()"""
    from frappy.errors import secop_error
    e = secop_error(exc)
    try:
        ident = '%s%r%r' % (type(e).__name__, e.args, sorted(getattr(e, 'kwds', {}).items()))
    except Exception:
        ident = type(e).__name__
    return [e.name, ident]


def oracle_call(func, *args, **kwds):
    try:
        return ['ok', func(*args, **kwds)]
    except Exception as e:
        return ['err'] + err_of(e)


# ----------------------------------------------------------------------------------------
# datatypes (plain-data specs, so that a case can be stored and rebuilt)
# ----------------------------------------------------------------------------------------
LEAF_KINDS = ['float', 'floatr', 'int', 'intr', 'scaled', 'enum', 'bool', 'string', 'blob']


def gen_dtspec(rng, depth=0, numeric=False):
    kinds = ['floatr', 'intr', 'float', 'scaled'] if numeric else (
        LEAF_KINDS + ([] if depth >= 2 else ['array', 'tuple', 'struct', 'array', 'struct']))
    k = rng.choice(kinds)
    if k == 'floatr':
        lo = rng.choice([0, -10, 1.5, -1e6, 0.0])
        return ['floatr', lo, lo + rng.choice([1, 10, 100, 0.5, 1e9])]
    if k == 'intr':
        lo = rng.choice([0, -5, 1, -100])
        return ['intr', lo, lo + rng.choice([1, 3, 10, 1000])]
    if k == 'scaled':
        scale = rng.choice([0.1, 0.25, 1, 0.001])
        return ['scaled', scale, 0, rng.choice([10, 100, 2.5])]
    if k == 'enum':
        names = rng.sample(['a', 'b', 'c', 'on', 'off', 'x1'], rng.randint(1, 4))
        vals = rng.sample(range(0, 9), len(names))
        return ['enum', [[n, v] for n, v in zip(names, vals)]]
    if k == 'string':
        lo = rng.choice([0, 0, 1])
        return ['string', lo, rng.choice([None, lo + 3, 8])]
    if k == 'blob':
        return ['blob', 0, rng.choice([4, 8])]
    if k == 'array':
        lo = rng.choice([0, 1, 2])
        return ['array', gen_dtspec(rng, depth + 1), lo, lo + rng.choice([0, 2, 3])]
    if k == 'tuple':
        return ['tuple', [gen_dtspec(rng, depth + 1) for _ in range(rng.randint(1, 3))]]
    if k == 'struct':
        names = rng.sample(['a', 'b', 'c', 'dd'], rng.randint(1, 3))
        optional = [n for n in names if rng.random() < 0.4]
        return ['struct', [[n, gen_dtspec(rng, depth + 1)] for n in names], optional]
    return [k]


def mk_dtype(spec):
    import frappy.datatypes as dt
    k = spec[0]
    if k == 'float':
        return dt.FloatRange()
    if k == 'floatr':
        return dt.FloatRange(spec[1], spec[2])
    if k == 'int':
        return dt.IntRange()
    if k == 'intr':
        return dt.IntRange(spec[1], spec[2])
    if k == 'scaled':
        return dt.ScaledInteger(spec[1], spec[2], spec[3])
    if k == 'enum':
        return dt.EnumType('e', **{n: v for n, v in spec[1]})
    if k == 'bool':
        return dt.BoolType()
    if k == 'string':
        return dt.StringType(spec[1], spec[2]) if spec[2] is not None else dt.StringType(spec[1])
    if k == 'blob':
        return dt.BLOBType(spec[1], spec[2])
    if k == 'array':
        return dt.ArrayOf(mk_dtype(spec[1]), spec[2], spec[3])
    if k == 'tuple':
        return dt.TupleOf(*[mk_dtype(s) for s in spec[1]])
    if k == 'struct':
        return dt.StructOf(optional=list(spec[2]), **{n: mk_dtype(s) for n, s in spec[1]})
    raise ValueError(spec)


def gen_valid(rng, spec, partial=False):
    """a valid *wire* value for the datatype"""
    k = spec[0]
    if k == 'float':
        return rng.choice([0, 1.5, -3.25, 1e10, 7, -0.0, 2.5e-5])
    if k == 'floatr':
        lo, hi = spec[1], spec[2]
        return rng.choice([lo, hi, (lo + hi) / 2, lo + (hi - lo) * rng.random(), hi + abs(hi) * 1e-9])
    if k == 'int':
        return rng.choice([0, 1, -7, 1000, 2 ** 24])
    if k == 'intr':
        return rng.choice([spec[1], spec[2], rng.randint(spec[1], spec[2]), float(rng.randint(spec[1], spec[2]))])
    if k == 'scaled':
        top = int(round(spec[3] / spec[1]))
        return rng.choice([0, top, rng.randint(0, top)])
    if k == 'enum':
        n, v = rng.choice(spec[1])
        return rng.choice([n, v])
    if k == 'bool':
        return rng.choice([True, False, 0, 1])
    if k == 'string':
        hi = spec[2] if spec[2] is not None else (spec[1] or 6)      # StringType(n) means exactly n characters
        n = rng.randint(spec[1], hi)
        return ''.join(rng.choice('abc xyz"\\') for _ in range(n))
    if k == 'blob':
        import base64
        return base64.b64encode(bytes(rng.randrange(256) for _ in range(rng.randint(spec[1], spec[2])))).decode()
    if k == 'array':
        return [gen_valid(rng, spec[1]) for _ in range(rng.randint(spec[2], spec[3]))]
    if k == 'tuple':
        return [gen_valid(rng, s) for s in spec[1]]
    if k == 'struct':
        res = {}
        for n, s in spec[1]:
            if partial and n in spec[2] and rng.random() < 0.6:
                continue
            res[n] = gen_valid(rng, s)
        return res
    raise ValueError(spec)


JUNK = [None, True, 'str', 1.5, 7, [], [1, 'a'], {'a': 1}, 1e308, -1, 10 ** 30, '', [[1]], {'zz': 0}, 0]


def gen_payload(rng, spec):
    """(wire value, intended class) — mostly valid, else wrong kind / out of range / structurally broken"""
    r = rng.random()
    if spec is None:
        return rng.choice(JUNK), 'junk'
    if r < 0.55:
        return gen_valid(rng, spec, partial=rng.random() < 0.5), 'valid'
    if r < 0.75:
        return rng.choice(JUNK), 'wrongkind'
    k = spec[0]
    if k in ('floatr', 'intr'):
        return rng.choice([spec[1] - 1, spec[2] + 1, spec[2] + 0.5, spec[1] - 1e-3, spec[2] * 1000 + 5]), 'range'
    if k == 'scaled':
        return rng.choice([-1, int(spec[3] / spec[1]) + 2, 1.5]), 'range'
    if k == 'enum':
        return rng.choice([99, 'nope', -1]), 'range'
    if k == 'string':
        return rng.choice(['x' * ((spec[2] or spec[1] or 6) + 2), 'ä', '']), 'range'
    if k == 'array':
        n = rng.choice([max(0, spec[2] - 1), spec[3] + 1, spec[3] + 4])
        v = [gen_valid(rng, spec[1]) for _ in range(n)]
        if v and rng.random() < 0.4:
            v[rng.randrange(len(v))] = rng.choice(JUNK)
        return v, 'range'
    if k == 'tuple':
        v = [gen_valid(rng, s) for s in spec[1]]
        c = rng.random()
        if c < 0.35:
            v = v[:-1]
        elif c < 0.6:
            v = v + [1]
        else:
            v[rng.randrange(len(v))] = rng.choice(JUNK)
        return v, 'range'
    if k == 'struct':
        v = gen_valid(rng, spec)
        c = rng.random()
        if c < 0.3:
            v['extra'] = 1
        elif c < 0.6 and v:
            v.pop(rng.choice(sorted(v)))
        elif v:
            v[rng.choice(sorted(v))] = rng.choice(JUNK)
        return v, 'range'
    return rng.choice(JUNK), 'wrongkind'


# ----------------------------------------------------------------------------------------
# node specs
# ----------------------------------------------------------------------------------------
HOOK_KINDS = ['pass', 'stop', 'range_some', 'crash_some', 'stop_some', 'hw_some']
BASES = ['Module', 'Readable', 'Writable', 'Drivable']
PREDEF_PARAM_NAMES = ['ramp', 'setpoint', 'mode', 'use_ramp']


def gen_param(rng, attr, numeric=False):
    spec = gen_dtspec(rng, numeric=numeric)
    export = rng.choices([True, False, 'custom'], [0.8, 0.05, 0.15])[0]
    p = {'attr': attr, 'dt': spec, 'readonly': rng.random() < 0.3, 'export': export,
         'has_read': rng.random() < 0.5, 'has_write': rng.random() < 0.7,
         'constant': False, 'default': rng.random() < 0.85, 'limit': None}
    if rng.random() < 0.12:
        p['constant'] = True
    return p


def gen_modspec(rng, name, big):
    """the module class as plain data.  `layers`: the classes of the hierarchy, BASE FIRST (layers[-1] is the module class,
    layers[0] derives from the frappy base class); a layer marked `mixin` is a plain class (not a HasAccessibles) holding
    Limit parameters and check_ hooks only, mixed into the next class of the chain (MRO: ... L[i+1], L[i] (mixin), L[i-1] ...).
    Parameters, their Limit parameters and the check_ hooks on them are spread over the layers independently: limits are
    introduced by the class of the parameter or by any class derived from it (also by one that merely inherits a hook),
    hooks are defined by any class from the parameter's class upwards - several per parameter chain along the MRO."""
    base = rng.choice(BASES)
    nlayers = rng.choice([2, 2, 2, 3, 3, 4])
    layers = [{'params': [], 'commands': [], 'hooks': []} for _ in range(nlayers)]
    for i in range(1, nlayers - 1):
        if rng.random() < 0.35:
            layers[i]['mixin'] = True
    full = [i for i in range(nlayers) if not layers[i].get('mixin')]      # classes that may hold anything
    names = ['p%d' % i for i in range(1, 8)] + PREDEF_PARAM_NAMES
    rng.shuffle(names)
    nparams = rng.randint(1, 6 if big else 4)
    custom_pool = ['xq1', 'xq2', '_yy', 'zed', 'value2', '_w']
    rng.shuffle(custom_pool)
    all_params = []

    def limit_layer(lp):
        """the class introducing a limit parameter: the class of the parameter, or any class above it"""
        return lp if rng.random() < 0.5 else rng.randrange(lp, nlayers)

    def add_limit(lim, lp):
        """declare the limit parameter; now and then a derived class declares it AGAIN (`<p>_max = Limit()` overriding the
        inherited one): the automatic check belongs to the class that defined it FIRST"""
        ll = limit_layer(lp)
        layers[ll]['params'].append(lim)
        above = [i for i in full if i > ll]
        r = rng.random()
        if above and r < 0.15:
            layers[rng.choice(above)]['params'].append(dict(lim, has_write=False, redeclared=True))
        elif above and r < 0.23 and not layers[ll].get('mixin'):
            # (not for a limit declared by a plain mixin: frappy attaches the automatic check when the first HasAccessibles
            # class using the mixin is created - if that very class removes the limit again, no check is ever attached;
            # the model attaches it to the declaring class.  No behaviour differs: the module has no such limit.)
            # a derived class REMOVES the inherited limit parameter (`<p>_max = None`, the way frappy removes an inherited
            # accessible): the module has no such limit any more
            layers[rng.choice(above)]['params'].append({'attr': lim['attr'], 'limit': lim['limit'], 'removed': True})

    for i in range(nparams):
        attr = names.pop()
        numeric = rng.random() < 0.5
        p = gen_param(rng, attr, numeric)
        if p['export'] == 'custom':
            p['export'] = custom_pool.pop()
        layer = rng.choice(full[:-1] + full[:1] if len(full) > 1 else full) if rng.random() < 0.7 else rng.choice(full)
        layers[layer]['params'].append(p)
        all_params.append((layer, p))
        if numeric and rng.random() < 0.7 and not p['constant']:
            kinds = rng.choice([['min', 'max'], ['limits'], ['max'], ['min'], ['min', 'max', 'limits']])
            for lk in kinds:
                # (Limit(export=False) cannot be declared: Limit.__set_name__ calls export.startswith)
                lim = {'attr': attr + '_' + lk, 'limit': attr, 'export': True,
                       'readonly': rng.random() < 0.1, 'has_write': rng.random() < 0.3, 'has_read': False}
                add_limit(lim, layer)
    # a derived class removes an inherited parameter altogether (`<p> = None`): requests for it must meet NoSuchParameter,
    # whatever read_/write_/check_ methods and limit parameters the base classes still carry for it
    with_limits = {q['limit'] for l in layers for q in l['params'] if q.get('limit')}   # (frappy refuses a limit without its parameter)
    for layer, p in list(all_params):
        above = [i for i in full if i > layer]
        if 'readonly' in p and p['attr'] not in with_limits and above and rng.random() < 0.06:
            layers[rng.choice(above)]['params'].append({'attr': p['attr'], 'limit': None, 'removed': True})
    if base in ('Writable', 'Drivable'):
        # target of the base class: give it a driver and limits
        tl = rng.choice(full)
        if rng.random() < 0.8:
            layers[tl]['params'].append({'attr': 'target', 'override': True, 'has_write': rng.random() < 0.85,
                                         'has_read': rng.random() < 0.3})
            for lk in rng.choice([['min', 'max'], ['limits'], ['max'], ['min', 'max', 'limits'], []]):
                add_limit({'attr': 'target_' + lk, 'limit': 'target', 'export': True, 'readonly': False,
                           'has_write': rng.random() < 0.3, 'has_read': False}, tl)
            # (`target` exists in the frappy base class: a hook on it may sit in ANY class of the hierarchy)
            all_params.append((0, {'attr': 'target', 'dt': ['floatr', 0, 100]}))
    if base == 'Readable' and rng.random() < 0.5:
        layers[rng.choice(full)]['params'].append({'attr': 'value', 'override': True, 'has_write': False, 'has_read': True})
    # hooks: on parameters of any layer, defined in that layer or any layer above (hooks of several classes chain)
    limited_heads = {q['limit'] for l in layers for q in l['params'] if q.get('limit')}
    for layer, p in all_params:
        for hl in range(layer, nlayers):
            if rng.random() < (0.3 if nlayers == 2 or p['attr'] in limited_heads else 0.2):
                layers[hl]['hooks'].append({'attr': p['attr'], 'kind': rng.choice(HOOK_KINDS)})
    # commands
    cnames = ['c1', 'c2', 'stop', 'reset', 'go']
    rng.shuffle(cnames)
    for i in range(rng.choice([0, 1, 1, 2, 2, 3])):
        cn = cnames.pop()
        argk = rng.choice(['none', 'leaf', 'leaf', 'tuple', 'struct'])
        if argk == 'none':
            arg = None
        elif argk == 'leaf':
            arg = gen_dtspec(rng, depth=2)
        elif argk == 'tuple':
            arg = ['tuple', [gen_dtspec(rng, depth=2) for _ in range(rng.randint(1, 3))]]
        else:
            mem = rng.sample(['a', 'b', 'c'], rng.randint(1, 3))
            nopt = rng.randint(0, len(mem))
            arg = ['struct', [[n, gen_dtspec(rng, depth=2)] for n in mem], mem[len(mem) - nopt:]]
        res = gen_dtspec(rng, depth=2) if rng.random() < 0.5 else None
        export = rng.choices([True, False, 'custom'], [0.83, 0.07, 0.1])[0]
        if export == 'custom':
            export = custom_pool.pop()
        layers[rng.choice(full)]['commands'].append({'attr': cn, 'arg': arg, 'res': res, 'export': export})
    if base == 'Drivable' and not any(c['attr'] == 'stop' for l in layers for c in l['commands']):
        # the inherited no-op stop() is not a recording driver: override it
        layers[0]['commands'].append({'attr': 'stop', 'arg': None, 'res': None, 'export': True})
    # configuration overrides
    cfg = {}
    gone = {q['attr'] for l in layers for q in l['params'] if q.get('removed')}
    for layer, p in all_params:
        if 'readonly' not in p or p['attr'] in gone:
            continue
        r = rng.random()
        if r < 0.08:
            cfg[p['attr']] = {'export': False}
        elif r < 0.14 and custom_pool:
            cfg[p['attr']] = {'export': custom_pool.pop()}
        elif r < 0.22:
            cfg[p['attr']] = {'readonly': not p['readonly']}
        elif r < 0.26 and p['export'] is False:
            cfg[p['attr']] = {'export': True}
    # the configuration gives limit parameters their initial value (the usual way limits are set in the field): already
    # the first request meets limits narrower than the range of the datatype
    heads = {p['attr']: p['dt'] for _, p in all_params}
    removed = {q['attr'] for l in layers for q in l['params'] if q.get('removed')}
    for layer in layers:
        for p in layer['params']:
            dts = heads.get(p.get('limit'))
            if dts is None or p.get('redeclared') or p.get('removed') or p['attr'] in removed or rng.random() >= 0.3:
                continue

            def pyval():
                w = gen_valid(rng, dts)
                return dts[1] * w if dts[0] == 'scaled' else w
            cfg[p['attr']] = {'value': sorted([pyval(), pyval()]) if p['attr'].endswith('_limits') else pyval()}
    # feature mixins: 'FeatA' = direct Feature subclass (reported), 'FeatSub' = subclass of one (itself not a feature)
    feats = rng.choice([[], [], [], ['FeatA'], ['FeatB', 'FeatA'], ['FeatSub'], ['FeatSub', 'FeatB']])
    exported = rng.random() < 0.8
    if not exported and rng.random() < 0.7:
        # a module that is not exported whose configuration ALSO carries explicit export settings for some of its
        # accessibles (export=True or a name): the module setting must win, nothing of it may become reachable
        eligible = [p for _, p in all_params if 'readonly' in p and p['attr'] not in gone]
        for p in rng.sample(eligible, min(len(eligible), rng.choice([1, 1, 2]))):
            over = dict(cfg.get(p['attr'], {}))
            over['export'] = custom_pool.pop() if custom_pool and rng.random() < 0.5 else True
            cfg[p['attr']] = over
    return {'name': name, 'base': base, 'exported': exported, 'layers': layers, 'cfg': cfg, 'features': feats}


def gen_nodespec(rng, big):
    n = rng.choice([1, 1, 2, 2, 3] if big else [1, 1, 2])
    mods = [gen_modspec(rng, 'm%d' % (i + 1), big) for i in range(n)]
    mods[0]['exported'] = True     # a node whose only module is hidden answers NoSuch... to everything
    return {'modules': mods}


# ----------------------------------------------------------------------------------------
# building real classes from a spec
# ----------------------------------------------------------------------------------------
class Box:
    """what the fake drivers of one node share with the harness"""

    def __init__(self):
        self.log = []          # driver calls of the current request
        self.script = {'kind': 'none'}
        self.returned = []     # raw values handed back by drivers (python objects)
        self.rng = random.Random(0)
        self.hooks = {}        # id -> (kind)
        self.dtspecs = {}      # (classname, attr) -> dtspec for result generation
        self.layerspec = {}    # generated class -> the layer (plain data) it was made from


def hook_result(kind, value):
    """behaviour family of the generated check_ hooks; returns 'pass' | 'stop' | exception instance"""
    from frappy.errors import RangeError, HardwareError
    h = zlib.crc32(canon(value).encode())
    if kind == 'pass':
        return 'pass'
    if kind == 'stop':
        return 'stop'
    if kind == 'range_some':
        return RangeError('hook says no') if h % 3 == 0 else 'pass'
    if kind == 'crash_some':
        return KeyError('hook crashed') if h % 4 == 0 else 'pass'
    if kind == 'stop_some':
        return 'stop' if h % 2 == 0 else 'pass'
    if kind == 'hw_some':
        return HardwareError('hook: hardware') if h % 5 == 0 else 'pass'
    raise ValueError(kind)


def drv_behave(box, what, modobj, attr, dtspec_key):
    """scripted behaviour of a fake driver; the returned raw value is recorded for the oracle tables"""
    from frappy.errors import HardwareError, CommunicationFailedError
    from frappy.modulebase import Done
    kind = box.script['kind']
    if kind == 'none':
        return None
    if kind == 'done':
        return Done if what != 'cmd' else None
    if kind == 'raise_secop':
        raise rng_choice(box, [HardwareError('hw %d' % box.script.get('n', 0)), CommunicationFailedError('comm')])
    if kind == 'raise_other':
        raise rng_choice(box, [ZeroDivisionError('division'), KeyError('k')])
    spec = box.dtspecs.get(dtspec_key)
    if kind == 'value_invalid' or spec is None:
        raw = rng_choice(box, ['junk', [1, 2, 3, 4, 5, 6, 7, 8, 9], -12345.5, {'q': 1}, 10 ** 40])
    else:
        wire = gen_valid(box.rng, spec)
        try:
            raw = mk_dtype(spec).import_value(wire)
        except Exception:
            raw = wire
    box.returned.append(raw)
    return raw


def rng_choice(box, items):
    return items[box.rng.randrange(len(items))]


def mk_layer_class(box, clsname, bases, layer, known, extra=None):
    """known: attr -> dtspec of parameters visible so far (for limits and result generation);
    extra: further entries of the class body (run_forward: the helper parameter and its drivers), in front of the rest"""
    from frappy.params import Parameter, Command, Limit
    attrs = {'__module__': 'verifgen'}
    attrs.update(extra or {})
    for p in layer['params']:
        a = p['attr']
        if p.get('removed'):
            attrs[a] = None          # removes the inherited accessible (HasAccessibles.__init_subclass__)
            known.pop(a, None)
            continue
        if p.get('limit'):
            kw = {}
            if p['export'] is not True:
                kw['export'] = p['export']
            if p['readonly']:
                kw['readonly'] = True
            attrs[a] = Limit(**kw)
            base = known.get(p['limit'])
            if base is not None:
                known[a] = ['tuple', [base, base]] if a.endswith('_limits') else base
        elif p.get('override'):
            if a == 'target':
                attrs[a] = Parameter(datatype=mk_dtype(['floatr', 0, 100]))
                known[a] = ['floatr', 0, 100]
            elif a == 'value':
                attrs[a] = Parameter(datatype=mk_dtype(['floatr', 0, 100]), default=1)
                known[a] = ['floatr', 0, 100]
        else:
            dtobj = mk_dtype(p['dt'])
            kw = {'readonly': p['readonly']}
            if p['export'] is not True:
                kw['export'] = p['export']
            if p['constant']:
                kw['constant'] = dtobj.import_value(gen_valid(random.Random(a), p['dt']))
            elif p['default']:
                kw['default'] = dtobj.import_value(gen_valid(random.Random(a + 'd'), p['dt']))
            attrs[a] = Parameter('parameter ' + a, dtobj, **kw)
            known[a] = p['dt']
        key = (clsname, a)
        box.dtspecs[key] = known.get(a)
        if p.get('has_read'):
            def rfunc(self, a=a, key=key):
                box.log.append(['read', self.name, a])
                return drv_behave(box, 'read', self, a, key)
            rfunc.__name__ = 'read_' + a
            attrs['read_' + a] = rfunc
        if p.get('has_write'):
            def wfunc(self, value, a=a, key=key):
                box.log.append(['write', self.name, a, canon(value)])
                return drv_behave(box, 'write', self, a, key)
            wfunc.__name__ = 'write_' + a
            attrs['write_' + a] = wfunc
    for h in layer['hooks']:
        hid = len(box.hooks) + 1
        box.hooks[hid] = h['kind']

        def hook(self, value, kind=h['kind']):
            r = hook_result(kind, value)
            if r == 'pass':
                return None
            if r == 'stop':
                return True
            raise r
        hook._hook_id = hid
        hook.__name__ = 'check_' + h['attr']
        attrs['check_' + h['attr']] = hook
    for c in layer['commands']:
        a = c['attr']
        key = (clsname, a)
        box.dtspecs[key] = c['res']
        argdt = mk_dtype(c['arg']) if c['arg'] else None
        resdt = mk_dtype(c['res']) if c['res'] else None
        ns = {'box': box, 'canon': canon, 'drv_behave': drv_behave, '_key': key, '_attr': a, '_M': _MISSING}
        if c['arg'] is None:
            src = ("def f(self):\n    '''command'''\n    box.log.append(['cmd', self.name, _attr, None])\n"
                   "    return drv_behave(box, 'cmd', self, _attr, _key)\n")
        elif c['arg'][0] == 'tuple':
            src = ("def f(self, *args):\n    '''command'''\n    box.log.append(['cmd', self.name, _attr, canon(tuple(args))])\n"
                   "    return drv_behave(box, 'cmd', self, _attr, _key)\n")
        elif c['arg'][0] == 'struct':
            mem = [n for n, _ in c['arg'][1]]
            opt = c['arg'][2]
            sig = ', '.join(n if n not in opt else n + '=_M' for n in mem)
            body = '{' + ', '.join('%r: %s' % (n, n) for n in mem) + '}'
            src = ("def f(self, %s):\n    '''command'''\n    kw = {k: v for k, v in %s.items() if v is not _M}\n"
                   "    box.log.append(['cmd', self.name, _attr, canon(kw)])\n"
                   "    return drv_behave(box, 'cmd', self, _attr, _key)\n" % (sig, body))
        else:
            src = ("def f(self, arg):\n    '''command'''\n    box.log.append(['cmd', self.name, _attr, canon(arg)])\n"
                   "    return drv_behave(box, 'cmd', self, _attr, _key)\n")
        exec(src, ns)  # pylint: disable=exec-used
        f = ns['f']
        f.__name__ = a
        kw = {}
        if c['export'] is not True:
            kw['export'] = c['export']
        attrs[a] = Command(argdt, result=resdt, **kw)(f)
    return type(clsname, bases, attrs)


_features = {}


def feature_class(name):
    """empty feature mixins (no accessibles of their own)"""
    from frappy.modulebase import Feature
    if not _features:
        _features['FeatA'] = type('FeatA', (Feature,), {'__module__': 'verifgen', '__doc__': 'feature A'})
        _features['FeatB'] = type('FeatB', (Feature,), {'__module__': 'verifgen', '__doc__': 'feature B'})
        _features['FeatSub'] = type('FeatSub', (_features['FeatA'],), {'__module__': 'verifgen', '__doc__': 'refined A'})
    return _features[name]


_MISSING = object()
_clscount = [0]


def build_node(nodespec):
    """-> (vlib.node.Node, Box, {modname: unwrapped class})"""
    import frappy.modules as fm
    from vlib.node import Node
    box = Box()
    cfg = {}
    classes = {}
    for ms in nodespec['modules']:
        _clscount[0] += 1
        base = getattr(fm, ms['base'])
        known = {}
        mixins = tuple(feature_class(f) for f in ms.get('features', []))
        cls = None
        pending = []      # plain mixins, combined by the next class towards the module class (the later one first in the MRO)
        for i, layer in enumerate(ms['layers']):
            cname = 'Gen%s%d' % (chr(ord('A') + i), _clscount[0])
            if layer.get('mixin'):
                c = mk_layer_class(box, cname, (), layer, known)
                pending.insert(0, c)
            else:
                c = mk_layer_class(box, cname, tuple(pending) + ((mixins + (base,)) if cls is None else (cls,)), layer, known)
                pending = []
                cls = c
            box.layerspec[c] = layer
        assert not pending, 'the module class itself is not a mixin'
        c1 = cls
        classes[ms['name']] = c1
        mcfg = {'cls': c1, 'description': 'generated module ' + ms['name']}
        if not ms['exported']:
            mcfg['export'] = False
        for attr, over in ms['cfg'].items():
            mcfg[attr] = dict(over)
        cfg[ms['name']] = mcfg
    node = Node(cfg, omit_unchanged_within=0)
    return node, box, classes


# ----------------------------------------------------------------------------------------
# node -> JSON for the Lean side
# ----------------------------------------------------------------------------------------
def export_setting(ms_index, attr, cls_aobj, cfgover):
    """the configured export setting: what the generator asked for, else what the class says"""
    if cfgover is not None and 'export' in cfgover:
        e = cfgover['export']
    elif attr in ms_index and ms_index[attr].get('export') is not None and not ms_index[attr].get('override'):
        e = ms_index[attr]['export']
    else:
        e = cls_aobj.export          # inherited accessible: the class-level name
        return ['custom', e] if e else ['no']
    if e is True:
        return ['auto']
    if e is False:
        return ['no']
    return ['custom', e]


def check_chain(mycls, attr):
    """the check functions found in the class dicts along the MRO (used where no class layout is known: shipped classes)"""
    chain = []
    for pos, b in enumerate(mycls.__mro__):
        f = b.__dict__.get('check_' + attr)
        if f is None:
            continue
        hid = getattr(f, '_hook_id', None)
        if hid is not None:
            chain.append(pos)      # a programmer's hook is identified by the MRO position of its class
        elif getattr(f, '__name__', '') == '<lambda>':
            chain.append('limits')
        else:
            chain.append('foreign:' + getattr(f, '__qualname__', '?'))
    return chain


def class_layout(box, mycls, attr):
    """the class layout of parameter `attr` AS THE PROGRAMMER WROTE IT (one entry per class of the MRO, most derived first):
    [declares <attr>_min, declares <attr>_max, declares <attr>_limits, defines check_<attr>] - taken from the plain-data
    spec the generated classes were made from, never from what HasAccessibles.__init_subclass__ left in the class dicts
    (it attaches the automatic limit check there: that is the code under test)."""
    from frappy.params import Limit
    layout = []
    for b in mycls.__mro__:
        lay = box.layerspec.get(b)
        if lay is not None:
            decl = [any(p['attr'] == attr + '_' + k and p.get('limit') and not p.get('removed') for p in lay['params'])
                    for k in ('min', 'max', 'limits')]
            own = any(h['attr'] == attr for h in lay['hooks'])
            # the class body was made from this very spec (self-check of the harness, independent of the code under test:
            # __init_subclass__ may copy accessibles into derived classes and attach the automatic check, it never removes)
            for k, d in zip(('min', 'max', 'limits'), decl):
                if d and not isinstance(b.__dict__.get(attr + '_' + k), Limit):
                    raise RuntimeError('class %s was generated with %s_%s but does not hold it' % (b.__name__, attr, k))
            if own and getattr(b.__dict__.get('check_' + attr), '_hook_id', None) is None:
                raise RuntimeError('class %s was generated with check_%s but does not hold it' % (b.__name__, attr))
        else:
            # classes of frappy itself / feature mixins: their own bodies
            decl = [isinstance(b.__dict__.get(attr + '_' + k), Limit) for k in ('min', 'max', 'limits')]
            f = b.__dict__.get('check_' + attr)
            own = f is not None and getattr(f, '__name__', '') != '<lambda>'
            if own:
                raise RuntimeError('class %s defines check_%s: no oracle for a hook of a shipped class' % (b.__name__, attr))
        layout.append(decl + [own])
    return layout


def impl_chain(modobj, mycls, attr):
    """the check functions the generated write wrapper of the REAL class runs (its `check_funcs`), in the model's terms:
    'limits' for the automatic checkLimits call, the MRO position of the defining class for a programmer's hook"""
    w = getattr(type(modobj), 'write_' + attr, None)
    funcs = None
    for d in (getattr(w, '__defaults__', None) or ()):
        if isinstance(d, tuple):
            funcs = d
    if funcs is None:
        return None
    chain = []
    for f in funcs:
        if getattr(f, '_hook_id', None) is not None:
            pos = [i for i, b in enumerate(mycls.__mro__) if b.__dict__.get('check_' + attr) is f]
            chain.append(pos[0] if pos else 'unplaced-hook')
        elif getattr(f, '__name__', '') == '<lambda>':
            chain.append('limits')
        else:
            chain.append('foreign:' + getattr(f, '__qualname__', '?'))
    return chain


def readerror_json(pobj):
    if pobj.readerror is None:
        return None
    return err_of(pobj.readerror)


def props_json(aobj, drop):
    try:
        ep = aobj.exportProperties()
    except Exception:
        return []
    return [[k, canonj(v)] for k, v in ep.items() if k not in drop]


def is_limits_pair(dt):
    from frappy.datatypes import LimitsType
    return isinstance(dt, LimitsType)


def datainfo_validate(dt):
    """validate() as far as the described datainfo can express it.  A LimitsType is described as a plain tuple; its
    additional order test (min <= max) is a dynamic-limit condition which the MODEL decides (pairInverted), so the
    oracle handed to the model for `accept` is the tuple part only."""
    from frappy.datatypes import TupleOf
    if is_limits_pair(dt):
        return lambda value, previous=None: TupleOf.validate(dt, value, previous)
    return dt.validate


def node_json(node, nodespec=None, classes=None, box=None):
    from frappy.params import Parameter, Command, Limit
    mods = []
    specs = {ms['name']: ms for ms in (nodespec or {'modules': []})['modules']}
    for mname, modobj in node.secnode.modules.items():
        ms = specs.get(mname)
        index = {}
        if ms:
            for layer in ms['layers']:
                for p in layer['params']:
                    index.setdefault(p['attr'], p)
                for c in layer['commands']:
                    index.setdefault(c['attr'], c)
        mycls, = type(modobj).__bases__
        accs = []
        for attr, aobj in modobj.accessibles.items():
            cls_aobj = mycls.accessibles.get(attr, aobj)
            cfgover = ms['cfg'].get(attr) if ms else None
            if ms is None:
                exp = ['custom', aobj.export] if aobj.export else ['no']
            else:
                exp = export_setting(index, attr, cls_aobj, cfgover)
            if isinstance(aobj, Parameter):
                accs.append({
                    'kind': 'param', 'attr': attr, 'exp': exp,
                    'limitHead': attr.rpartition('_')[0] if (isinstance(aobj, Limit) and ms is not None
                                                             and not (cfgover and 'export' in cfgover)) else None,
                    'isLimitsPair': is_limits_pair(aobj.datatype),
                    'readonly': bool(aobj.readonly),
                    'constant': None if aobj.constant is None else canon(aobj.constant),
                    'value': canon(aobj.value), 'readerror': readerror_json(aobj),
                    'checks': check_chain(mycls, attr) if ms is not None and box is None else [],
                    **({'layers': class_layout(box, mycls, attr), 'implChain': impl_chain(modobj, mycls, attr)}
                       if ms is not None and box is not None else {}),
                    'hasRead': getattr(mycls, 'read_' + attr, None) is not None,
                    'hasWrite': getattr(mycls, 'write_' + attr, None) is not None,
                    'datainfo': canonj(aobj.datatype.export_datatype()),
                    'props': props_json(aobj, ('datainfo', 'constant', 'readonly')),
                })
            elif isinstance(aobj, Command):
                accs.append({
                    'kind': 'command', 'attr': attr, 'exp': exp,
                    'hasArg': bool(aobj.argument), 'hasRes': bool(aobj.result),
                    'datainfo': canonj(aobj.datatype.export_datatype()),
                    'props': props_json(aobj, ('datainfo',)),
                })
        from frappy.modulebase import Feature
        mods.append({'name': mname, 'exported': bool(modobj.export), 'accs': accs,
                     'props': props_json(modobj, ()),
                     'mro': [[b.__name__, Feature in b.__bases__] for b in mycls.__mro__]})
    return {'modules': mods}


def cache_rows(node):
    rows = []
    for mname, modobj in node.secnode.modules.items():
        for attr, pobj in modobj.parameters.items():
            rows.append([mname, attr, canon(pobj.value), None if pobj.readerror is None else pobj.readerror.name])
    return rows


# ----------------------------------------------------------------------------------------
# requests
# ----------------------------------------------------------------------------------------
SCRIPTS = {
    'change': [('none', 45), ('value_valid', 20), ('value_invalid', 8), ('done', 5), ('raise_secop', 12), ('raise_other', 10)],
    'do': [('none', 35), ('value_valid', 35), ('value_invalid', 10), ('raise_secop', 10), ('raise_other', 10)],
    'read': [('value_valid', 50), ('none', 8), ('value_invalid', 10), ('done', 6), ('raise_secop', 16), ('raise_other', 10)],
}


def spec_index(nodespec):
    """what the generator knows about the accessibles: [(mod, attr, kind, dtspec or argspec)]"""
    res = []
    for ms in nodespec['modules']:
        known = {}
        for layer in ms['layers']:
            for p in layer['params']:
                a = p['attr']
                if p.get('redeclared') or p.get('removed'):
                    continue
                if p.get('limit'):
                    base = known.get(p['limit'])
                    known[a] = None if base is None else (['tuple', [base, base]] if a.endswith('_limits') else base)
                elif p.get('override'):
                    known[a] = ['floatr', 0, 100]
                else:
                    known[a] = p['dt']
                exp = p.get('export', True)
                if 'export' in ms['cfg'].get(a, {}):
                    exp = ms['cfg'][a]['export']
                res.append((ms['name'], a, 'param', known[a], exp))
            for c in layer['commands']:
                res.append((ms['name'], c['attr'], 'command', c['arg'], c['export']))
        if ms['base'] != 'Module':
            res.append((ms['name'], 'pollinterval', 'param', ['floatr', 0.1, 120], True))
            res.append((ms['name'], 'status', 'param', None, True))
    return res


def guess_wire(rng, attr, exp, kind):
    """names a client might try for the accessible: the right one most of the time, plausible wrong ones else"""
    from frappy.params import PREDEFINED_ACCESSIBLES
    if isinstance(exp, str):
        right = exp
    elif attr in PREDEFINED_ACCESSIBLES or (attr.rpartition('_')[0] in PREDEFINED_ACCESSIBLES
                                            and attr.rpartition('_')[2] in ('min', 'max', 'limits')):
        right = attr
    else:
        right = '_' + attr
    r = rng.random()
    if r < 0.95:
        return right
    return rng.choice([attr, '_' + attr, right + 'x', '__' + attr, right.upper(), ''])


def gen_steps(rng, nodespec, nsteps):
    idx = spec_index(nodespec)
    params = [e for e in idx if e[2] == 'param']
    cmds = [e for e in idx if e[2] == 'command']
    limits = [e for e in params if e[1].rpartition('_')[2] in ('min', 'max', 'limits') and e[3] is not None]
    limited = [e for e in params if any(l[0] == e[0] and l[1].rpartition('_')[0] == e[1] for l in limits)]
    hidden_mods = {ms['name'] for ms in nodespec['modules'] if not ms['exported']}

    def pick(pool):
        """mostly accessibles of exported modules (everything of an unexported module is just NoSuch...)"""
        e = rng.choice(pool)
        if e[0] in hidden_mods and rng.random() < 0.8:
            e = rng.choice(pool)
        return e
    steps = []
    for i in range(nsteps):
        r = rng.random()
        if params and rng.random() < 0.06:
            # a fault inside the module: it assigns a parameter itself; the next request reads that parameter
            st = gen_assign(rng, params, rng.randrange(1 << 30))
            steps.append(st)
            m, a = st['spec'].split(':', 1)
            exp = next(e[4] for e in params if e[0] == m and e[1] == a)
            steps.append({'kind': 'read', 'spec': '%s:%s' % (m, guess_wire(rng, a, exp, 'param')), 'data': None,
                          'script': 'value_valid', 'seed': rng.randrange(1 << 30)})
            continue
        kind = 'change' if r < 0.58 else 'do' if r < 0.78 else 'read'
        if kind == 'do' and not cmds and rng.random() < 0.85:
            kind = 'change'
        script = rng.choices([s for s, _ in SCRIPTS[kind]], [w for _, w in SCRIPTS[kind]])[0]
        t = rng.random()
        data = None
        if kind == 'do':
            if t < 0.86 and cmds:
                m, a, _, argspec, exp = pick(cmds)
                spec = '%s:%s' % (m, guess_wire(rng, a, exp, 'command'))
                c = rng.random()
                if argspec is None:
                    data = None if c < 0.8 else rng.choice(JUNK)
                else:
                    data = None if c < 0.12 else gen_payload(rng, argspec)[0]
            elif t < 0.91 and params:
                m, a, _, _, exp = pick(params)
                spec = '%s:%s' % (m, guess_wire(rng, a, exp, 'param'))
                data = rng.choice([None, 1])
            else:
                spec = rng.choice(['m1', 'zz:stop', '', None, 'm1:', ':stop', 'm1:c1:x', 'm2', 'm1:nosuch'])
                data = rng.choice([None, None, 3])
        else:
            pool = params
            if kind == 'change' and t < 0.45 and (limits or limited):
                pool = (limits + limited) or params
            if t < 0.93 and pool:
                m, a, _, dtspec, exp = pick(pool)
                wire = guess_wire(rng, a, exp, 'param')
                spec = '%s:%s' % (m, wire)
                if a in ('target', 'value') and rng.random() < 0.3:
                    spec = m
                if kind == 'change':
                    data = gen_payload(rng, dtspec)[0]
            elif t < 0.96 and cmds:
                m, a, _, _, exp = pick(cmds)
                spec = '%s:%s' % (m, guess_wire(rng, a, exp, 'command'))
                data = rng.choice(JUNK) if kind == 'change' else None
            else:
                spec = rng.choice(['zz:target', 'zz', '', None, 'm1:', ':value', 'm1:p1:x', 'm1', 'm2', 'm3:value',
                                   'm1:nosuch', 'm1:_nosuch'])
                data = rng.choice(JUNK) if kind == 'change' else None
            if kind == 'read':
                data = rng.choices([None, 0, 1, 'x', []], [0.85, 0.04, 0.04, 0.04, 0.03])[0]
        steps.append({'kind': kind, 'spec': spec, 'data': data, 'script': script, 'seed': rng.randrange(1 << 30)})
    return steps


# ----------------------------------------------------------------------------------------
# running a case on the real code, collecting observations and oracle tables
# ----------------------------------------------------------------------------------------
class Oracle:
    step = 0

    def tree_of(self, m, attr, dt):
        """datatype tree for the C01 model, None when the datatype is outside its fragment (LimitsType, StatusType, custom)"""
        from vlib import dtcodec
        key = (m, attr)
        if key not in self.trees:
            try:
                self.trees[key] = dtcodec.dt_to_tree(dt)
            except Exception:
                self.trees[key] = None
        return self.trees[key]

    def accept_row(self, m, attr, dt, payload, cur, r, kind='param'):
        """hand the row to the Lean side in the C01 encoding, so that `acceptWire` is recomputed there"""
        from vlib import dtcodec
        if self.tree_of(m, attr, dt) is None:
            self.count_outside += 1
            return
        self.count_kind[kind] = self.count_kind.get(kind, 0) + 1
        if not (dtcodec.is_json_value(payload) and dtcodec.encodable(payload) and dtcodec.encodable(cur)):
            return
        try:
            res = {'ok': dtcodec.py_to_json(r[1])} if r[0] == 'ok' else {'err': r[1]}
            self.ck.append([self.step, m, attr, dtcodec.py_to_json(payload), dtcodec.py_to_json(cur), res])
        except Exception:
            pass

    def __init__(self):
        self.trees = {}
        self.ck = []
        self.count_outside = 0
        self.count_kind = {}
        self.t = {k: {} for k in ('accept', 'reval', 'convert', 'export', 'cmdaccept', 'cmdconvert', 'cmdexport',
                                  'le', 'lt', 'split', 'chk')}

    def put(self, table, key, val):
        self.t[table][json.dumps(key)] = (key, val)

    def res(self, r):
        return ['ok', canon(r[1])] if r[0] == 'ok' else r

    def json(self):
        out = {}
        for k, d in self.t.items():
            out[k] = [list(key) + (list(val) if k == 'split' else [val]) for key, val in d.values()]
        return out


def cmp_tables(orc, values):
    """<= and < between every two of the given python values (None skipped); False when Python refuses to compare"""
    vals = [v for v in values if v is not None]
    for a in vals:
        for b in vals:
            for name, f in (('le', lambda x, y: x <= y), ('lt', lambda x, y: x < y)):
                try:
                    r = bool(f(a, b))
                except Exception:
                    r = False
                orc.put(name, [canon(a), canon(b)], r)


def param_oracle(orc, box, modobj, mycls, attr, pobj, payload, kind, raws):
    """everything the model may ask the datatype of this parameter for this request"""
    m = modobj.name
    dt = pobj.datatype
    cur = pobj.value

    def exp_safe(v):
        r = oracle_call(dt.export_value, v)
        orc.put('export', [m, attr, canon(v)], canonj(r[1]) if r[0] == 'ok' else 'EXPORT-ERROR:' + r[1])

    exp_safe(cur)
    if pobj.constant is not None:
        exp_safe(pobj.constant)
    if kind == 'change':
        r = oracle_call(lambda: datainfo_validate(dt)(dt.import_value(payload), previous=cur))
        orc.put('accept', [m, attr, canonj(payload), canon(cur)], orc.res(r))
        orc.accept_row(m, attr, dt, payload, cur, r)
        if r[0] == 'ok':
            v = r[1]
            exp_safe(v)
            if is_limits_pair(dt):
                try:
                    lo, hi = v
                    orc.put('split', [canon(v)], [canon(lo), canon(hi)])
                    cmp_tables(orc, [lo, hi])
                except Exception:
                    pass
            r2 = oracle_call(dt.validate, v)
            orc.put('reval', [m, attr, canon(v)], orc.res(r2))
            if r2[0] == 'ok':
                exp_safe(r2[1])
            for pos, b in enumerate(mycls.__mro__):
                # a programmer's hook is identified by the MRO position of the class defining it
                f = b.__dict__.get('check_' + attr)
                hid = getattr(f, '_hook_id', None)
                if hid is not None:
                    hr = hook_result(box.hooks[hid], v)
                    orc.put('chk', [m, attr, pos, canon(v)], hr if isinstance(hr, str) else ['raise'] + err_of(hr))
            lims = []
            for post in ('_limits', '_min', '_max'):
                lp = modobj.parameters.get(attr + post)
                if lp is not None:
                    if post == '_limits':
                        try:
                            lo, hi = lp.value
                            orc.put('split', [canon(lp.value)], [canon(lo), canon(hi)])
                            lims += [lo, hi]
                        except Exception:
                            pass
                    else:
                        lims.append(lp.value)
            cmp_tables(orc, [v] + lims)
        for raw in raws:
            r3 = oracle_call(dt.validate, raw)
            orc.put('reval', [m, attr, canon(raw)], orc.res(r3))
            if r3[0] == 'ok':
                exp_safe(r3[1])
    if kind == 'read':
        for raw in list(raws) + [None]:
            r4 = oracle_call(dt, raw)
            orc.put('convert', [m, attr, None if raw is None else canon(raw)], orc.res(r4))
            if r4[0] == 'ok':
                exp_safe(r4[1])


def command_oracle(orc, modobj, attr, cobj, payload, raws):
    m = modobj.name
    if cobj.argument and payload is not None:
        a = cobj.argument
        r = oracle_call(lambda: a.validate(a.import_value(payload)))
        orc.put('cmdaccept', [m, attr, canonj(payload)], orc.res(r))
        # the argument the command function gets is recomputed by the datatype model as well (no previous value)
        orc.accept_row(m, attr, a, payload, None, r, kind='cmd')
    if cobj.result:
        for raw in list(raws) + [None]:
            r = oracle_call(cobj.result, raw)
            orc.put('cmdconvert', [m, attr, None if raw is None else canon(raw)], orc.res(r))
            if r[0] == 'ok':
                e = oracle_call(cobj.result.export_value, r[1])
                orc.put('cmdexport', [m, attr, canon(r[1])], canonj(e[1]) if e[0] == 'ok' else 'EXPORT-ERROR')


def split_spec(spec):
    if not spec:
        return None, None
    if ':' in spec:
        return spec.split(':', 1)
    return spec, None


def candidates(node, modname, accname, default):
    """accessibles of the named module the request could possibly mean (a superset of what either side resolves)"""
    modobj = node.secnode.modules.get(modname)
    if modobj is None:
        return None, []
    name = accname if accname is not None else default
    res = []
    for attr, aobj in modobj.accessibles.items():
        names = {attr, '_' + attr, aobj.export if isinstance(aobj.export, str) else None}
        cls_aobj = type(modobj).__bases__[0].accessibles.get(attr)
        if cls_aobj is not None and isinstance(cls_aobj.export, str):
            names.add(cls_aobj.export)
        if name in names:
            res.append((attr, aobj))
    return modobj, res


def reply_obs(reply):
    if reply is None:
        return ['none']
    if reply[0].startswith('error_'):
        return ['error', reply[2][0]]
    if reply[0] == 'changed':
        return ['changed', canonj(reply[2][0])]
    if reply[0] == 'done':
        return ['done', None if reply[2][0] is None else canonj(reply[2][0])]
    if reply[0] == 'reply':
        return ['reply', canonj(reply[2][0])]
    return ['other', reply[0]]


def msg_obs(msg):
    action, spec, data = msg
    m, _, w = (spec or '').partition(':')
    if action == 'update':
        return ['update', m, w, canonj(data[0])]
    if action == 'error_update':
        return ['error_update', m, w, data[0]]
    return ['other', action, spec or '', '']


class Session:
    """one generated node under test: the real objects, the oracle tables, the recorded steps.  `before` / `after`
    bracket ONE request: everything the model may ask the datatypes about the state before the request is computed in
    `before`, the observation is taken in `after` (sequentially: around node.request; with several connections: inside
    the handler, i.e. inside the section in which the dispatcher serves the request)"""

    def __init__(self, nodespec):
        self.nodespec = nodespec
        self.errors = []
        try:
            self.node, self.box, self.classes = build_node(nodespec)
        except Exception as e:      # frappy refuses the class itself (ProgrammingError at class creation)
            from frappy.errors import ProgrammingError, ConfigError
            if not isinstance(e, (ProgrammingError, ConfigError)):
                raise
            self.errors = ['class creation: %r' % e]
            return
        node = self.node
        if node.errors or set(node.secnode.modules) != {ms['name'] for ms in nodespec['modules']}:
            self.errors = list(node.errors) or ['module missing']
            return
        self.conn = node.connect()            # receives the updates (activated)
        node.request(self.conn, 'activate', None, None)
        self.conn.msgs.clear()
        self.nj = node_json(node, nodespec, self.classes, self.box)
        self.orc = Oracle()
        self.out_steps = []

    def before(self, n, st):
        from frappy.params import Parameter
        node, box, orc = self.node, self.box, self.orc
        box.log = []
        box.returned = []
        box.script = {'kind': st['script'], 'n': n}
        box.rng = random.Random(st['seed'])
        orc.step = len(self.out_steps)
        before = cache_rows(node)
        self.conn.msgs.clear()
        kind, spec, data = st['kind'], st['spec'], st['data']
        # python objects needed for the oracle are those of BEFORE the request
        modname, accname = split_spec(spec)
        pre = []
        if modname is not None:
            modobj, cands = candidates(node, modname, accname, {'change': 'target', 'read': 'value', 'do': None}[kind])
            for attr, aobj in cands:
                if isinstance(aobj, Parameter):
                    pre.append((modobj, attr, aobj, aobj.value, {p: modobj.parameters[attr + p].value
                                                                 for p in ('_limits', '_min', '_max')
                                                                 if attr + p in modobj.parameters}))
                else:
                    pre.append((modobj, attr, aobj, None, None))
        # the oracle entries that depend on the state before the request must be computed before it runs
        for modobj, attr, aobj, cur, lims in pre:
            mycls, = type(modobj).__bases__
            if isinstance(aobj, Parameter) and kind in ('change', 'read'):
                param_oracle(orc, box, modobj, mycls, attr, aobj, data, kind, [])
        return {'before': before, 'pre': pre}

    def after(self, n, st, ctx, reply):
        from frappy.params import Parameter, Command
        node, box, orc = self.node, self.box, self.orc
        kind, spec, data = st['kind'], st['spec'], st['data']
        raws = list(box.returned)
        for modobj, attr, aobj, cur, lims in ctx['pre']:
            mycls, = type(modobj).__bases__
            if isinstance(aobj, Parameter) and kind in ('change', 'read'):
                dt = aobj.datatype
                for raw in raws:
                    if kind == 'change':
                        r3 = oracle_call(dt.validate, raw)
                        orc.put('reval', [modobj.name, attr, canon(raw)], orc.res(r3))
                    else:
                        r3 = oracle_call(dt, raw)
                        orc.put('convert', [modobj.name, attr, canon(raw)], orc.res(r3))
                    if r3[0] == 'ok':
                        e = oracle_call(dt.export_value, r3[1])
                        orc.put('export', [modobj.name, attr, canon(r3[1])], canonj(e[1]) if e[0] == 'ok' else 'EXPORT-ERROR')
            elif isinstance(aobj, Command) and kind == 'do':
                command_oracle(orc, modobj, attr, aobj, data, raws)
        # what the scripted driver did, as data for the model
        sk = st['script']
        if box.log and sk in ('value_valid', 'value_invalid') and raws:
            drv = ['value', canon(raws[0])]
        elif sk in ('raise_secop', 'raise_other'):
            drv = ['raise'] + err_of(_script_exc(box, st, n))
        elif sk == 'done' and kind != 'do':
            drv = 'done'
        else:
            drv = 'none'
        obs = {'reply': reply_obs(reply), 'calls': [list(c) for c in box.log],
               'emits': [msg_obs(m) for m in self.conn.msgs], 'before': ctx['before'], 'after': cache_rows(node)}
        self.conn.msgs.clear()
        wire_data = canonj(data) if kind == 'change' else (None if data is None else canonj(data)) if kind == 'do' else bool(data)
        self.out_steps.append({'req': [kind, spec if spec is not None else None, wire_data], 'drv': drv, 'obs': obs,
                               'pyclass': reply[2][1] if reply and reply[0].startswith('error_') else None})

    def close(self):
        """drop the loggers of this node from the logging registry (thousands of nodes per run)"""
        import logging
        registry = logging.Logger.manager.loggerDict
        root = self.node.root.name
        for k in [k for k in registry if k == root or k.startswith(root + '.')]:
            del registry[k]

    def record(self):
        orc = self.orc
        return {'node': self.nj, 'steps': self.out_steps, 'oracle': orc.json(), 'errors': [],
                'dtrees': [[m, a, t] for (m, a), t in orc.trees.items() if t is not None], 'acceptck': orc.ck,
                'accept_outside_model': orc.count_outside, 'accept_kinds': dict(orc.count_kind)}


def run_case(nodespec, steps):
    """-> dict(node=<json>, steps=[{req, drv, obs}], oracle=<json>, errors=[...]) ; runs the REAL code"""
    sess = Session(nodespec)
    if sess.errors:
        return {'errors': sess.errors}
    for n, st in enumerate(steps):
        if st['kind'] == 'assign':
            sess.box.log = []
            sess.box.returned = []
            sess.orc.step = n
            sess.out_steps.append(run_assign(sess.node, sess.orc, sess.conn, st, cache_rows(sess.node)))
            continue
        ctx = sess.before(n, st)
        reply = sess.node.request(sess.conn, st['kind'], st['spec'], st['data'])
        sess.after(n, st, ctx, reply)
    sess.close()
    return sess.record()


BAD_RAW = ['a much too long string, longer than any limit', float('nan'), float('inf'), -1e300, 10 ** 40, None, [1, 2, 3, 4, 5, 6, 7, 8, 9],
           {'zz': 1}, b'\x00' * 40, 'ä', -7, 2.5]


def run_assign(node, orc, conn, st, before):
    """module code assigns a parameter (`self.<attr> = raw`): not a request; the model gets the datatype's verdict on raw"""
    m, attr = st['spec'].split(':', 1)
    raw = st['data']
    modobj = node.secnode.modules.get(m)
    pobj = modobj.parameters.get(attr) if modobj is not None else None
    if pobj is not None:
        dt = pobj.datatype
        r = oracle_call(dt, raw)
        orc.put('convert', [m, attr, None if raw is None else canon(raw)], orc.res(r))
        if r[0] == 'ok':
            e = oracle_call(dt.export_value, r[1])
            orc.put('export', [m, attr, canon(r[1])], canonj(e[1]) if e[0] == 'ok' else 'EXPORT-ERROR')
        try:
            setattr(modobj, attr, raw)
        except Exception:
            pass
    obs = {'reply': ['done', None], 'calls': [], 'emits': [msg_obs(x) for x in conn.msgs], 'before': before,
           'after': cache_rows(node)}
    conn.msgs.clear()
    return {'req': ['assign', m, attr, None if raw is None else canon(raw)], 'drv': 'none', 'obs': obs, 'pyclass': None}


def gen_assign(rng, params, seed):
    """an assignment inside the module: mostly values the datatype refuses, sometimes a valid one"""
    m, a, _, dtspec, _ = rng.choice(params)
    if dtspec is not None and rng.random() < 0.35:
        try:
            raw = mk_dtype(dtspec).import_value(gen_valid(rng, dtspec))
        except Exception:
            raw = rng.choice(BAD_RAW)
    else:
        raw = rng.choice(BAD_RAW)
    return {'kind': 'assign', 'spec': '%s:%s' % (m, a), 'data': raw, 'script': 'none', 'seed': seed}


def _script_exc(box, st, n):
    """the exception the scripted driver raises at this step (same draw as drv_behave makes)"""
    from frappy.errors import HardwareError, CommunicationFailedError
    rng = random.Random(st['seed'])
    if st['script'] == 'raise_secop':
        return [HardwareError('hw %d' % n), CommunicationFailedError('comm')][rng.randrange(2)]
    return [ZeroDivisionError('division'), KeyError('k')][rng.randrange(2)]


# ----------------------------------------------------------------------------------------
# concurrent part: a change request racing a thread that moves the dynamic limit
# ----------------------------------------------------------------------------------------
class RecLock:
    """the module's accessLock with its outermost acquire / release recorded per thread"""

    def __init__(self, inner, events, tid):
        self.inner, self.events, self.tid = inner, events, tid

    def __enter__(self):
        self.inner.acquire()
        if getattr(self.inner, 'depth', 1) == 1:
            self.events.append(['acquire', self.tid()])
        return True

    def __exit__(self, *exc):
        if getattr(self.inner, 'depth', 1) == 1:
            self.events.append(['release', self.tid()])
        self.inner.release()
        return False

    acquire = __enter__

    def release(self):
        self.__exit__()


def conc_run(case, policy):
    """one schedule of: thread 1 = brings a value to write_target (once or twice), thread 2 = moves target_max (driver-side
    read of a new hardware limit / write_target_max / a change request).  Real SecNode + Dispatcher + wrappers under vlib.sched.
    Thread 1 reaches the write wrapper in every way the code offers (case['via'], per value):
      'change'  `change m:target v`  - the dispatcher validates and calls the wrapper (holding accessLock itself)
      'do'      `do m:go v`          - a command function that forwards to self.write_target(v), the usual way a command
                                       drives a module: the WRAPPER is the only guard between the request and the driver
      'direct'  module code (another module, a poller) calls write_target(v)"""
    import frappy.modulebase
    import frappy.protocol.dispatcher
    from frappy.modules import Module
    from frappy.params import Parameter, Limit, Command
    from frappy.datatypes import FloatRange
    from vlib.node import Node
    from vlib.sched import Scheduler
    s = Scheduler(policy=policy, max_steps=4000)
    events, calls, replies = [], [], []
    via = case.get('via') or ['change'] * len(case['values'])
    cur = {'how': None}      # how the value now on its way to write_target came in

    def tid():
        me = s.me()
        return {'h': 1, 'u': 2}.get(me.name[:1], 0) if me is not None else 0

    with s.patched(frappy.modulebase, threading=s.threading, time=s.time, mkthread=s.mkthread), \
            s.patched(frappy.protocol.dispatcher, threading=s.threading, currenttime=s.time):
        class CM(Module):
            enablePoll = False
            target = Parameter('setpoint', FloatRange(0, 1000), readonly=False, default=0)
            target_max = Limit()
            hw_max = float(case['max0'])

            def check_target(self, value):          # same as the automatic check, recorded
                events.append(['check', tid(), int(value)])
                self.checkLimits(value, 'target')

            def read_target_max(self):
                return self.hw_max

            def write_target_max(self, value):
                return value

            def write_target(self, value):
                events.append(['call', tid(), int(value)])
                calls.append((value, self.target_max, cur['how']))
                return value

            @Command(FloatRange(0, 1000))
            def go(self, value):
                """drive to value"""
                self.write_target(value)
        node = Node({'m': {'cls': CM, 'description': 'm', 'target_max': {'value': float(case['max0'])}}},
                    omit_unchanged_within=0)
        mo = node.modules['m']
        mo.accessLock = RecLock(mo.accessLock, events, tid)
        mo.addCallback('target_max', lambda value, *err: events.append(['move', tid(), int(value)]) if not err else None)
        c1, c2 = node.connect(), node.connect()

        def requester():
            for v, how in zip(case['values'], via):
                cur['how'] = how
                if how == 'direct':
                    try:
                        mo.write_target(float(v))
                        replies.append(['direct', 'ok'])
                    except Exception as e:
                        replies.append(['direct', type(e).__name__])
                else:
                    replies.append(reply_obs(node.request(c1, how, 'm:target' if how == 'change' else 'm:go', v)))
            s.yield_(('end',))

        def mover():
            for how, new in case['moves']:
                if how == 'read':
                    mo.hw_max = float(new)
                    try:
                        mo.read_target_max()
                    except Exception:
                        pass
                elif how == 'write':
                    try:
                        mo.write_target_max(float(new))
                    except Exception:
                        pass
                else:
                    node.request(c2, 'change', 'm:target_max', new)
            s.yield_(('end',))
        s.spawn('h1', requester)
        s.spawn('u2', mover)
        result = s.run(wall_timeout=20)
        nj = node_json(node, None, None)
    import logging
    registry = logging.Logger.manager.loggerDict
    for k in [k for k in registry if k == node.root.name or k.startswith(node.root.name + '.')]:
        del registry[k]
    return s, {'events': events, 'calls': calls, 'replies': replies, 'result': result, 'node': nj, 'via': via}


def conc_requests(case, obs):
    """driver requests for one run: the event sequence on the lock-discipline system + every driver call against the
    limits of its moment"""
    reqs = [{'p': PID, 'k': 'lockrun', 'max': int(case['max0']), 'acts': obs['events']}]
    for v, lim, _ in obs['calls']:
        nj = json.loads(json.dumps(obs['node']))
        for a in nj['modules'][0]['accs']:
            if a['attr'] == 'target_max':
                a['value'] = canon(lim)
        orc = Oracle()
        cmp_tables(orc, [v, lim])
        reqs.append({'p': PID, 'k': 'judge_call', 'node': nj, 'oracle': orc.json(), 'm': 'm', 'attr': 'target', 'v': canon(v)})
    return reqs


def gen_conc_case(rng):
    max0 = rng.choice([100, 80, 500])
    values = [rng.choice([max0 - 10, max0, max0 // 2, max0 + 5]) for _ in range(rng.choice([1, 2]))]
    moves = [[rng.choice(['read', 'read', 'write', 'change']), rng.choice([max0 // 4, max0 - 20, max0 + 100, 1])]
             for _ in range(rng.choice([1, 1, 2]))]
    via = [rng.choice(['change', 'change', 'do', 'do', 'direct']) for _ in values]
    return {'max0': max0, 'values': values, 'moves': moves, 'via': via}


def conc_verdict(obs, ans):
    """reads the Lean side's answers for one run (lockrun + one judge_call per driver call) -> None or (sig, what)"""
    for a in ans:
        if 'driver_error' in a:
            raise RuntimeError('driver error: %s' % a['driver_error'])
    for (v, lim, how), a in zip(obs['calls'], ans[1:]):
        if not a['ok']:
            came = {'change': 'a change request', 'do': 'a do request (command forwarding to write_target)',
                    'direct': 'module code calling write_target'}.get(how, how)
            return ('C04:concurrent:call-outside-current-limits:via-%s' % how,
                    f'write_target({v}) was called while target_max was {lim} (moved by another thread between check and call); '
                    f'the value came by {came}; replies {obs["replies"]}')
    if not ans[0]['ok']:
        return ('C04:concurrent:lock-discipline',
                f'the wrappers\' events are not a run of the lock-discipline system (check / call / limit move outside one '
                f'accessLock section): {obs["events"]}')
    return None


def conc_judge(ctx, case, obs):
    """-> None or (sig, what)"""
    return conc_verdict(obs, ctx.driver.batch(conc_requests(case, obs)))


def run_concurrent(ctx, res, big):
    from vlib.sched import explore
    ncases = ctx.budget(22, 140)
    seen_sigs = set()
    for _ in range(ncases):
        case = gen_conc_case(ctx.rng)
        runs, reqs = [], []
        for prefix, sched, obs in explore(lambda pol: conc_run(case, pol), max_preemptions=2, max_runs=60 if big else 30):
            if obs['result']['aborted'] not in (None,):
                raise RuntimeError(f'scheduler aborted ({obs["result"]["aborted"]}) on {case}')
            r = conc_requests(case, obs)
            runs.append((list(prefix), obs, len(r)))
            reqs += r
        answers = ctx.driver.batch(reqs)      # one driver process per case
        pos = 0
        for prefix, obs, n in runs:
            ans = answers[pos:pos + n]
            pos += n
            res.evaluations += 1
            res.traces += 1
            res.count('concurrent.schedules')
            for how in obs['via']:
                res.count('concurrent.value-came-by.' + how)
            res.count('concurrent.driver-calls', len(obs['calls']))
            if any(e[0] == 'move' for e in obs['events']) and obs['calls']:
                res.nontriv(['conc', case, prefix])
            bad = conc_verdict(obs, ans)
            if bad and bad[0] not in seen_sigs:
                # a broken discipline is reported once; the search goes on for a schedule with a call outside the limits
                seen_sigs.add(bad[0])
                res.violations.append({'sig': bad[0], 'what': bad[1],
                                       'case': {'concurrent': case, 'schedule': prefix}})


# ----------------------------------------------------------------------------------------
# concurrent part 2: change requests racing other threads that work on the SAME parameter
# (requests of other connections, the poller reading the hardware, module code writing)
# clause: "invoked ... with exactly the validated value (a partial struct merged into the current value)"
# ----------------------------------------------------------------------------------------
def gen_merge_dtspec(rng):
    """datatypes for which the value handed to the driver depends on the cached value (structs with optional members,
    also inside arrays / tuples), and a share of arbitrary others (nothing to merge: the payload alone decides)"""
    def struct():
        names = rng.sample(['a', 'b', 'c', 'dd'], rng.randint(2, 4))
        optional = [n for n in names if rng.random() < 0.75] or [names[0]]
        return ['struct', [[n, gen_dtspec(rng, depth=rng.choice([1, 2, 2]))] for n in names], optional]
    r = rng.random()
    if r < 0.6:
        return struct()
    if r < 0.72:
        lo = rng.choice([0, 1])
        return ['array', struct(), lo, lo + rng.choice([1, 2, 3])]
    if r < 0.82:
        return ['tuple', [struct(), gen_dtspec(rng, depth=2)]]
    return gen_dtspec(rng)


def gen_merge_case(rng):
    spec = gen_merge_dtspec(rng)

    def full():
        return gen_valid(rng, spec)

    def action(kinds, weights):
        k = rng.choices(kinds, weights)[0]
        if k == 'change':
            r = rng.random()
            if r < 0.75:
                return ['change', gen_valid(rng, spec, partial=True)]
            return ['change', gen_payload(rng, spec)[0]]
        return [k, full()]        # 'read': what the hardware says now; 'write': module code writes a complete value
    threads = [[action(['change'], [1]) for _ in range(rng.choice([1, 1, 2]))],
               [action(['change', 'read', 'write'], [5, 3, 2]) for _ in range(rng.choice([1, 1, 2]))]]
    if rng.random() < 0.25:
        threads.append([action(['change', 'read', 'write'], [4, 3, 3])])
    return {'dt': spec, 'init': full(), 'threads': threads, 'ret': rng.choice(['value', 'value', 'none'])}


def merge_run(case, policy):
    """one schedule of: every thread works through its actions on parameter `par` of one module — `change m:_par <payload>`
    on its own connection, `read_par()` after the hardware value changed (poller), `write_par(v)` (module code).
    Real SecNode + Dispatcher + wrappers under vlib.sched.  Recorded: the events of the change section, and for every
    driver call the payload of the request that caused it, the cached value at that moment and the value given."""
    import frappy.modulebase
    import frappy.protocol.dispatcher
    from frappy.modules import Module
    from frappy.params import Parameter
    from vlib.node import Node
    from vlib.sched import Scheduler
    s = Scheduler(policy=policy, max_steps=6000)
    events, calls, replies = [], [], []
    doing = {}          # thread -> the action it is working on

    def tid():
        me = s.me()
        return int(me.name[1:]) if me is not None else 0

    dtobj = mk_dtype(case['dt'])
    init = dtobj.import_value(case['init'])
    with s.patched(frappy.modulebase, threading=s.threading, time=s.time, mkthread=s.mkthread), \
            s.patched(frappy.protocol.dispatcher, threading=s.threading, currenttime=s.time):
        class MM(Module):
            enablePoll = False
            par = Parameter('the parameter', dtobj, readonly=False, default=init)
            hw = init

            def read_par(self):
                return self.hw

            def write_par(self, value):
                t = tid()
                kind, payload = doing.get(t, ('?', None))
                if kind == 'change':
                    events.append(['call', t])
                    calls.append((t, payload, self.par, value))
                else:
                    events.append(['direct', t])
                self.hw = value
                return value if case['ret'] == 'value' else None
        node = Node({'m': {'cls': MM, 'description': 'm'}}, omit_unchanged_within=0)
        mo = node.modules['m']
        mo.accessLock = RecLock(mo.accessLock, events, tid)
        dt = mo.parameters['par'].datatype
        plain_validate = dt.validate

        def validate(value, previous=None):
            # `validate(value, previous=<cached value>)` is the merge of the payload into the current value
            if previous is not None:
                events.append(['merge', tid(), doing.get(tid(), ('?', None))[1]])
            return plain_validate(value, previous)
        dt.validate = validate
        mo.addCallback('par', lambda value, *err: events.append(['store', tid(), value]) if not err else None)
        handle_change = node.dispatcher.handle_change

        def handler(conn, specifier, data):
            # the handler the dispatcher looks up for a `change`: from here to its end the request is being handled
            events.append(['begin', tid()])
            try:
                return handle_change(conn, specifier, data)
            finally:
                events.append(['finish', tid()])
        node.dispatcher.handle_change = handler
        start = mo.par
        conns = [node.connect() for _ in case['threads']]

        def worker(i, actions):
            for kind, data in actions:
                doing[i + 1] = (kind, data)
                if kind == 'change':
                    replies.append([i + 1, reply_obs(node.request(conns[i], 'change', 'm:_par', data))])
                else:
                    try:
                        value = dtobj.import_value(data)
                        if kind == 'read':
                            mo.hw = value
                            mo.read_par()
                        else:
                            mo.write_par(value)
                    except Exception:
                        pass
            s.yield_(('end',))
        for i, actions in enumerate(case['threads']):
            s.spawn('t%d' % (i + 1), worker, (i, actions))
        result = s.run(wall_timeout=20)
        final = mo.par
    import logging
    registry = logging.Logger.manager.loggerDict
    for k in [k for k in registry if k == node.root.name or k.startswith(node.root.name + '.')]:
        del registry[k]
    return s, {'events': events, 'calls': calls, 'replies': replies, 'result': result, 'start': start, 'final': final,
               'dtobj': dtobj}


def merge_request(case, obs):
    """the driver request for one run, None when something cannot travel to the Lean side"""
    from vlib import dtcodec
    try:
        tree = dtcodec.dt_to_tree(obs['dtobj'])
    except Exception:
        return None
    vals = [obs['start']] + [e[2] for e in obs['events'] if e[0] in ('merge', 'store')] + \
           [x for c in obs['calls'] for x in c[1:]]
    if not all(dtcodec.encodable(v) for v in vals):
        return None
    if not all(dtcodec.is_json_value(e[2]) for e in obs['events'] if e[0] == 'merge') or \
            not all(dtcodec.is_json_value(c[1]) for c in obs['calls']):
        return None
    acts = [e[:2] + [dtcodec.py_to_json(e[2])] if e[0] in ('merge', 'store') else list(e) for e in obs['events']]
    return {'p': PID, 'k': 'changerun', 'dtree': tree, 'init': dtcodec.py_to_json(obs['start']), 'acts': acts,
            'calls': [[t, dtcodec.py_to_json(p), dtcodec.py_to_json(cur), dtcodec.py_to_json(v)] for t, p, cur, v in obs['calls']]}


def merge_verdict(obs, a):
    """reads the Lean side's answer for one run -> (violation or None, disagreement or None)"""
    if 'driver_error' in a:
        raise RuntimeError('driver error: %s' % a['driver_error'])
    viol = dis = None
    for (t, payload, cur, v), ok, exp in zip(obs['calls'], a['calls'], a['expected']):
        if not ok:
            viol = ('C04:concurrent:call-not-merged-into-current-value',
                    f'change m:_par {canonj(payload)} (thread {t}): write_par was given {canon(v)} while the cached value was '
                    f'{canon(cur)}; the payload merged into that value is {json.dumps(exp)} (the driver got members of a value '
                    f'that was not current any more: a change nobody requested reaches the hardware); replies {obs["replies"]}')
            break
    if not a['ok']:
        dis = {'model': 'the events are not a run of the change-section system (two requests handled at the same time, or '
                        'merge / driver call / store outside one accessLock section)',
               'impl': {'events': [e[:2] for e in obs['events']]}}
    elif not a['same']:
        dis = {'model': 'the change-section system predicts other driver calls', 'impl': {'calls': [
            [t, canonj(p), canon(cur), canon(v)] for t, p, cur, v in obs['calls']]}}
    return viol, dis


def merge_judge(ctx, case, obs):
    """-> (violation or None, disagreement or None); everything is decided by the Lean side"""
    req = merge_request(case, obs)
    if req is None:
        return 'skip', None
    return merge_verdict(obs, ctx.driver.batch([req])[0])


def run_merging(ctx, res, big):
    from vlib.sched import explore
    ncases = ctx.budget(40, 200)
    reported = set()
    ndis = 0
    cases = []
    cdir = os.path.join(ctx.verif, 'corpus', PID)
    if os.path.isdir(cdir):
        for fn in sorted(os.listdir(cdir)):
            entry = json.load(open(os.path.join(cdir, fn)))
            if 'merging' in entry:
                cases.append(entry['merging'])
    cases += [gen_merge_case(ctx.rng) for _ in range(ncases)]
    for case in cases:
        kinds = sorted({a[0] for th in case['threads'][1:] for a in th})
        runs, reqs = [], []
        for prefix, sched, obs in explore(lambda pol: merge_run(case, pol), max_preemptions=2, max_runs=50 if big else 24):
            if obs['result']['aborted'] not in (None,):
                raise RuntimeError(f'scheduler aborted ({obs["result"]["aborted"]}) on {case}')
            req = merge_request(case, obs)
            if req is None:
                res.count('merging.not-encodable')
                break
            runs.append((list(prefix), obs))
            reqs.append(req)
        for (prefix, obs), a in zip(runs, ctx.driver.batch(reqs)):
            viol, dis = merge_verdict(obs, a)
            res.evaluations += 1
            res.traces += 1
            res.count('merging.schedules')
            res.count('merging.dt.' + case['dt'][0])
            res.count('merging.driver-calls', len(obs['calls']))
            for k in kinds:
                res.count('merging.other-thread.' + k)
            for _, r in obs['replies']:
                res.count('merging.reply.' + (r[0] if r[0] != 'error' else r[1]))
            if len(obs['calls']) >= 1 and len({e[1] for e in obs['events'] if e[0] in ('store', 'call', 'direct')}) >= 2 \
                    and obs['final'] != obs['start']:
                res.nontriv(['merge', case, prefix])
            if dis is not None and ctx.model_ok:
                ndis += 1
                if ndis <= 3:
                    res.disagreements.append(dict(dis, case={'merging': case, 'schedule': prefix}))
            if viol:
                # the signature names the kinds of the other threads of the case (a description of the input, not a verdict)
                sig = viol[0] + ':other-threads=' + '+'.join(kinds)
                if sig not in reported:
                    reported.add(sig)
                    res.violations.append({'sig': sig, 'what': viol[1], 'case': {'merging': case, 'schedule': prefix}})
            if viol:
                break


# ----------------------------------------------------------------------------------------
# concurrent part 3: a generated history served to SEVERAL connections at once
# The sequential model (one request = one atomic step, theorem `histories`) speaks about a node with several clients only
# if the dispatcher handles the requests one at a time.  Here the requests of a generated history are dealt out to 2-3
# threads (one connection each) and run under the deterministic scheduler; oracle tables and observations are taken
# inside the handler (the section in which the dispatcher serves the request).  The Lean side checks that the handler
# sections do not overlap (`OneAtATime`), runs the sequential model on the requests in the order they were served, and
# judges every exchange as in the sequential part.
# ----------------------------------------------------------------------------------------
def shared_run(case, nthreads, policy):
    import frappy.modulebase
    import frappy.protocol.dispatcher
    from vlib.node import error_class
    from vlib.sched import Scheduler
    s = Scheduler(policy=policy, max_steps=60000)
    steps = [st for st in case['steps'] if st['kind'] != 'assign']
    events = []
    current = {}

    def tid():
        me = s.me()
        return int(me.name[1:]) if me is not None else 0

    with s.patched(frappy.modulebase, threading=s.threading, time=s.time, mkthread=s.mkthread), \
            s.patched(frappy.protocol.dispatcher, threading=s.threading, currenttime=s.time):
        sess = Session(case['nodespec'])
        if sess.errors:
            return s, {'errors': sess.errors}
        disp = sess.node.dispatcher
        for action in ('change', 'do', 'read'):
            def handler(conn, specifier, data, action=action, orig=getattr(disp, 'handle_' + action)):
                t = tid()
                n, st = current[t]
                events.append(['begin', t])
                ctx = sess.before(n, st)
                try:
                    reply = orig(conn, specifier, data)
                except Exception as e:
                    sess.after(n, st, ctx, ('error_' + action, specifier, [error_class(e), type(e).__name__, {}]))
                    events.append(['finish', t])
                    raise
                sess.after(n, st, ctx, reply)
                events.append(['finish', t])
                return reply
            setattr(disp, 'handle_' + action, handler)
        conns = [sess.node.connect() for _ in range(nthreads)]

        def worker(i):
            for n, st in enumerate(steps):
                if n % nthreads != i:
                    continue
                current[i + 1] = (n, st)
                sess.node.request(conns[i], st['kind'], st['spec'], st['data'])
            s.yield_(('end',))
        for i in range(nthreads):
            s.spawn('t%d' % (i + 1), worker, (i,))
        result = s.run(wall_timeout=60)
        rec = sess.record()
    import logging
    registry = logging.Logger.manager.loggerDict
    for k in [k for k in registry if k == sess.node.root.name or k.startswith(sess.node.root.name + '.')]:
        del registry[k]
    rec['events'] = events
    rec['result'] = result
    rec['nsteps'] = len(steps)
    return s, rec


def shared_requests(ctx, rec):
    return [{'p': PID, 'k': 'serial', 'acts': rec['events']}] + model_and_judge(ctx, rec)


def run_shared(ctx, res, big):
    from vlib.sched import RandomPolicy
    ncases = ctx.budget(60, 300)
    reported = set()
    ndis = [0]

    def evaluate(ref, rec, serial, model, judge):
        for a in (serial, model, judge):
            if 'driver_error' in a:
                raise RuntimeError(f'driver error: {a["driver_error"]} (shared case {ref})')
        res.evaluations += len(rec['steps'])
        res.traces += len(rec['steps'])
        res.count('shared.histories')
        res.count('shared.requests', len(rec['steps']))
        res.count('shared.threads.%d' % ref['shared']['threads'])
        res.count('shared.switches', sum(1 for i in range(1, len(rec['events'])) if rec['events'][i][1] != rec['events'][i - 1][1]))
        if not serial['ok']:
            # the sequential model does not describe this run; nothing is judged on it
            ndis[0] += 1
            if ctx.model_ok and ndis[0] <= 3:
                res.disagreements.append({'case': ref, 'model': 'requests are handled one at a time',
                                          'impl': {'handler sections': rec['events'][:40]}})
            return
        if any(st['obs']['calls'] for st in rec['steps']) and len({e[1] for e in rec['events']}) > 1:
            res.nontriv(['shared', ref['shared'], ref['pseed']])
        if ctx.model_ok:
            d = compare(model, rec)
            if d is not None:
                ndis[0] += 1
                if ndis[0] <= 3:
                    res.disagreements.append({'case': dict(ref, step=d['step']), 'model': {d['field']: d['model']},
                                              'impl': {d['field']: d['impl'], 'req': d['req'], 'pyclass': d['pyclass']}})
        if judge['bad'] is not None:
            idx, why = judge['bad']
            sig = sig_of(rec, idx, why) + ':several-connections'
            if sig not in reported:
                reported.add(sig)
                st = rec['steps'][idx]
                res.violations.append({
                    'sig': sig,
                    'what': f'(several connections) request {st["req"]} answered {st["obs"]["reply"]} with driver calls '
                            f'{st["obs"]["calls"]}; the specification says: {why}',
                    'case': ref, 'detail': {'step': idx, 'obs': {k: st['obs'][k] for k in ('reply', 'calls', 'emits')}}})

    CHUNK = 50
    for start in range(0, ncases, CHUNK):
        runs, reqs = [], []
        for _ in range(start, min(ncases, start + CHUNK)):
            seed = ctx.rng.randrange(1 << 40)
            case = gen_case(seed, big)
            nthreads = ctx.rng.choice([2, 2, 3])
            pseed = ctx.rng.randrange(1 << 30)
            s, rec = shared_run(case, nthreads, RandomPolicy(random.Random(pseed), preempt_prob=0.5))
            if rec['errors']:
                res.count('shared.node-rejected-by-frappy')
                continue
            if rec['result']['aborted'] not in (None,):
                raise RuntimeError(f'scheduler aborted ({rec["result"]["aborted"]}) on shared case {seed}')
            if len(rec['steps']) != rec['nsteps']:
                raise RuntimeError(f'shared case {seed}: {len(rec["steps"])} of {rec["nsteps"]} requests reached a handler')
            ref = {'shared': {'seed': seed, 'big': big, 'threads': nthreads}, 'schedule': [c for _, c, _ in s.choices],
                   'pseed': pseed}
            runs.append((ref, rec))
            reqs += shared_requests(ctx, rec)
        answers = ctx.driver.batch(reqs)
        for j, (ref, rec) in enumerate(runs):
            evaluate(ref, rec, answers[3 * j], answers[3 * j + 1], answers[3 * j + 2])


# ----------------------------------------------------------------------------------------
# the same histories THROUGH THE REAL REQUEST LOOP (frappy/protocol/interface/handler.py + tcp.py): request lines in,
# reply lines out.  "the client receives an error report of the fitting class": the class the client sees is made by
# RequestHandler.handle from the exception (error_<action> <specifier> [<SECoP class name>, text, {}]); in the other
# streams vlib.node.Node.request stands in for that code.
# ----------------------------------------------------------------------------------------
class WireSock:
    """scripted socket: everything the client sends, in chunks; what the node sends back is collected"""

    def __init__(self, chunks):
        self.chunks = list(chunks)
        self.out = []

    def settimeout(self, t):
        pass

    def recv(self, n):
        return self.chunks.pop(0) if self.chunks else b''

    def sendall(self, b):
        self.out.append(bytes(b))

    def shutdown(self, how):
        pass

    def close(self):
        pass


class WireLog:
    def __init__(self):
        self.errors = []

    def error(self, *a):
        self.errors.append(a)

    exception = error

    def info(self, *a):
        pass

    debug = warning = info


class WireServer:
    def __init__(self, dispatcher):
        self.dispatcher = dispatcher
        self.log = WireLog()
        self.detailed_errors = False


def wire_expressible(st):
    """can the request be written as one SECoP line that reaches the same handler with the same arguments?"""
    spec = st['spec']
    if st['kind'] == 'assign' or not spec or spec != spec.strip() or ' ' in spec or '\n' in spec:
        return False
    try:
        return json.loads(json.dumps(st['data'])) == st['data'] and 'UNSERIALISABLE' not in canonj(st['data'])
    except Exception:
        return False


def wire_run(case, chunking):
    """the history of `case` (requests expressible as a line) sent as ONE byte stream to a real TCPRequestHandler"""
    import contextlib
    import io
    import frappy.protocol.interface.handler as fh
    from frappy.protocol.interface.tcp import TCPRequestHandler
    from frappy.protocol.interface import encode_msg_frame, decode_msg
    from vlib.node import error_class
    steps = [st for st in case['steps'] if wire_expressible(st)]
    sess = Session(case['nodespec'])
    if sess.errors:
        return {'errors': sess.errors}
    disp = sess.node.dispatcher
    served = []
    for action in ('change', 'do', 'read'):
        def handler(conn, specifier, data, action=action, orig=getattr(disp, 'handle_' + action)):
            n = len(served)
            st = steps[n]
            served.append(n)
            ctx = sess.before(n, st)
            try:
                reply = orig(conn, specifier, data)
            except Exception as e:
                sess.after(n, st, ctx, ('error_' + action, specifier, [error_class(e), type(e).__name__, {}]))
                raise
            sess.after(n, st, ctx, reply)
            return reply
        setattr(disp, 'handle_' + action, handler)
    stream = b''.join(encode_msg_frame(st['kind'], st['spec'], st['data']) for st in steps)
    rng = random.Random(chunking)
    chunks = []
    while stream:
        k = rng.choice([1, 7, 64, 4096, len(stream)])
        chunks.append(stream[:k])
        stream = stream[k:]
    sock = WireSock(chunks)
    srv = WireServer(disp)
    saved = fh.formatExtendedStack, fh.formatExtendedTraceback
    fh.formatExtendedStack = fh.formatExtendedTraceback = lambda *a, **k: ''     # the dumps are not observed
    try:
        with contextlib.redirect_stdout(io.StringIO()):
            TCPRequestHandler(sock, ('127.0.0.1', 4711), srv)
    finally:
        fh.formatExtendedStack, fh.formatExtendedTraceback = saved
    sess.close()
    lines = [l for l in b''.join(sock.out).split(b'\n') if l]
    rec = sess.record()
    rec['nsteps'] = len(steps)
    rec['nlines'] = len(lines)
    rec['died'] = [str(e)[:300] for e in srv.log.errors][:2]
    if len(lines) == len(steps) == len(rec['steps']):
        for st, line in zip(rec['steps'], lines):
            # what the CLIENT gets: the reply line made by the request loop
            st['obs']['reply'] = reply_obs(decode_msg(line))
    return rec


def run_wire(ctx, res, big):
    ncases = ctx.budget(60, 400)
    reported = set()
    ndis = [0]

    def evaluate(ref, rec, model, judge):
        for a in (model, judge):
            if 'driver_error' in a:
                raise RuntimeError(f'driver error: {a["driver_error"]} (wire case {ref})')
        res.evaluations += len(rec['steps'])
        res.traces += len(rec['steps'])
        res.count('wire.histories')
        res.count('wire.requests', len(rec['steps']))
        for st in rec['steps']:
            res.count('wire.' + classify(st))
        if any(st['obs']['calls'] for st in rec['steps']) and any(st['obs']['reply'][0] == 'error' for st in rec['steps']):
            res.nontriv(['wire', ref['wire']])
        if ctx.model_ok:
            d = compare(model, rec)
            if d is not None:
                ndis[0] += 1
                if ndis[0] <= 3:
                    res.disagreements.append({'case': dict(ref, step=d['step']), 'model': {d['field']: d['model']},
                                              'impl': {d['field']: d['impl'], 'req': d['req']}})
        if judge['bad'] is not None:
            idx, why = judge['bad']
            sig = sig_of(rec, idx, why) + ':request-loop'
            if sig not in reported:
                reported.add(sig)
                st = rec['steps'][idx]
                res.violations.append({
                    'sig': sig,
                    'what': f'(through the request loop) request line {st["req"]} answered {st["obs"]["reply"]} with driver '
                            f'calls {st["obs"]["calls"]}; the specification says: {why}',
                    'case': ref, 'detail': {'step': idx, 'obs': {k: st['obs'][k] for k in ('reply', 'calls', 'emits')}}})

    CHUNK = 50
    for start in range(0, ncases, CHUNK):
        runs, reqs = [], []
        for _ in range(start, min(ncases, start + CHUNK)):
            seed = ctx.rng.randrange(1 << 40)
            chunking = ctx.rng.randrange(1 << 30)
            rec = wire_run(gen_case(seed, big), chunking)
            if rec['errors']:
                res.count('wire.node-rejected-by-frappy')
                continue
            ref = {'wire': {'seed': seed, 'big': big, 'chunking': chunking}}
            if not (rec['nlines'] == rec['nsteps'] == len(rec['steps'])):
                # not one reply line per request line: C07's subject; here the history cannot be aligned
                res.disagreements.append({'case': ref, 'model': f'{rec["nsteps"]} requests, one reply line each',
                                          'impl': {'handled': len(rec['steps']), 'lines': rec['nlines'], 'log': rec['died']}})
                continue
            runs.append((ref, rec))
            reqs += model_and_judge(ctx, rec)
        answers = ctx.driver.batch(reqs)
        for j, (ref, rec) in enumerate(runs):
            evaluate(ref, rec, answers[2 * j], answers[2 * j + 1])


# ----------------------------------------------------------------------------------------
# write paths that forward: parameters generated by helper classes (model Node/Forward.lean)
#   StructParam, struct layout   change of a MEMBER -> generated write_<member> -> write_<struct> (driver)
#   StructParam, member layout   change of the STRUCT -> generated write_<struct> -> write_<member> (drivers), one by one
#   FloatEnumParam               change of the float -> generated write_<name> -> write_<name>_idx (driver or none)
# with check_ hooks and Limit parameters on every parameter of the path, and histories that move the limits
# ----------------------------------------------------------------------------------------
FSEP, KVSEP = '\x02', '\x03'
FWD_LABELS = [(['1V', '10V', '100V'], 'V'), (['500uV', '20mV', '1V'], 'V'), (['1mA', '3mA', '10mA', '30mA'], 'A'),
              ([(2, '5K', 5.0), (5, '50K', 50.0), '500K'], 'K')]
FWD_SCRIPTS = [('echo', 76), ('raise_secop', 9), ('raise_other', 7), ('value_invalid', 8)]
FWD_LAYOUT = {'A': 'struct-layout', 'B': 'member-layout', 'F': 'float-enum'}


def fcanon(v):
    """canon, except that a struct value is written `d<2>key<3>value<2>key<3>value` (keys sorted) so that the Lean side
    can take a member out / put one in itself"""
    if isinstance(v, dict):
        return FSEP.join(['d'] + ['%s%s%s' % (k, KVSEP, canon(x)) for k, x in sorted(v.items())])
    return canon(v)


def fres(r):
    return ['ok', fcanon(r[1])] if r[0] == 'ok' else r


def fwd_names(case):
    """-> (attribute of the helper parameter, {member key: attribute} | None, index attribute | None)"""
    if case['kind'] == 'F':
        return case['name'], None, case['name'] + '_idx'
    return case['name'], {k: case['prefix'] + k for k, _ in case['members']}, None


def fwd_bodies(case):
    """what the class has under write_<attr>, as the helper classes document it (rows for the model)"""
    name, members, idx = fwd_names(case)
    if case['kind'] == 'A':
        rows = [[name, 'driver']] + [[a, ['toStruct', name, k]] for k, a in members.items()]
    elif case['kind'] == 'B':
        rows = [[name, ['toMembers', [[k, a] for k, a in members.items()]]]] + [[a, 'driver'] for a in members.values()]
    else:
        rows = [[name, ['toIndex', idx]]] + ([[idx, 'driver']] if case['idx_write'] else [])
    return [['m1'] + r for r in rows]


def gen_fwd_case(seed):
    rng = random.Random(seed)
    kind = rng.choice(['A', 'A', 'A', 'B', 'B', 'F'])
    nlayers = rng.randint(2, 3)
    layers = [{'params': [], 'hooks': [], 'commands': []} for _ in range(nlayers)]
    case = {'seed': seed, 'kind': kind, 'name': rng.choice(['ctrl', 'pars', 'vr']), 'layers': layers, 'cfg': {}}
    numeric = {}         # attr -> dtspec of the parameters that can carry limits
    if kind == 'F':
        case['labels'], case['unit'] = rng.choice(FWD_LABELS)
        case['idx_write'] = rng.random() < 0.7
        from frappy.extparams import FloatEnumParam
        vd = FloatEnumParam('x', [tuple(e) if isinstance(e, list) else e for e in case['labels']], case['unit']).valuedict
        numeric[case['name']] = ['floatr', min(vd.values()), max(vd.values())]
        case['indices'] = sorted(vd)
        targets = [case['name'], case['name'] + '_idx']
    else:
        keys = rng.sample(['p', 'i', 'd', 'x'], rng.randint(2, 3))
        case['prefix'] = rng.choice(['pid_', 'c_', ''])
        case['members'] = [[k, gen_dtspec(rng, numeric=True) if rng.random() < 0.8 else gen_dtspec(rng, depth=2)] for k in keys]
        for k, dts in case['members']:
            if dts[0] in ('floatr', 'intr', 'float', 'scaled', 'int'):
                numeric[case['prefix'] + k] = dts
        targets = [case['name']] + [case['prefix'] + k for k in keys]
    # limits: declared by a derived class (frappy refuses a Limit of a member in the class that creates the member)
    for attr, dts in sorted(numeric.items()):
        if rng.random() < 0.6:
            for post in rng.choice([['max'], ['min'], ['min', 'max'], ['limits'], ['limits', 'max']]):
                layers[rng.randrange(1, nlayers)]['params'].append(
                    {'attr': attr + '_' + post, 'limit': attr, 'export': True, 'readonly': False})
                lo, hi = fwd_bounds(rng, dts)
                case['cfg'][attr + '_' + post] = {'value': [lo, hi] if post == 'limits' else lo if post == 'min' else hi}
    case['numeric'] = numeric
    for attr in targets:
        for _ in range(rng.choice([0, 1, 1, 1, 2])):
            layers[rng.randrange(nlayers)]['hooks'].append(
                {'attr': attr, 'kind': rng.choice(['range_some', 'range_some', 'range_some', 'pass', 'stop_some', 'hw_some', 'crash_some'])})
    for lay in layers:       # one check_<attr> per class
        seen = set()
        lay['hooks'] = [h for h in lay['hooks'] if not (h['attr'] in seen or seen.add(h['attr']))]
    case['steps'] = gen_fwd_steps(rng, case, rng.randint(20, 36))
    return case


def fwd_bounds(rng, dts):
    """two values of the datatype, the lower first (where the limits of a numeric parameter start)"""
    if dts[0] in ('floatr', 'intr'):
        lo, hi = dts[1], dts[2]
    elif dts[0] == 'scaled':
        lo, hi = dts[2], dts[3]
    else:
        lo, hi = -100, 1000
    a, b = sorted([lo + (hi - lo) * rng.choice([0, 0.1, 0.25, 0.5]), lo + (hi - lo) * rng.choice([0.5, 0.75, 0.9, 1])])
    if dts[0] in ('intr', 'int'):
        a, b = int(a), int(b)
    return a, b


def gen_fwd_steps(rng, case, nsteps):
    name, members, idx = fwd_names(case)
    numeric = case['numeric']
    limits = [p['attr'] for lay in case['layers'] for p in lay['params']]
    steps = []

    def near(attr, dts):
        """a payload for a numeric parameter: anything the datatype generator gives, or something around its limits"""
        lims = [case['cfg'][attr + '_' + post]['value'] for post in ('min', 'max', 'limits') if attr + '_' + post in case['cfg']]
        flat = [x for l in lims for x in (l if isinstance(l, list) else [l])]
        if flat and rng.random() < 0.5:
            b = rng.choice(flat)
            return rng.choice([b, b + 1, b - 1, b + 0.5, b - 0.25]) if dts[0] not in ('intr', 'int') else rng.choice([b, b + 1, b - 1])
        return gen_payload(rng, dts)[0]

    for _ in range(nsteps):
        r = rng.random()
        script = rng.choices([k for k, _ in FWD_SCRIPTS], [w for _, w in FWD_SCRIPTS])[0]
        if r < 0.08:
            attr = rng.choice([name] + list((members or {idx: idx}).values()))
            steps.append({'kind': 'read', 'spec': 'm1:_' + attr, 'data': None, 'script': script, 'via': 'read'})
        elif r < 0.25 and limits:
            attr = rng.choice(limits)
            dts = numeric[attr.rpartition('_')[0]]
            if attr.endswith('_limits'):
                a, b = fwd_bounds(rng, dts)
                data = rng.choice([[a, b], [a, b], [b, a], [a], 'x'])
            else:
                data = rng.choice([fwd_bounds(rng, dts)[rng.randrange(2)], gen_payload(rng, dts)[0]])
            steps.append({'kind': 'change', 'spec': 'm1:_' + attr, 'data': data, 'script': script, 'via': 'limit'})
        elif case['kind'] == 'F':
            if rng.random() < 0.65:
                dts = numeric[name]
                data = rng.choice([near(name, dts), dts[1] + (dts[2] - dts[1]) * rng.random() ** 3])
                steps.append({'kind': 'change', 'spec': 'm1:_' + name, 'data': data, 'script': script, 'via': 'float'})
            else:
                data = rng.choice(case['indices'] + case['indices'] + [99, 'nope', None, 1.5])
                steps.append({'kind': 'change', 'spec': 'm1:_' + idx, 'data': data, 'script': script, 'via': 'index'})
        elif rng.random() < (0.6 if case['kind'] == 'A' else 0.35):
            k, dts = rng.choice(case['members'])
            attr = members[k]
            data = near(attr, dts) if attr in numeric else gen_payload(rng, dts)[0]
            steps.append({'kind': 'change', 'spec': 'm1:_' + attr, 'data': data, 'script': script, 'via': 'member'})
        else:
            data = {k: (near(members[k], dts) if members[k] in numeric and rng.random() < 0.7 else gen_valid(rng, dts))
                    for k, dts in case['members']}
            c = rng.random()
            if c < 0.3:           # partial struct: merged into the current value
                for k in rng.sample(sorted(data), rng.randint(1, len(data) - 1)):
                    del data[k]
            elif c < 0.4:
                data = gen_payload(rng, ['struct', case['members'], []])[0]
            steps.append({'kind': 'change', 'spec': 'm1:_' + name, 'data': data, 'script': script, 'via': 'struct'})
    return steps


def fwd_behave(box, modobj, attr, what, value):
    """scripted driver of run_forward: a piece of hardware that keeps what it was given ('echo'), or fails"""
    from frappy.errors import HardwareError
    kind = box.script['kind']
    if kind == 'raise_secop':
        raise HardwareError('hw')
    if kind == 'raise_other':
        raise ZeroDivisionError('division')
    if kind == 'value_invalid':
        return 'junk'
    if what == 'write':
        box.hw[attr] = value
        return None
    return box.hw[attr] if attr in box.hw else getattr(modobj, attr)


def build_fwd_node(case):
    """-> (Node, Box, module class); the class bodies come from the plain-data case"""
    import frappy.modules as fm
    from frappy.params import Parameter
    from frappy.extparams import StructParam, FloatEnumParam
    from vlib.node import Node
    box = Box()
    box.hw = {}
    _clscount[0] += 1
    name, members, idx = fwd_names(case)
    extra, drivers, known = {}, [], {}
    if case['kind'] == 'F':
        extra[name] = FloatEnumParam('float enum', [tuple(e) if isinstance(e, list) else e for e in case['labels']], case['unit'])
        drivers = [(idx, 'write')] if case['idx_write'] else []
    else:
        extra[name] = StructParam('struct', {k: Parameter('member ' + k, mk_dtype(dts)) for k, dts in case['members']},
                                  case['prefix'], readonly=False)
        drivers = [(name, 'read'), (name, 'write')] if case['kind'] == 'A' else \
            [(a, w) for a in members.values() for w in ('read', 'write')]
    known.update(case['numeric'])
    for attr, what in drivers:
        if what == 'write':
            def f(self, value, attr=attr):
                box.log.append(['write', self.name, attr, fcanon(value)])
                return fwd_behave(box, self, attr, 'write', value)
        else:
            def f(self, attr=attr):
                box.log.append(['read', self.name, attr])
                return fwd_behave(box, self, attr, 'read', None)
        f.__name__ = what + '_' + attr
        extra[f.__name__] = f
    cls = None
    for i, layer in enumerate(case['layers']):
        cname = 'Fwd%s%d' % (chr(ord('A') + i), _clscount[0])
        cls = mk_layer_class(box, cname, (fm.Module,) if cls is None else (cls,), layer, known, extra=extra if i == 0 else None)
        box.layerspec[cls] = layer
    cfg = {'m1': dict({'cls': cls, 'description': 'generated module'},
                      **{a: {'value': tuple(v['value']) if isinstance(v['value'], list) else v['value']} for a, v in case['cfg'].items()})}
    return Node(cfg, omit_unchanged_within=0), box, cls


def fwd_cache_rows(node):
    return [[m, attr, fcanon(pobj.value), None if pobj.readerror is None else pobj.readerror.name]
            for m, modobj in node.secnode.modules.items() for attr, pobj in modobj.parameters.items()]


def fwd_visit(orc, box, case, modobj, mycls, attr, v, depth=0):
    """oracle rows for parameter `attr` being given `v` by a write wrapper, and for whoever its generated write function
    hands the value on to (the REAL datatype / hook / comparison results; the structure itself is decided by the model)"""
    m = modobj.name
    pobj = modobj.parameters.get(attr)
    if pobj is None or depth > 4:
        return
    dt = pobj.datatype
    r2 = oracle_call(dt.validate, v)
    orc.put('reval', [m, attr, fcanon(v)], fres(r2))
    orc.put('reval', [m, attr, canon('junk')], fres(oracle_call(dt.validate, 'junk')))
    for pos, b in enumerate(mycls.__mro__):
        hid = getattr(b.__dict__.get('check_' + attr), '_hook_id', None)
        if hid is not None:
            hr = hook_result(box.hooks[hid], v)
            orc.put('chk', [m, attr, pos, fcanon(v)], hr if isinstance(hr, str) else ['raise'] + err_of(hr))
    lims = []
    for post in ('_limits', '_min', '_max'):
        lp = modobj.parameters.get(attr + post)
        if lp is not None and post == '_limits':
            try:
                lo, hi = lp.value
                orc.put('split', [canon(lp.value)], [canon(lo), canon(hi)])
                lims += [lo, hi]
            except Exception:
                pass
        elif lp is not None:
            lims.append(lp.value)
    if lims:
        cmp_tables(orc, [v] + lims)
    if r2[0] != 'ok':
        return
    w = r2[1]
    name, members, idx = fwd_names(case)
    if case['kind'] == 'A' and attr in members.values():
        key = [k for k, a in members.items() if a == attr][0]
        merged = dict(modobj.parameters[name].value)
        merged[key] = w
        fwd_visit(orc, box, case, modobj, mycls, name, merged, depth + 1)
    elif case['kind'] == 'B' and attr == name:
        for k, a in members.items():
            if k in w:
                fwd_visit(orc, box, case, modobj, mycls, a, w[k], depth + 1)
    elif case['kind'] == 'F' and attr == name:
        vd = pobj.valuedict
        closest = min(vd, key=lambda i: abs(vd[i] - w))    # trusted here: C18 proves that the generated function picks it
        orc.put('closest', [m, attr, fcanon(w)], fcanon(closest))
        fwd_visit(orc, box, case, modobj, mycls, idx, closest, depth + 1)


def fwd_run(case, keep=None):
    """run the REAL code -> record for the Lean side"""
    from frappy.errors import ProgrammingError, ConfigError
    from frappy.params import Parameter
    try:
        node, box, mycls = build_fwd_node(case)
    except (ProgrammingError, ConfigError) as e:
        return {'errors': ['class creation: %r' % e]}
    if node.errors or 'm1' not in node.secnode.modules:
        return {'errors': list(node.errors) or ['module missing']}
    modobj = node.secnode.modules['m1']
    conn = node.connect()
    node.request(conn, 'activate', None, None)
    nodespec = {'modules': [{'name': 'm1', 'base': 'Module', 'layers': case['layers'], 'cfg': case['cfg'], 'exported': True}]}
    nj = node_json(node, nodespec, {'m1': mycls}, box)
    for a in nj['modules'][0]['accs']:
        if a['kind'] == 'param':
            a['value'] = fcanon(modobj.parameters[a['attr']].value)
    orc = Oracle()
    orc.t['closest'] = {}
    steps = case['steps'] if keep is None else [case['steps'][i] for i in keep]
    out = []
    for st in steps:
        box.log = []
        box.script = {'kind': st['script']}
        before = fwd_cache_rows(node)
        if st['kind'] == 'change':
            _, cands = candidates(node, 'm1', st['spec'].split(':', 1)[1], 'target')
            for attr, pobj in cands:
                if isinstance(pobj, Parameter):
                    dt, cur = pobj.datatype, pobj.value
                    r = oracle_call(lambda: datainfo_validate(dt)(dt.import_value(st['data']), previous=cur))
                    orc.put('accept', [modobj.name, attr, canonj(st['data']), fcanon(cur)], fres(r))
                    if r[0] == 'ok':
                        if is_limits_pair(dt):
                            try:
                                lo, hi = r[1]
                                orc.put('split', [canon(r[1])], [canon(lo), canon(hi)])
                                cmp_tables(orc, [lo, hi])
                            except Exception:
                                pass
                        fwd_visit(orc, box, case, modobj, mycls, attr, r[1])
        conn.msgs.clear()
        reply = node.request(conn, st['kind'], st['spec'], st['data'])
        sk = st['script']
        drv = ['raise'] + err_of(_fwd_exc(sk)) if sk.startswith('raise') else ['value', canon('junk')] if sk == 'value_invalid' else 'none'
        obs = {'reply': reply_obs(reply), 'calls': [list(c) for c in box.log], 'emits': [msg_obs(x) for x in conn.msgs],
               'before': before, 'after': fwd_cache_rows(node)}
        out.append({'req': [st['kind'], st['spec'], canonj(st['data']) if st['kind'] == 'change' else False], 'drv': drv,
                    'obs': obs, 'via': st['via'], 'pyclass': reply[2][1] if reply and reply[0].startswith('error_') else None})
    registry = logging.Logger.manager.loggerDict
    for k in [k for k in registry if k == node.root.name or k.startswith(node.root.name + '.')]:
        del registry[k]
    return {'errors': [], 'node': nj, 'steps': out, 'oracle': orc.json(), 'bodies': fwd_bodies(case)}


def _fwd_exc(sk):
    from frappy.errors import HardwareError
    return HardwareError('hw') if sk == 'raise_secop' else ZeroDivisionError('division')


def fwd_requests(rec):
    base = {'p': PID, 'node': rec['node'], 'oracle': rec['oracle'], 'bodies': rec['bodies']}
    return [dict(base, k='fwd', steps=[{'req': s['req'], 'drv': s['drv'], 'obs': s['obs']} for s in rec['steps']]),
            dict(base, k='judge_fwd', steps=[{'req': s['req'], 'obs': s['obs']} for s in rec['steps']])]


def fwd_compare(model, rec):
    """first request for which the model of the write path and the implementation differ: the calls of driver-written write
    methods, and the error class where the model ends with one (after the driver calls the model does not go on: read back
    and call-backs are C18's)"""
    for i, (mo, st) in enumerate(zip(model['outs'], rec['steps'])):
        if mo is None:
            continue
        writes = [c for c in st['obs']['calls'] if c[0] == 'write']
        if mo['exhausted']:
            return {'step': i, 'field': 'depth', 'model': 'recursion bound hit', 'impl': writes, 'req': st['req']}
        if mo['calls'] != writes:
            return {'step': i, 'field': 'calls', 'model': mo['calls'], 'impl': writes, 'req': st['req']}
        if mo['err'] is not None and st['obs']['reply'] != ['error', mo['err']]:
            return {'step': i, 'field': 'reply', 'model': ['error', mo['err']], 'impl': st['obs']['reply'], 'req': st['req']}
    return None


def fwd_sig(case, rec, idx, why, where=None):
    """label of a violation (the verdict is the monitor's): layout, how the request came in, what was observed, what the
    specification wanted.  Two shapes get a name of their own (known_findings): the refusal itself is the fitting one, but
    (a) only the driver-written write methods that come BEFORE the objecting parameter on the path were called, or
    (b) no driver was called, yet the struct and its members were announced again"""
    st = rec['steps'][idx]
    obs = st['obs']
    writes = [c for c in obs['calls'] if c[0] == 'write']
    called = 'call' if writes else 'nocall'
    rep = obs['reply'][0] if obs['reply'][0] != 'error' else obs['reply'][1]
    want = 'allow' if why.startswith('allow') else 'refuse:' + why.split(' ')[1]
    head = 'C04:forward:%s:via-%s:' % (FWD_LAYOUT[case['kind']], st['via'])
    if want.startswith('refuse') and obs['reply'][0] == 'error' and where and writes and len(writes) <= where[1]:
        return head + 'parameters-before-the-objecting-one-were-written'
    name, members, _ = fwd_names(case)
    if want == 'refuse:' + rep and not obs['calls'] and obs['emits'] and members and all(
            e[0] == 'update' and e[2] in ['_' + name] + ['_' + a for a in members.values()] for e in obs['emits']):
        return head + 'refused-but-struct-and-members-announced-again'
    return head + '%s:%s:want-%s' % (called, rep, want)


def run_forward(ctx, res, big):
    ncases = ctx.budget(150, 1500)
    reported = set()
    ndis = [0]
    shrunk = [0]
    CHUNK = 50
    for start in range(0, ncases, CHUNK):
        runs, reqs = [], []
        for _ in range(start, min(ncases, start + CHUNK)):
            seed = ctx.rng.randrange(1 << 40)
            case = gen_fwd_case(seed)
            rec = fwd_run(case)
            if rec['errors']:
                res.count('forward.node-rejected-by-frappy')
                if len(res.notes) < 3:
                    res.notes.append('forward: generated class rejected by frappy: %s' % rec['errors'][:2])
                continue
            runs.append((case, rec))
            reqs += fwd_requests(rec)
        answers = ctx.driver.batch(reqs)
        for j, (case, rec) in enumerate(runs):
            model, judge = answers[2 * j], answers[2 * j + 1]
            for a in (model, judge):
                if 'driver_error' in a:
                    raise RuntimeError(f'driver error: {a["driver_error"]} (forward case {case["seed"]})')
            lay = FWD_LAYOUT[case['kind']]
            res.evaluations += len(rec['steps'])
            res.traces += len(rec['steps'])
            res.count('forward.cases.' + lay)
            kinds = set()
            for st, mo in zip(rec['steps'], model['outs']):
                c = 'forward.%s.via-%s.%s' % (lay, st['via'], classify(st).split('.', 1)[1])
                res.count(c)
                writes = [x for x in st['obs']['calls'] if x[0] == 'write']
                if writes and st['via'] in ('member', 'float', 'struct'):
                    res.count('forward.%s.via-%s.driver-written-write-called' % (lay, st['via']), len(writes))
                    kinds.add('called')
                if st['obs']['reply'][0] == 'error' and not writes and st['via'] in ('member', 'float', 'struct'):
                    kinds.add('refused')
            res.count('forward.oracle.hook-results.raise', sum(1 for r in rec['oracle']['chk'] if isinstance(r[-1], list)))
            res.count('forward.oracle.limit-comparisons', len(rec['oracle']['le']))
            if kinds == {'called', 'refused'} and (rec['oracle']['chk'] or rec['oracle']['le']):
                res.nontriv(['forward', case['seed']])
            if model.get('wf') is False:
                res.count('forward.node.NOT-well-formed')
            if ctx.model_ok:
                d = fwd_compare(model, rec)
                if d is not None:
                    ndis[0] += 1
                    if ndis[0] <= 3:
                        res.disagreements.append({'case': {'forward': {'seed': case['seed']}, 'step': d['step']},
                                                  'model': {d['field']: d['model']}, 'impl': {d['field']: d['impl'], 'req': d['req']}})
            if judge['bad'] is not None:
                idx, why, where = judge['bad']
                sig = fwd_sig(case, rec, idx, why, where)
                if sig in reported:
                    continue
                reported.add(sig)
                keep = list(range(idx + 1))
                if shrunk[0] < 3:
                    shrunk[0] += 1

                    def fails(sub, case=case, sig=sig):
                        r = fwd_run(case, sub)
                        if r['errors']:
                            return False
                        a = ctx.driver.batch([fwd_requests(r)[1]])[0]
                        return a.get('bad') is not None and fwd_sig(case, r, *a['bad']) == sig
                    keep = ddmin(keep, fails, max_tests=80)
                st = rec['steps'][idx]
                res.violations.append({
                    'sig': sig,
                    'what': f'({lay}: {fwd_what(case)}) request {st["req"]} answered {st["obs"]["reply"]} with driver calls '
                            f'{[[x.replace(FSEP, " ").replace(KVSEP, "=") for x in c] for c in st["obs"]["calls"]]}; '
                            f'the specification of the write path says: {why.replace(FSEP, " ").replace(KVSEP, "=")}',
                    'case': {'forward': {'seed': case['seed']}, 'keep': keep},
                    'detail': {'step': idx, 'obs': {k: st['obs'][k] for k in ('reply', 'calls', 'emits')}}})
    res.count('forward.disagreements', ndis[0])


def fwd_what(case):
    name, members, idx = fwd_names(case)
    hooks = sorted({h['attr'] for lay in case['layers'] for h in lay['hooks']})
    lims = sorted(case['cfg'])
    return '%s %s, check_ hooks on %s, limits %s' % (
        'StructParam' if members else 'FloatEnumParam', name + (' with members ' + ', '.join(members.values()) if members else ''),
        ', '.join(hooks) or 'nothing', ', '.join(lims) or 'none')


# ----------------------------------------------------------------------------------------
def gen_case(seed, big):
    rng = random.Random(seed)
    nodespec = gen_nodespec(rng, big)
    steps = gen_steps(rng, nodespec, rng.randint(10, 80 if big else 40))
    return {'seed': seed, 'big': big, 'nodespec': nodespec, 'steps': steps}


def model_and_judge(ctx, rec):
    base = {'p': PID, 'node': rec['node'], 'oracle': rec['oracle']}
    return [dict(base, k='history', steps=[{'req': s['req'], 'drv': s['drv']} for s in rec['steps']]),
            dict(base, k='judge', steps=[{'req': s['req'], 'obs': s['obs']} for s in rec['steps']],
                 dtrees=rec.get('dtrees', []), acceptck=rec.get('acceptck', []))]


def compare(model_out, rec):
    """first step at which model and implementation differ through obs, or None; before the first step: the chain of check
    functions the model computes from the class layout against the one the real write wrapper runs"""
    impl = {(m['name'], a['attr']): a.get('implChain') for m in rec['node']['modules'] for a in m['accs'] if a['kind'] == 'param'}
    for m, attr, chain in model_out.get('chains', []):
        ic = impl.get((m, attr))
        if ic is not None and ic != chain:
            return {'step': 0, 'field': 'check-chain', 'model': [m, attr, chain], 'impl': [m, attr, ic],
                    'req': rec['steps'][0]['req'] if rec['steps'] else None, 'pyclass': None}
    for i, (mo, st) in enumerate(zip(model_out['outs'], rec['steps'])):
        io = st['obs']
        for key in ('reply', 'calls', 'emits', 'after'):
            if mo[key] != io[key]:
                return {'step': i, 'field': key, 'model': mo[key] if key != 'after' else _diff_rows(mo[key], io[key]),
                        'impl': io[key] if key != 'after' else _diff_rows(io[key], mo[key]), 'req': st['req'],
                        'pyclass': st.get('pyclass')}
    return None


def _diff_rows(a, b):
    return [r for r in a if r not in b][:4]


def layout_class(lay):
    """distribution key of a class layout (MRO order, [min, max, limits, own check] per class)"""
    decl = [i for i, l in enumerate(lay) if any(l[:3])]
    own = [i for i, l in enumerate(lay) if l[3]]
    if not decl:
        return 'hooks-only(%d)' % min(len(own), 3)
    first = max(decl)       # (one of) the classes defining a limit parameter first
    if not own:
        return 'limits-only' + ('(a limit declared again by a derived class)' if any(
            sum(1 for l in lay if l[k]) > 1 for k in range(3)) else '')
    if any(lay[i][3] for i in decl):
        return 'limits+hook:class-with-limit-defines-own-check'
    if all(o > d for o in own for d in decl):
        return 'limits+hook:limit-introduced-above-inherited-hook'
    if all(o < first for o in own):
        return 'limits+hook:hook-in-derived-class'
    return 'limits+hook:hooks-on-both-sides'


def classify(st):
    req, obs = st['req'], st['obs']
    if req[0] == 'assign':
        return 'assign.' + ('stored' if obs['before'] != obs['after'] and any(e[0] == 'update' for e in obs['emits'])
                            else 'refused' if any(e[0] == 'error_update' for e in obs['emits']) else 'silent')
    return '%s.%s' % (req[0], obs['reply'][0] if obs['reply'][0] != 'error' else obs['reply'][1])


def sig_of(rec, idx, why):
    st = rec['steps'][idx]
    obs = st['obs']
    kind = st['req'][0]
    called = 'call' if obs['calls'] else 'nocall'
    rep = obs['reply'][0] if obs['reply'][0] != 'error' else obs['reply'][1]
    if why.startswith('accept-oracle'):
        return 'C04:accept-differs-from-datatype-model'
    want = why.split(' ')[0] + (':' + why.split(' ')[1] if why.startswith('refuse') else '')
    return 'C04:%s:%s:%s:want-%s' % (kind, called, rep, want)


def run(ctx):
    res = Result()
    res.rule = ('generated nodes (1-3 modules, class hierarchies of 2-4 classes incl. plain mixins, parameters of all datatypes with readonly/constant/export '
                'flags, Limit parameters, check_ hook chains, commands with/without argument/result, cfg overrides) x '
                'request histories of 10-40 (thorough 10-80) change/do/read requests with scripted drivers; one evaluation '
                '= one request; non-trivial = a history in which at least one change reached the driver, one was refused '
                'for a reason other than the name, and a dynamic limit or hook decided at least one request; plus '
                'schedules (one evaluation = one schedule) of a change racing a limit move (non-trivial: the limit moved and '
                'the driver was called), of 2-3 threads changing / polling / writing one struct parameter (non-trivial: a '
                'request reached the driver, two threads stored or wrote, the value changed), and generated histories served '
                'to 2-3 connections at once (one evaluation = one request; non-trivial: a driver call and two threads served) '
                'or sent as request lines through the real request loop (non-trivial: a driver call and an error report)')
    big = ctx.tier == 'thorough' or ctx.escalated
    rng = ctx.rng
    cases = []
    cdir = os.path.join(ctx.verif, 'corpus', PID)
    if os.path.isdir(cdir):
        for fn in sorted(os.listdir(cdir)):
            entry = json.load(open(os.path.join(cdir, fn)))
            if 'case' in entry:
                cases.append(entry['case'])
    seeds = [rng.randrange(1 << 40) for _ in range(ctx.budget(600, 5000))]
    state = {'skipped': 0, 'shrunk': 0, 'ncases': 0}

    def process(cases):
        """run, model and judge one chunk of cases (memory stays bounded in the thorough tier)"""
        recs, reqs = [], []
        for case in cases:
            try:
                rec = run_case(case['nodespec'], case['steps'])
            except Exception as e:   # a generator that builds an impossible class is a harness problem, not a verdict
                raise RuntimeError(f'case {case["seed"]} could not be run: {e!r}') from e
            if rec['errors']:
                state['skipped'] += 1
                res.count('node.rejected-by-frappy')
                if len(res.notes) < 3:
                    res.notes.append('generated node rejected by frappy: %s' % rec['errors'][:2])
                continue
            recs.append((case, rec))
            reqs += model_and_judge(ctx, rec)
        answers = []
        CH = 60
        for i in range(0, len(reqs), CH):
            answers += ctx.driver.batch(reqs[i:i + CH])
        for j, (case, rec) in enumerate(recs):
            model, judge = answers[2 * j], answers[2 * j + 1]
            if 'driver_error' in model or 'driver_error' in judge:
                raise RuntimeError(f'driver error: {model.get("driver_error")} {judge.get("driver_error")} (case {case["seed"]})')
            res.evaluations += len(rec['steps'])
            res.traces += len(rec['steps'])
            kinds = set()
            for st in rec['steps']:
                c = classify(st)
                res.count(c)
                kinds.add(c)
                if st['obs']['calls']:
                    res.count('driver.called.' + st['req'][0])
                if st['req'][0] == 'change' and (st['req'][1] or '').endswith('_limits'):
                    res.count('limits-pair.' + (st['obs']['reply'][0] if st['obs']['reply'][0] != 'error' else st['obs']['reply'][1]))
            for mj in rec['node']['modules']:
                for a in mj['accs']:
                    lay = a.get('layers') if a['kind'] == 'param' else None
                    if not lay or not any(any(l) for l in lay):
                        continue
                    res.count('layout.' + layout_class(lay))
            limit_used = bool(rec['oracle']['le']) or bool(rec['oracle']['chk'])
            res.count('oracle.limit-comparisons', len(rec['oracle']['le']))
            res.count('oracle.limit-comparisons.false', sum(1 for r in rec['oracle']['le'] if r[-1] is False))
            res.count('oracle.hook-results.pass', sum(1 for r in rec['oracle']['chk'] if r[-1] == 'pass'))
            res.count('oracle.hook-results.stop', sum(1 for r in rec['oracle']['chk'] if r[-1] == 'stop'))
            res.count('oracle.hook-results.raise', sum(1 for r in rec['oracle']['chk'] if isinstance(r[-1], list)))
            res.count('accept-rows.recomputed-by-datatype-model', len(rec.get('acceptck', [])))
            res.count('accept-rows.outside-model(LimitsType...)', rec.get('accept_outside_model', 0))
            res.count('accept-rows.command-arguments', rec.get('accept_kinds', {}).get('cmd', 0))
            res.count('oracle.accept.ok', sum(1 for r in rec['oracle']['accept'] if r[-1][0] == 'ok'))
            res.count('oracle.accept.err', sum(1 for r in rec['oracle']['accept'] if r[-1][0] != 'ok'))
            if any(st['req'][0] == 'change' and any(c[0] == 'write' for c in st['obs']['calls']) for st in rec['steps']) \
                    and kinds & {'change.ReadOnly', 'change.RangeError', 'change.WrongType'} and limit_used:
                res.nontriv(case['seed'])
            if len(res.samples) < 4:
                for st in rec['steps']:
                    if st['obs']['calls'] and st['req'][0] == 'change' and len(res.samples) < 4:
                        res.samples.append({'req': st['req'], 'reply': st['obs']['reply'], 'calls': st['obs']['calls'],
                                            'emits': st['obs']['emits']})
                        break
            # the hypothesis of the theorems (Node.WF), decided by the driver for this very node (wf_of_wfB)
            if model.get('wf') is False:
                res.count('node.NOT-well-formed(theorems do not speak about it)')
                if len(res.notes) < 5:
                    res.notes.append('generated node of case %s does not satisfy Node.WF' % case['seed'])
            else:
                res.count('node.well-formed(Node.WF decided in Lean)')
            if ctx.model_ok:
                d = compare(model, rec)
                if d is not None:
                    res.disagreements.append({'case': {'seed': case['seed'], 'big': case['big'], 'step': d['step']},
                                              'model': {d['field']: d['model']}, 'impl': {d['field']: d['impl'], 'req': d['req'],
                                                                                           'pyclass': d['pyclass']}})
            if judge['bad'] is not None:
                idx, why = judge['bad']
                sig = sig_of(rec, idx, why)
                keep = list(range(idx + 1))
                if state['shrunk'] < 3:
                    state['shrunk'] += 1

                    def fails(sub, case=case, sig=sig):
                        r = run_case(case['nodespec'], [case['steps'][i] for i in sub])
                        if r['errors']:
                            return False
                        a = ctx.driver.batch([model_and_judge(ctx, r)[1]])[0]
                        return a.get('bad') is not None and sig_of(r, a['bad'][0], a['bad'][1]) == sig
                    keep = ddmin(keep, fails, max_tests=120)
                st = rec['steps'][idx]
                res.violations.append({
                    'sig': sig,
                    'what': f'request {st["req"]} answered {st["obs"]["reply"]} with driver calls {st["obs"]["calls"]}; '
                            f'the specification says: {why}',
                    'case': {'seed': case['seed'], 'big': case['big'], 'keep': keep},
                    'detail': {'step': idx, 'obs': {k: st['obs'][k] for k in ('reply', 'calls', 'emits')}}})
        state['ncases'] += len(recs)
    CHUNK = 300
    process(cases + [gen_case(sd, big) for sd in seeds[:CHUNK]])
    for i in range(CHUNK, len(seeds), CHUNK):
        process([gen_case(sd, big) for sd in seeds[i:i + CHUNK]])
    run_concurrent(ctx, res, big)
    run_merging(ctx, res, big)
    run_shared(ctx, res, big)
    run_wire(ctx, res, big)
    run_forward(ctx, res, big)
    res.count('cases', state['ncases'])
    skipped = state['skipped']
    if skipped:
        res.notes.append(f'{skipped} generated nodes were rejected by frappy itself at creation and skipped')
    return res


def replay(ctx, rp):
    c = rp['case']
    if 'wire' in c:
        wc = c['wire']
        rec = wire_run(gen_case(wc['seed'], wc['big']), wc['chunking'])
        if rec['errors']:
            print('node rejected:', rec['errors'])
            return 2
        print('request lines:', rec['nsteps'], ' handled:', len(rec['steps']), ' reply lines:', rec['nlines'], rec['died'])
        if not (rec['nlines'] == rec['nsteps'] == len(rec['steps'])):
            return 1
        model, judge = ctx.driver.batch(model_and_judge(ctx, rec))
        for i, st in enumerate(rec['steps']):
            mo = model['outs'][i] if 'outs' in model else None
            print(f'[{i}] line  :', st['req'], ' driver script:', st['drv'])
            print('     impl  :', st['obs']['reply'], 'calls', st['obs']['calls'], 'emits', st['obs']['emits'])
            if mo:
                print('     model :', mo['reply'], 'calls', mo['calls'], 'emits', mo['emits'])
        print('judge :', judge)
        d = compare(model, rec) if 'outs' in model else None
        print('correspondence:', 'agree' if d is None else d)
        return 0 if judge.get('bad') is None and d is None else 1
    if 'shared' in c:
        from vlib.sched import ReplayThenDefault
        sc = c['shared']
        s, rec = shared_run(gen_case(sc['seed'], sc['big']), sc['threads'], ReplayThenDefault(c['schedule']))
        if rec['errors']:
            print('node rejected:', rec['errors'])
            return 2
        serial, model, judge = ctx.driver.batch(shared_requests(ctx, rec))
        print('handler sections:', rec['events'])
        print('one request at a time:', serial)
        for i, st in enumerate(rec['steps']):
            mo = model['outs'][i] if 'outs' in model else None
            print(f'[{i}] req   :', st['req'], ' driver script:', st['drv'])
            print('     impl  :', st['obs']['reply'], 'calls', st['obs']['calls'], 'emits', st['obs']['emits'])
            if mo:
                print('     model :', mo['reply'], 'calls', mo['calls'], 'emits', mo['emits'])
        print('judge :', judge)
        d = compare(model, rec) if 'outs' in model else None
        print('correspondence:', 'agree' if d is None else d)
        return 0 if serial.get('ok') and judge.get('bad') is None and d is None else 1
    if 'forward' in c:
        case = gen_fwd_case(c['forward']['seed'])
        rec = fwd_run(case, c.get('keep'))
        if rec['errors']:
            print('class rejected:', rec['errors'])
            return 2
        show = lambda x: json.dumps(x).replace('\\u0002', ' ').replace('\\u0003', '=')
        print('module  :', FWD_LAYOUT[case['kind']] + ':', fwd_what(case))
        print('bodies  :', rec['bodies'])
        model, judge = ctx.driver.batch(fwd_requests(rec))
        for i, st in enumerate(rec['steps']):
            print(f'[{i}] req   :', st['req'], ' driver script:', st['drv'])
            print('     impl  :', st['obs']['reply'], 'calls', show(st['obs']['calls']), 'emits', st['obs']['emits'])
            if 'outs' in model and model['outs'][i] is not None:
                print('     model :', show(model['outs'][i]))
        print('judge :', show(judge))
        d = fwd_compare(model, rec) if 'outs' in model else None
        print('correspondence:', 'agree' if d is None else show(d))
        return 0 if judge.get('bad') is None and d is None else 1
    if 'merging' in c:
        from vlib.sched import ReplayThenDefault
        s, obs = merge_run(c['merging'], ReplayThenDefault(c['schedule']))
        print('case    :', c['merging'])
        print('events  :', [e[:2] + [canon(e[2]) if e[0] == 'store' else canonj(e[2])] if len(e) > 2 else e for e in obs['events']])
        print('calls (thread, payload, cached value at that moment, value given to the driver):')
        for t, p, cur, v in obs['calls']:
            print('         ', t, canonj(p), canon(cur), canon(v))
        print('replies :', obs['replies'])
        viol, dis = merge_judge(ctx, c['merging'], obs)
        print('judge   :', viol)
        print('correspondence:', 'agree' if dis is None else dis)
        return 1 if viol or dis else 0
    if 'concurrent' in c:
        from vlib.sched import ReplayThenDefault
        s, obs = conc_run(c['concurrent'], ReplayThenDefault(c['schedule']))
        print('case    :', c['concurrent'])
        print('events  :', obs['events'])
        print('calls (value, target_max at that moment, how the value came in):', obs['calls'])
        print('replies :', obs['replies'])
        bad = conc_judge(ctx, c['concurrent'], obs)
        print('judge   :', bad)
        return 1 if bad else 0
    case = gen_case(c['seed'], c['big'])
    steps = case['steps'] if 'keep' not in c else [case['steps'][i] for i in c['keep']]
    if 'step' in c and 'keep' not in c:
        steps = steps[:c['step'] + 1]
    rec = run_case(case['nodespec'], steps)
    if rec['errors']:
        print('node rejected:', rec['errors'])
        return 2
    a = ctx.driver.batch(model_and_judge(ctx, rec))
    for i, st in enumerate(rec['steps']):
        mo = a[0]['outs'][i] if 'outs' in a[0] else None
        print(f'[{i}] req   :', st['req'], ' driver script:', st['drv'])
        print('     impl  :', st['obs']['reply'], 'calls', st['obs']['calls'], 'emits', st['obs']['emits'])
        if mo:
            print('     model :', mo['reply'], 'calls', mo['calls'], 'emits', mo['emits'])
    print('judge :', a[1])
    d = compare(a[0], rec) if 'outs' in a[0] else None
    print('correspondence:', 'agree' if d is None else d)
    return 0 if a[1].get('bad') is None and d is None else 1
