"""Entry point:  check.py <Cxx> [--tier quick|thorough] [--replay <path>]

Steps (DESIGN.md section 4):
  A  translate constant tables from the repository, `lake build` the property's proofs and the driver
  B  audit: forbidden tokens, axioms of every theorem in the proof closure
  C  correspondence: model (Lean driver) vs implementation through the property's observation function
  D  judge: the Spec monitors (Lean) on every trace the implementation produced
Verdict: D decides violations; a failure of A/B/C without a failing input is reported as
`no-failing-input-found` after an enlarged search.
Exit codes: 0 held, 1 violation, 2 harness problem (never a verdict).
"""
import argparse
import hashlib
import importlib
import json
import os
import random
import sys
import time
import traceback

HERE = os.path.dirname(os.path.abspath(__file__))
VERIF = os.path.dirname(HERE)
sys.path.insert(0, HERE)

from vlib import lean, evidence  # noqa: E402


class Ctx:
    def __init__(self, prop, tier, seed, escalated=False, driver_fallback=False, model_ok=True):
        self.prop = prop
        self.tier = tier
        self.seed = seed
        self.escalated = escalated
        self.repo = os.environ.get('VERIF_REPO', '/repo')
        self.rng = random.Random(f'{prop}:{seed}:{int(escalated)}')
        self.driver = lean.Driver(fallback=driver_fallback)
        self.model_ok = model_ok          # False: the model could not be rebuilt; only judge verbs are meaningful
        self.verif = VERIF

    def budget(self, quick, thorough):
        n = thorough if self.tier == 'thorough' else quick
        return n * 4 if self.escalated else n


class Result:
    """what a property harness returns"""

    def __init__(self):
        self.evaluations = 0
        self.nontrivial = set()       # hashes of distinct non-trivial cases
        self.rule = ''
        self.samples = []
        self.dist = {}
        self.traces = 0               # implementation traces judged by the Lean monitors
        self.disagreements = []       # [{case, model, impl}]
        self.violations = []          # [{sig, what, case, detail}]
        self.notes = []
        self.trusted = []
        self.assumptions = []

    def count(self, key, n=1):
        self.dist[key] = self.dist.get(key, 0) + n

    def nontriv(self, case):
        self.nontrivial.add(hashlib.sha1(json.dumps(case, sort_keys=True, default=str).encode()).hexdigest())


def load_known(prop):
    try:
        with open(os.path.join(VERIF, 'known_findings', prop + '.json')) as f:
            return json.load(f)
    except OSError:
        return {'findings': [], 'fixed': []}


def write_replay(prop, kind, payload):
    d = os.path.join(os.environ.get('VERIF_REPLAY_DIR') or os.path.join(VERIF, 'replays'), prop)
    os.makedirs(d, exist_ok=True)
    body = json.dumps(payload, indent=1, sort_keys=True, default=str)
    h = hashlib.sha1(body.encode()).hexdigest()[:12]
    path = os.path.join(d, f'{kind}-{h}.json')
    with open(path, 'w') as f:
        f.write(body + '\n')
    return os.path.relpath(path, VERIF) if path.startswith(VERIF + os.sep) else path


def main():
    ap = argparse.ArgumentParser()
    ap.add_argument('prop')
    ap.add_argument('--tier', default=os.environ.get('VERIF_TIER') or 'quick', choices=['quick', 'thorough'])
    ap.add_argument('--replay')
    ap.add_argument('--no-build', action='store_true', help='skip translate/build/audit (development only)')
    args = ap.parse_args()
    prop = args.prop.upper()
    try:
        seed = int(os.environ.get('VERIF_SEED') or 0)
    except ValueError:
        seed = 0
    t0 = time.time()
    try:
        mod = importlib.import_module(f'props.{prop.lower()}')
    except ImportError:
        traceback.print_exc()
        print(f'no harness for {prop}')
        return 2
    meta = mod.META
    root = f'FrappyProofs.Props.{prop}'

    if args.replay:
        ctx = Ctx(prop, args.tier, seed)
        return mod.replay(ctx, json.load(open(os.path.join(VERIF, args.replay) if not os.path.isabs(args.replay)
                                              else args.replay)))

    # ---- A: translate + build ---------------------------------------------------------
    proof_notes = []
    build_ok = model_ok = True
    driver_fallback = False
    audit = None
    if not args.no_build:
        import translate
        try:
            changed = translate.run()
            if changed:
                proof_notes.append('generated tables changed: ' + ', '.join(changed))
        except Exception as e:  # the repository does not import: not a verdict
            traceback.print_exc()
            print(f'translate failed: {e!r}')
            return 2
        translate_failed = [t for pid, t in translate.FAILED if pid == prop]
        for pid, t in translate.FAILED:
            if pid != prop:
                print(f'note: the tables of {pid} could not be extracted from the tree under test ({t}); not this property')
        build_ok, log, dt = lean.build([root])
        if translate_failed:
            # the tables this property's theorems are proved over no longer describe the source: not shown to hold
            build_ok = False
            log = 'translator could not extract the tables of %s from the tree under test: %s' % (prop, '; '.join(translate_failed))
        if not build_ok:
            proof_notes.append('lake build failed:\n' + log[-6000:])
        # the driver links the models of all properties; when another property's model is broken the last good
        # binary is used (this property's model is unchanged in it as long as its own proofs still build)
        drv_ok, log2, _ = lean.build(['driver'])
        driver_fallback = not drv_ok
        model_ok = build_ok or drv_ok
        if not drv_ok and build_ok:
            proof_notes_drv = 'driver does not build (another model is broken); using the last good driver binary'
            print('note:', proof_notes_drv)
        # ---- B: audit ---------------------------------------------------------------------
        if build_ok:
            audit = lean.audit(root)
            if audit['failures']:
                proof_notes += audit['failures']
        else:
            mods = lean.proof_closure(root)
            n = sum(len(v) for v in lean.source_theorems(mods).values())
            audit = {'obligations': n, 'discharged': 0, 'failures': ['build failed'], 'axioms': set(),
                     'theorems': [], 'modules': mods}
    # thorough tier: independent re-check of the compiled proof modules
    if build_ok and not args.no_build and args.tier == 'thorough':
        rc_lc, out_lc, _ = lean.run(['lake', 'env', 'leanchecker'] + audit['modules'])
        audit['leanchecker'] = 'ok' if rc_lc == 0 else out_lc[-1500:]
        if rc_lc != 0:
            audit['failures'].append('leanchecker rejected the compiled modules: ' + out_lc[-1500:])
            proof_notes.append(audit['failures'][-1])
    proof_ok = build_ok and audit is not None and not audit['failures'] and audit['obligations'] > 0 \
        and audit['discharged'] == audit['obligations']
    if args.no_build:
        proof_ok = True
        audit = {'obligations': 0, 'discharged': 0, 'failures': [], 'axioms': set(), 'theorems': [], 'modules': []}

    # ---- C + D ------------------------------------------------------------------------
    def explore(escalated):
        ctx = Ctx(prop, args.tier, seed, escalated=escalated, driver_fallback=driver_fallback, model_ok=model_ok)
        return mod.run(ctx)

    try:
        res = explore(False)
        if (not proof_ok or res.disagreements) and not res.violations:
            res2 = explore(True)           # enlarged search for a failing input
            res2.notes.append('escalated search after a broken proof/correspondence')
            res2.disagreements = res.disagreements + res2.disagreements
            res2.evaluations += res.evaluations
            res2.traces += res.traces
            res2.nontrivial |= res.nontrivial
            for k, v in res.dist.items():
                res2.dist[k] = res2.dist.get(k, 0) + v
            res = res2
    except Exception:
        traceback.print_exc()
        print('harness crashed')
        return 2

    # ---- verdict ----------------------------------------------------------------------
    known = load_known(prop)
    known_sigs = {f['signature']: f for f in known.get('findings', [])}
    new_viol, seen_known = [], {}
    for v in res.violations:
        if v['sig'] in known_sigs:
            seen_known.setdefault(v['sig'], v)
        else:
            new_viol.append(v)
    for sig in seen_known:
        print(f'KNOWN-FINDING: property={prop} {known_sigs[sig]["what"]}')
    rc = 0
    reported = set()
    for v in new_viol:
        if v['sig'] in reported:
            continue
        reported.add(v['sig'])
        path = write_replay(prop, 'violation', {'property': prop, 'kind': 'failing-input', 'sig': v['sig'],
                                                'what': v['what'], 'case': v['case'], 'detail': v.get('detail'),
                                                'seed': seed, 'tier': args.tier})
        print(f'VIOLATION property={prop} replay={path}')
        print(f'  {v["what"]}')
        rc = 1
    if rc == 0 and (not proof_ok or res.disagreements):
        payload = {'property': prop, 'kind': 'no-failing-input-found', 'seed': seed, 'tier': args.tier,
                   'proof_status': proof_notes,
                   'theorems_not_checked': [] if build_ok else [root],
                   'correspondence_disagreements': res.disagreements[:5]}
        path = write_replay(prop, 'unproved', payload)
        why = 'proof obligation no longer checks' if not proof_ok else 'model and implementation disagree'
        print(f'  {why}; searched {res.evaluations} cases / {res.traces} judged traces without finding a failing input')
        for d in res.disagreements[:3]:
            print('  disagreement:', json.dumps(d, default=str)[:600])
        for n in proof_notes[:3]:
            print('  proof:', n[-1500:])
        print(f'VIOLATION property={prop} replay={path} no-failing-input-found')
        rc = 1

    # ---- evidence ---------------------------------------------------------------------
    wall = time.time() - t0
    ev = evidence.build(prop, args.tier, seed, meta, audit, res, wall, proof_ok, len(new_viol), proof_notes)
    evidence.write(prop, ev)
    print(f'{prop} {args.tier}: obligations={audit["obligations"]} discharged={audit["discharged"]} '
          f'cases={res.evaluations} nontrivial={len(res.nontrivial)} judged={res.traces} '
          f'disagreements={len(res.disagreements)} violations={len(new_viol)} known={len(seen_known)} '
          f'wall={wall:.1f}s')
    return rc


if __name__ == '__main__':
    sys.exit(main())
