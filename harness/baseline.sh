#!/bin/bash
# run the repository's pinned suite with the guard off; prints the summary line; exit 0 iff 301 passed
cd "${VERIF_REPO:-/repo}" && env -u FRAPPY_VERIF /venv/bin/python -m pytest -q -p no:cacheprovider --timeout=900 --continue-on-collection-errors 2>&1 | tail -1 | tee /dev/stderr | grep -q "301 passed"
