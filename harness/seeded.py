"""Run the checks against the seeded changes kept under /verif/seeded/<id>/.

    seeded.py run <id> [...]     apply seeded/<id>/patch.diff to a scratch worktree of /repo (outside /repo and /verif),
                                 run demo.py (must exit non-zero), run `./check <property>` with VERIF_REPO pointing at the
                                 scratch tree (must exit 1 with a VIOLATION line), remove the worktree.
    seeded.py all                every directory under seeded/
Evidence of these runs goes to a scratch directory (VERIF_EVIDENCE_DIR), never to /verif/evidence.
"""
import json
import os
import shutil
import subprocess
import sys
import tempfile

VERIF = os.path.dirname(os.path.dirname(os.path.abspath(__file__)))


def sh(cmd, **kw):
    return subprocess.run(cmd, stdout=subprocess.PIPE, stderr=subprocess.STDOUT, text=True, **kw)


def run_one(sid, tier='quick', with_tests=False):
    d = os.path.join(VERIF, 'seeded', sid)
    meta = json.load(open(os.path.join(d, 'meta.json')))
    prop = meta['property']
    scratch = tempfile.mkdtemp(prefix='seedrun-')
    tree = os.path.join(scratch, 'repo')
    res = {'id': sid, 'property': prop}
    try:
        r = sh(['git', '-C', '/repo', 'worktree', 'add', '--detach', '-f', tree, 'HEAD'])
        if r.returncode:
            res['error'] = 'worktree: ' + r.stdout[-300:]
            return res
        r = sh(['git', '-C', tree, 'apply', os.path.join(d, 'patch.diff')])
        if r.returncode:
            # (added) a fix commit touched the same lines: the same edit rebased, seeded/<id>/patch-rebased-on-<commit>.diff
            for alt in sorted(f for f in os.listdir(d) if f.startswith('patch-rebased') and f.endswith('.diff')):
                r2 = sh(['git', '-C', tree, 'apply', os.path.join(d, alt)])
                if not r2.returncode:
                    res['patch'] = alt
                    break
            else:
                res['error'] = 'patch does not apply: ' + r.stdout[-300:]
                return res
        env = dict(os.environ, PYTHONPATH=tree, PYTHONDONTWRITEBYTECODE='1')
        demo = os.path.join(d, 'demo.py')
        if os.path.exists(demo):
            r = sh(['/venv/bin/python', demo], env=env, cwd=scratch, timeout=600)
            res['demo_exit'] = r.returncode
        if with_tests:
            r = sh(['/venv/bin/python', '-m', 'pytest', '-q', '-p', 'no:cacheprovider', '--timeout=900',
                    '--continue-on-collection-errors'], env=env, cwd=tree, timeout=1800)
            res['tests'] = r.stdout.strip().splitlines()[-1] if r.stdout.strip() else ''
        env2 = dict(os.environ, VERIF_REPO=tree, VERIF_EVIDENCE_DIR=os.path.join(scratch, 'evidence'),
                    VERIF_REPLAY_DIR=os.path.join(scratch, 'replays'))
        r = sh([os.path.join(VERIF, 'check'), prop, '--tier', tier], env=env2, cwd=VERIF, timeout=3600)
        res['check_exit'] = r.returncode
        res['violation_lines'] = [l for l in r.stdout.splitlines() if l.startswith('VIOLATION')][:3]
        res['detail'] = [l for l in r.stdout.splitlines() if l.startswith('  ')][:3]
        res['caught'] = r.returncode == 1 and bool(res['violation_lines'])
        res['with_failing_input'] = res['caught'] and not all('no-failing-input-found' in l for l in res['violation_lines'])
    finally:
        sh(['git', '-C', '/repo', 'worktree', 'remove', '--force', tree])
        shutil.rmtree(scratch, ignore_errors=True)
    return res


def main():
    args = sys.argv[1:]
    if not args:
        print(__doc__)
        return 2
    tier = 'quick'
    if '--thorough' in args:
        tier = 'thorough'
        args.remove('--thorough')
    with_tests = '--tests' in args
    if with_tests:
        args.remove('--tests')
    if args[0] == 'all':
        ids = sorted(os.listdir(os.path.join(VERIF, 'seeded')))
    else:
        ids = args[1:] if args[0] == 'run' else args
    missed = 0
    for sid in ids:
        if not os.path.exists(os.path.join(VERIF, 'seeded', sid, 'meta.json')):
            continue
        res = run_one(sid, tier, with_tests)
        print(json.dumps(res))
        if not res.get('caught'):
            missed += 1
    return 1 if missed else 0


if __name__ == '__main__':
    sys.exit(main())
