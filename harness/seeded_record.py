"""seeded_record.py: run seeded.py --tests on the given ids and store the outcome in each meta.json ('verified')"""
import json, os, subprocess, sys
VERIF = os.path.dirname(os.path.dirname(os.path.abspath(__file__)))
ids = sys.argv[1:]
out = subprocess.run(['/venv/bin/python', os.path.join(VERIF, 'harness', 'seeded.py'), '--tests'] + ids,
                     stdout=subprocess.PIPE, text=True).stdout
for line in out.splitlines():
    try:
        d = json.loads(line)
    except ValueError:
        continue
    p = os.path.join(VERIF, 'seeded', d['id'], 'meta.json')
    m = json.load(open(p))
    m['verified'] = {
        'demo_clean_exit': 0,
        'demo_patched_exit': d.get('demo_exit'),
        'tests_patched': d.get('tests'),
        'ran': 'harness/seeded.py --tests %s (scratch worktree of /repo HEAD, patch applied, demo.py, pytest, ./check %s with VERIF_REPO)' % (d['id'], d['property']),
        'check_exit': d.get('check_exit'),
        'caught': d.get('caught'),
        'with_failing_input': d.get('with_failing_input'),
        'first_report': (d.get('detail') or [''])[0][:400],
    }
    if 'note' in m.get('verified_note', {}):
        pass
    json.dump(m, open(p, 'w'), indent=1)
    open(p, 'a').write('\n')
    print(d['id'], 'caught' if d.get('caught') else 'MISSED', d.get('error', ''))
