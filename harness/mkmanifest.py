"""writes /verif/MANIFEST.json from the META of every property harness"""
import importlib
import json
import os
import sys

HERE = os.path.dirname(os.path.abspath(__file__))
VERIF = os.path.dirname(HERE)
sys.path.insert(0, HERE)

ALL = ['C%02d' % i for i in range(1, 21)]
NA_REASONS = {}


def main():
    checks, na = [], []
    for pid in ALL:
        path = os.path.join(HERE, 'props', pid.lower() + '.py')
        if not os.path.exists(path):
            na.append({'property_id': pid, 'reason': NA_REASONS.get(pid, 'no check built yet (work in progress); '
                                                                    'the design in DESIGN.md section 5 applies')})
            continue
        meta = importlib.import_module('props.' + pid.lower()).META
        checks.append({
            'property_id': pid,
            'quick_cmd': f'./check {pid} --tier quick',
            'thorough_cmd': f'./check {pid} --tier thorough',
            'evidence_file': f'/verif/evidence/{pid}.json',
            'replay_cmd_template': f'./check {pid} --replay {{path}}',
            'engine': 'lean4-proof+correspondence',
            'level_claimed': {'category': 'proof', 'text': meta['level_text'], 'design_ref': meta.get('design_ref', f'DESIGN.md section 5, {pid}')},
            'level_note': meta['level_note'],
            'technique': meta.get('technique', 'Lean 4 theorems over a hand-written executable model; model tied to the code by a '
                                  'differential correspondence run and Lean-side Spec monitors judging implementation traces'),
        })
    man = {
        'version': 1,
        'setup_cmd': 'cd lean && lake build',
        'hooks': {
            'guard': 'FRAPPY_VERIF',
            'enable': 'the checks export FRAPPY_VERIF=1; no hook commit exists so far: all instrumentation replaces module-level names from outside',
            'baseline_off_cmd': 'cd /repo && env -u FRAPPY_VERIF /venv/bin/python -m pytest -ra -q -p no:cacheprovider --timeout=900 --continue-on-collection-errors',
            'source_commits': [],
            'add_only': True,
        },
        'engines': [{
            'name': 'lean4-proof+correspondence',
            'path': '/verif/lean, /verif/harness',
            'serves_properties': [c['property_id'] for c in checks],
            'kind_free_text': 'Lean 4.33 models/specs/theorems (lean/), compiled line-protocol driver, Python harness running the '
                              'real frappy code in-process (harness/), translator for constant tables (harness/translate.py)',
        }],
        'checks': checks,
        'not_applicable': na,
        'notes': 'See DESIGN.md. Exit 0 held / 1 VIOLATION / 2 harness problem. VERIF_SEED and VERIF_TIER are honoured; '
                 'VERIF_REPO (default /repo) selects the tree under test.',
    }
    with open(os.path.join(VERIF, 'MANIFEST.json'), 'w') as f:
        json.dump(man, f, indent=1)
        f.write('\n')
    print('checks:', [c['property_id'] for c in checks])


if __name__ == '__main__':
    main()
