#!/bin/bash
# mkws.sh <name>: scratch workspace for building one work package in isolation
#   /tmp/ws/<name>/verif  git worktree of /verif (branch ws-<name>), with a copy of the Lean build output
#   /tmp/ws/<name>/repo   git worktree of /repo  (branch ws-<name>) for fix: commits
set -e
n="$1"; [ -n "$n" ] || { echo usage: mkws.sh name; exit 2; }
mkdir -p /tmp/ws/$n
git -C /verif worktree add -q -f /tmp/ws/$n/verif -b ws-$n
git -C /repo worktree add -q -f /tmp/ws/$n/repo -b ws-$n
mkdir -p /tmp/ws/$n/verif/lean/.lake
cp -a /verif/lean/.lake/build /tmp/ws/$n/verif/lean/.lake/ 2>/dev/null || true
cp -a /verif/lean/.lake/driver.good /tmp/ws/$n/verif/lean/.lake/ 2>/dev/null || true
echo "workspace /tmp/ws/$n ready: export VERIF_REPO=/tmp/ws/$n/repo; cd /tmp/ws/$n/verif"
