#!/bin/bash
# sweep.sh "<seeds>" [props...]: run quick checks for several seeds, 4 in parallel; prints one line per (prop, seed)
seeds="$1"; shift
props="$@"; [ -n "$props" ] || props=$(python3 -c "import json;print(' '.join(c['property_id'] for c in json.load(open('/verif/MANIFEST.json'))['checks']))")
out=$(mktemp -d /tmp/sweep-XXXX)
for s in $seeds; do for p in $props; do echo "$p $s"; done; done | xargs -P 4 -L 1 bash -c 'p=$0; s=$1; VERIF_SEED=$s VERIF_EVIDENCE_DIR='$out'/ev-$s timeout 1500 /verif/check $p > '$out'/$p-$s.log 2>&1; echo "$p seed=$s exit=$? $(tail -1 '$out'/$p-$s.log | cut -c1-160)"'
echo "logs in $out"
