"""mkprompt.py <Cxx> [n]: prints the prompt for an independent agent that seeds changes breaking property Cxx
(the agent gets the property text and a scratch worktree only — nothing from /verif)."""
import json, os, sys
HERE = os.path.dirname(os.path.abspath(__file__))
pid = sys.argv[1].upper()
n = sys.argv[2] if len(sys.argv) > 2 else 'THREE'
for line in open(os.path.join(HERE, '..', '..', 'properties.jsonl')):
    p = json.loads(line)
    if p['id'] == pid:
        break
t = open(os.path.join(HERE, 'prompt_template.txt')).read()
files = ', '.join('`%s`' % f for f in p['anchors']['files'])
for k, v in {'@ws@': pid.lower(), '@pid@': pid, '@title@': p['title'], '@statement@': p['statement'],
             '@quant@': p['quantifier']['text'], '@files@': files, '@n@': n}.items():
    t = t.replace(k, v)
print(t)
