<<<<<<< HEAD
"""Scripted fakes and instrumented containers for the scheduler-driven harnesses (DESIGN.md 3.6).

Everything here works on top of `vlib.sched.Scheduler`:

* `Instr`        – one linear *effect log* per run.  Exactly one managed thread runs at a time, so the order of the log
                   entries is the order in which the effects happened on the real objects (the scheduler's own `trace`
                   lists yield points, i.e. intentions *before* the effect).
* `LQueue/LEvent/LQueueModule/levent_factory` – scheduler queues/events that also write their effects to the log
* `YDict/YList` – `dict`/`list` subclasses whose shared accesses are yield points (stand-ins for plain attributes such as
                   `SecopClient.active_requests` / `.cleanup`); `YDict` iteration behaves like the real one
                   (`RuntimeError: dictionary changed size during iteration`)
* `YAttr`       – data descriptor turning reads/writes of a plain instance attribute into yield points
* `Peer/FakeConn` – a scripted SECoP peer behind the `AsynConn` API the client uses
                   (`writeline`, `send`, `readline`, `shutdown`, `disconnect`).  The peer is an adversary script: for each
                   line the client sends, which lines become readable and when (virtual time), spontaneous lines, and the
                   point at which the connection drops.  `readline` is a scheduler blocking point honouring the virtual time-out.
"""
import json

from vlib import sched as _sched


class Instr:
    def __init__(self, sched):
        self.s = sched
        self.events = []

    def who(self):
        me = self.s.me()
        return me.name if me is not None else 'main0'

    def ev(self, *item):
        self.events.append([self.who()] + list(item))


# ------------------------------------------------------------------ queues / events with an effect log
def _entry_id(item):
    """entries of the client are lists [request, Event, reply]; the event's name identifies the entry"""
    if item is None:
        return None
    try:
        return item[1].name
    except Exception:
        return repr(item)


def _entry_req(item):
    try:
        r = item[0]
        return [r[0], r[1]]
    except Exception:
        return None


class LLock(_sched.SLock):
    """scheduler (R)Lock whose outermost acquire / release are written to the effect log"""

    def __init__(self, instr, name, reentrant=True):
        super().__init__(instr.s, name, reentrant)
        self.instr = instr

    def acquire(self, blocking=True, timeout=-1):
        r = super().acquire(blocking, timeout)
        if r and self.depth == 1:
            self.instr.ev('lk.acq', self.name)
        return r

    def release(self):
        outer = self.depth == 1
        super().release()
        if outer:
            self.instr.ev('lk.rel', self.name)

    __enter__ = acquire

    def __exit__(self, *exc):
        self.release()
        return False


def llock_factory(instr, names):
    """`RLock` stand-in: locks are named from `names` in creation order (then RLock<n>)"""
    count = [0]

    def RLock():
        n = count[0]
        count[0] += 1
        return LLock(instr, names[n] if n < len(names) else f'RLock{n}')
    return RLock


class LQueue(_sched.SQueue):
    def __init__(self, instr, maxsize, name):
        super().__init__(instr.s, maxsize, name)
        self.instr = instr

    def put(self, item, block=True, timeout=None):
        try:
            super().put(item, block, timeout)
        except BaseException as e:
            if not isinstance(e, _sched.SchedAbort):
                self.instr.ev('q.put.fail', self.name, _entry_id(item), type(e).__name__)
            raise
        self.instr.ev('q.put', self.name, _entry_id(item), _entry_req(item))

    def empty(self):
        r = super().empty()
        self.instr.ev('q.empty', self.name, r)
        return r

    def get(self, block=True, timeout=None):
        try:
            item = super().get(block, timeout)
        except BaseException as e:
            if not isinstance(e, _sched.SchedAbort):
                self.instr.ev('q.get.fail', self.name, type(e).__name__, bool(block))
            raise
        self.instr.ev('q.get', self.name, _entry_id(item), bool(block))
        return item


class LHandle:
    """wraps what `mkthread` returns: `join` is written to the effect log when it returns"""

    def __init__(self, instr, inner):
        self.instr = instr
        self.inner = inner
        self.name = inner.name

    def join(self, timeout=None):
        r = self.inner.join(timeout)
        self.instr.ev('th.join', self.name)
        return r

    def is_alive(self):
        return self.inner.is_alive()

    def __eq__(self, other):
        if isinstance(other, LHandle):
            other = other.inner
        return self.inner == other

    def __ne__(self, other):
        return not self.__eq__(other)

    def __hash__(self):
        return hash(self.inner)


class LQueueModule:
    """stand-in for the `queue` module: queues are named round-robin from `names` in creation order"""
    Empty = _sched._queue.Empty
    Full = _sched._queue.Full

    def __init__(self, instr, names):
        self.instr = instr
        self.names = list(names)
        self.n = 0

    def Queue(self, maxsize=0):
        name = self.names[self.n % len(self.names)]
        self.n += 1
        return LQueue(self.instr, maxsize, name)


class LEvent(_sched.SEvent):
    def __init__(self, instr, name):
        super().__init__(instr.s, name)
        self.instr = instr

    def set(self):
        super().set()
        self.instr.ev('ev.set', self.name)

    def clear(self):
        super().clear()
        self.instr.ev('ev.clear', self.name)

    def wait(self, timeout=None):
        r = super().wait(timeout)
        self.instr.ev('ev.wait', self.name, bool(r))
        return r


def levent_factory(instr, prefix='E'):
    """`Event` stand-in: events are named <prefix><n> in creation order; creation is logged with the creating thread"""
    count = [0]

    def Event():
        name = f'{prefix}{count[0]}'
        count[0] += 1
        instr.ev('ev.new', name)
        return LEvent(instr, name)
    return Event


# ------------------------------------------------------------------ containers whose accesses are yield points
def _keyrepr(k):
    if k is None:
        return None
    if isinstance(k, tuple):
        return list(k)
    return k


class YDict(dict):
    def __init__(self, instr, name):
        super().__init__()
        self.instr = instr
        self.yname = name

    def _y(self, op):
        self.instr.s.yield_(('dict.' + op, self.yname))

    def __contains__(self, k):
        self._y('contains')
        r = dict.__contains__(self, k)
        self.instr.ev('d.member', self.yname, _keyrepr(k), r)
        return r

    def __setitem__(self, k, v):
        self._y('setitem')
        dict.__setitem__(self, k, v)
        self.instr.ev('d.insert', self.yname, _keyrepr(k), _entry_id(v))

    _missing = object()

    def pop(self, k, default=_missing):
        self._y('pop')
        if dict.__contains__(self, k):
            v = dict.pop(self, k)
            self.instr.ev('d.pop', self.yname, _keyrepr(k), _entry_id(v))
            return v
        self.instr.ev('d.pop', self.yname, _keyrepr(k), None)
        if default is YDict._missing:
            raise KeyError(k)
        return default

    def popitem(self):
        self._y('popitem')
        try:
            k, v = dict.popitem(self)
        except KeyError:
            self.instr.ev('d.popitem', self.yname, None, None)
            raise
        self.instr.ev('d.popitem', self.yname, _keyrepr(k), _entry_id(v))
        return k, v

    def clear(self):
        self._y('clear')
        dict.clear(self)
        self.instr.ev('d.clear', self.yname)

    def __len__(self):
        self._y('len')
        n = dict.__len__(self)
        self.instr.ev('d.len', self.yname, n)
        return n

    def __bool__(self):
        return len(self) > 0

    def items(self):
        return _YItems(self)


class _YItems:
    """iterating `d.items()`: every `next` is a yield point; the real iterator detects concurrent size changes"""

    def __init__(self, d):
        self.d = d

    def __iter__(self):
        d = self.d
        it = iter(dict.items(d))
        while True:
            d._y('next')
            try:
                k, v = next(it)
            except StopIteration:
                d.instr.ev('d.next', d.yname, None, None)
                return
            except RuntimeError:
                d.instr.ev('d.next.error', d.yname)
                raise
            d.instr.ev('d.next', d.yname, _keyrepr(k), _entry_id(v))
            yield k, v


class YList(list):
    def __init__(self, instr, name):
        super().__init__()
        self.instr = instr
        self.yname = name

    def _y(self, op):
        self.instr.s.yield_(('list.' + op, self.yname))

    def append(self, v):
        self._y('append')
        list.append(self, v)
        self.instr.ev('l.append', self.yname, _entry_id(v))

    def pop(self, *a):
        self._y('pop')
        v = list.pop(self, *a)
        self.instr.ev('l.pop', self.yname, _entry_id(v))
        return v

    def clear(self):
        self._y('clear')
        list.clear(self)
        self.instr.ev('l.clear', self.yname)

    def __len__(self):
        self._y('len')
        n = list.__len__(self)
        self.instr.ev('l.len', self.yname, n)
        return n

    def __bool__(self):
        return len(self) > 0


class YAttr:
    """data descriptor: reads and writes of `obj.<name>` are yield points (install on a subclass of the class under test)"""

    def __init__(self, name, default=None, log_get=False):
        self.name = name
        self.default = default
        self.slot = '_yattr_' + name
        self.log_get = log_get

    @staticmethod
    def _short(v):
        if v is None or isinstance(v, (bool, int, str)):
            return v
        return type(v).__name__

    def __get__(self, obj, cls=None):
        if obj is None:
            return self.default
        instr = obj.__dict__.get('_instr')
        if instr is not None:
            instr.s.yield_(('attr.get', self.name))
        v = obj.__dict__.get(self.slot, self.default)
        if instr is not None and self.log_get:
            instr.ev('a.get', self.name, self._short(v))
        return v

    def __set__(self, obj, v):
        instr = obj.__dict__.get('_instr')
        if instr is not None:
            instr.s.yield_(('attr.set', self.name))
        obj.__dict__[self.slot] = v
        if instr is not None:
            instr.ev('a.set', self.name, self._short(v))


# ------------------------------------------------------------------ scripted peer
class Peer:
    """Adversary script of the SEC node side.

    script = {
      'ident':    reply to *IDN?                (default: a valid identification)
      'describe': description dict              (default: DEFAULT_DESCRIPTION)
      'rules':    [{'on': <sent line>, 'nth': k, 'emit': [[delay, line], ...], 'drop': delay|None}, ...]
                  – what the k-th transmission of exactly that line triggers
      'spont':    [[t, line], ...]              spontaneous lines at virtual time t after `start()`
      'drop_at':  t | None                      the peer closes the connection at time t after `start()`
      'drop_after_reads': n | None              … or as soon as the client has read n lines after `start()`
      'send_error': bool                        sending on a dropped connection raises BrokenPipeError (else: silently lost)
      'reconnect': 'refuse'                     further connection attempts are refused
    }
    All lines are `str` without the end-of-line.  Every emitted line is logged with `after` = number of lines the client
    had transmitted when the peer emitted it and `re` = index of the transmission that triggered it (None: spontaneous).
    """
    IDENT = 'ISSE&SINE2020,SECoP,V2019-09-16,v1.0'
    DEFAULT_DESCRIPTION = {
        'equipment_id': 'fake', 'description': 'scripted node', 'modules': {
            'm': {'description': 'mod', 'interface_classes': [], 'accessibles': {
                'p': {'description': 'p', 'datainfo': {'type': 'double'}, 'readonly': False},
                'q': {'description': 'q', 'datainfo': {'type': 'double'}, 'readonly': False},
                'go': {'description': 'cmd', 'datainfo': {'type': 'command'}},
            }}}}

    def __init__(self, instr, script):
        self.instr = instr
        self.s = instr.s
        self.script = script
        self.conns = []
        self.t0 = None              # scenario start (after connect)
        self.sent = []              # lines transmitted by the client after start(): wire_out
        self.counts = {}
        self.reads = 0

    def start(self):
        self.t0 = self.s.now
        for c in self.conns:
            c.arm()

    def connect(self, uri, *args, **kwds):
        from frappy.errors import CommunicationFailedError
        self.s.yield_(('conn.new',))
        if self.conns and self.script.get('reconnect', 'refuse') == 'refuse':
            self.instr.ev('c.new', False)
            raise CommunicationFailedError('can not connect (scripted)')
        c = FakeConn(self)
        self.conns.append(c)
        self.instr.ev('c.new', True)
        return c


class FakeConn:
    timeout = 1

    def __init__(self, peer):
        self.peer = peer
        self.instr = peer.instr
        self.s = peer.s
        self.inbox = []            # [ready_at, seq, line, after, re]
        self.spont = []            # [ready_at, line] not yet emitted
        self.seq = 0
        self.closed_at = None      # peer side drop (virtual time)
        self.local_shutdown = False
        self.local_closed = False

    # --- script side
    def arm(self):
        sc = self.peer.script
        for t, line in sc.get('spont', []):
            self.spont.append([self.peer.t0 + t, line])
        self.spont.sort(key=lambda x: x[0])
        if sc.get('drop_at') is not None:
            self._drop(self.peer.t0 + sc['drop_at'])

    def _drop(self, t):
        if self.closed_at is None or t < self.closed_at:
            self.closed_at = t

    def _emit(self, ready_at, line, re):
        self.inbox.append([ready_at, self.seq, line, len(self.peer.sent), re])
        self.seq += 1
        self.inbox.sort(key=lambda x: (x[0], x[1]))

    def _flush_spont(self):
        now = self.s.now
        while self.spont and self.spont[0][0] <= now:
            t, line = self.spont.pop(0)
            self._emit(t, line, None)

    def _dropped(self):
        return self.closed_at is not None and self.closed_at <= self.s.now

    # --- AsynConn API
    def writeline(self, line):
        self.send(line + b'\n')

    def send(self, data):
        self.s.yield_(('conn.send',))
        text = data.decode('utf-8').rstrip('\n')
        peer = self.peer
        if self.local_closed:
            self.instr.ev('c.send.fail', text, 'AttributeError')
            raise AttributeError("'NoneType' object has no attribute 'sendall'")
        if self.local_shutdown:
            self.instr.ev('c.send.fail', text, 'BrokenPipeError')
            raise BrokenPipeError(32, 'Broken pipe')
        self._flush_spont()
        if self._dropped():
            if peer.script.get('send_error'):
                self.instr.ev('c.send.fail', text, 'BrokenPipeError')
                raise BrokenPipeError(32, 'Broken pipe')
            self.instr.ev('c.send.lost', text)
            return
        now = self.s.now
        if peer.t0 is None:
            # connection set-up: identification and description are answered by the built-in script
            self.instr.ev('c.send.setup', text)
            if text == '*IDN?':
                self._emit(now, peer.script.get('ident', Peer.IDENT), None)
            elif text == 'describe':
                self._emit(now, 'describing . ' + json.dumps(peer.script.get('describe', Peer.DEFAULT_DESCRIPTION)), None)
            elif text == 'activate':
                self._emit(now, 'active', None)
            return
        idx = len(peer.sent)
        peer.sent.append(text)
        nth = peer.counts.get(text, 0)
        peer.counts[text] = nth + 1
        self.instr.ev('c.send', idx, text)
        for rule in peer.script.get('rules', []):
            if rule['on'] == text and rule.get('nth', 0) == nth:
                for delay, line in rule.get('emit', []):
                    self._emit(now + delay, line, idx)
                if rule.get('drop') is not None:
                    self._drop(now + rule['drop'])

    def _ready(self):
        self._flush_spont()
        now = self.s.now
        limit = self.closed_at
        return [x for x in self.inbox if x[0] <= now and (limit is None or x[0] <= limit)]

    def _next_time(self):
        ts = [x[0] for x in self.inbox] + [x[0] for x in self.spont]
        if self.closed_at is not None:
            ts = [t for t in ts if t <= self.closed_at] + [self.closed_at]
        ts = [t for t in ts if t > self.s.now]
        return min(ts) if ts else None

    def readline(self, timeout=None):
        from frappy.lib.asynconn import ConnectionClosed
        self.s.yield_(('conn.readline',))
        if self.local_closed:
            self.instr.ev('c.read.fail', 'AttributeError')
            raise AttributeError("'NoneType' object has no attribute 'recv'")
        end = self.s.now + (timeout or self.timeout)
        while True:
            ready = self._ready()
            if ready:
                item = ready[0]
                self.inbox.remove(item)
                if self.peer.t0 is None:
                    self.instr.ev('c.read.setup', item[2][:40])
                else:
                    self.peer.reads += 1
                    self.instr.ev('c.read', item[1], item[2], item[3], item[4])
                    n = self.peer.script.get('drop_after_reads')
                    if n is not None and self.peer.reads >= n:
                        self._drop(self.s.now)
                return item[2].encode('utf-8')
            if self.local_shutdown or self._dropped():
                self.instr.ev('c.read.closed')
                raise ConnectionClosed()
            remaining = end - self.s.now
            if remaining <= 0:
                if timeout:
                    self.instr.ev('c.read.timeout')
                    raise TimeoutError(f'timeout in readline ({timeout:g} sec)')
                self.instr.ev('c.read.none')
                return None
            nxt = self._next_time()
            wait = remaining if nxt is None else min(remaining, nxt - self.s.now)
            self.s.block(('conn.readline.wait',),
                         lambda: self.local_shutdown or self.local_closed or bool(self._ready()) or self._dropped(),
                         max(wait, self.s.TICK))

    def shutdown(self):
        self.s.yield_(('conn.shutdown',))
        self.local_shutdown = True
        self.instr.ev('c.shutdown')

    def disconnect(self):
        self.s.yield_(('conn.disconnect',))
        self.local_shutdown = True
        self.local_closed = True
        self.instr.ev('c.disconnect')
=======
"""Scripted devices behind `frappy.lib.asynconn.AsynConn` (C16).

Only the LOWEST layer is faked: `FakeConn` is a concrete `AsynConn` subclass registered for the scheme `fake`
(`AsynConn.__new__` dispatches on `SCHEME_MAP`, so `frappy.io` needs no patch); it implements `recv / send /
flush_recv / disconnect` over a scripted `Device`, the way `AsynTcp` implements them over a socket.  The REAL
`AsynConn.readline / readbytes` (receive buffer, line splitting, time-outs) stay in play.

A device lives in virtual time (`vlib.sched.Scheduler`): blocking reads are scheduler blocking points.

    dev = Device(sched, log, 'dev', script)       # registers fake://dev
    script = {
      'eol': '\n',                       # appended by the device to every reply ('' for byte devices)
      'cmds': {'A': {'reply': 'a1', 'delay': 0.2, 'chunks': [1, 2], 'gap': 0.05}, 'S': {'reply': None}},
      'default': {'reply': '{cmd}!', 'delay': 0.0},            # for commands not listed (None: silence)
      'unsolicited': [[1.5, 'junk\n'], ...],   # bytes the device emits by itself, seconds after the connect
      'close': {'send': 3, 'phase': 'before' | 'after_cmd' | 'mid_reply' | 'after_reply'} | {'at': 2.5} | None,
                                          # the device closes the connection (counts sends over all connections)
      'close2': {'at': 1.0},             # the device closes the SECOND connection that long after it was made
      'refuse': [1, 2],                  # connect attempts (0-based, over the whole run) that are refused
    }

All strings are latin-1 images of bytes.  Events are appended to `log` (a `Log`), see `Log.add`.
"""
from frappy.errors import CommunicationFailedError
from frappy.lib.asynconn import AsynConn, ConnectionClosed

DEVICES = {}


class Log:
    """time-stamped event log shared by the device, the connections and the harness instrumentation.

    Every event is a dict {'e': kind, 't': microseconds since start, 'who': thread name, ...}; `sorted()` merges
    the device's future arrivals into arrival order (time, then creation order)."""

    def __init__(self, sched):
        self.sched = sched
        self.t0 = sched.now
        self.items = []

    def us(self, t=None):
        return int(round(((self.sched.now if t is None else t) - self.t0) * 1e6))

    def who(self):
        me = self.sched.me()
        return me.name if me is not None else 'main'

    def add(self, e, t=None, **kw):
        tf = self.sched.now if t is None else t
        ev = {'e': e, 't': self.us(tf), 'tf': tf, 'who': kw.pop('who', None) or self.who(), 'seq': len(self.items)}
        ev.update(kw)
        self.items.append(ev)
        return ev

    def sorted(self):
        return sorted((ev for ev in self.items if not ev.get('dropped')), key=lambda ev: (ev['tf'], ev['seq']))


class Chan:
    """device -> host byte channel of one connection: FIFO of (arrival time, bytes) plus an end-of-file time"""

    def __init__(self, cid):
        self.cid = cid
        self.items = []         # [t_arrival, data, log event]
        self.last = 0.0
        self.open = True        # host side
        self.eof_at = None
        self.busy_until = 0.0   # the device answers one command after the other

    def put(self, t, data, ev=None):
        """enqueue bytes leaving the device at time t (kept in time order; equal times in emission order)"""
        if self.eof_at is not None and t >= self.eof_at:
            return None         # the device has closed before these bytes left it
        i = len(self.items)
        while i > 0 and self.items[i - 1][0] > t:
            i -= 1
        self.items.insert(i, [t, data, ev])
        self.last = max(self.last, t)
        return t

    def close_at(self, t):
        """the device closes at time t: bytes that would have left it later are never sent"""
        self.eof_at = t
        for it in self.items:
            if it[0] > t and it[2] is not None:
                it[2]['dropped'] = True
        self.items = [it for it in self.items if it[0] <= t]
        self.last = max([it[0] for it in self.items] + [0.0])

    def readable(self, now):
        return (bool(self.items) and self.items[0][0] <= now) or (self.eof_at is not None and self.eof_at <= now)

    def next_time(self):
        if self.items:
            return self.items[0][0]
        return self.eof_at


class Device:
    def __init__(self, sched, log, name, script):
        self.sched = sched
        self.log = log
        self.name = name
        self.uri = 'fake://' + name
        self.script = script
        self.eol = script.get('eol', '\n').encode('latin-1')
        self.nconnect = 0
        self.nsend = 0
        self.chans = []
        DEVICES[self.uri] = self

    def unregister(self):
        DEVICES.pop(self.uri, None)

    # ---- host side entry points -------------------------------------------------------
    def connect(self):
        i = self.nconnect
        self.nconnect += 1
        cid = len(self.chans)
        if i in set(self.script.get('refuse') or ()):
            self.log.add('connect', ok=False, conn=None, attempt=i)
            raise CommunicationFailedError(f'can not connect to {self.name}, refused')
        ch = Chan(cid)
        self.chans.append(ch)
        self.log.add('connect', ok=True, conn=cid, attempt=i)
        now = self.sched.now
        ch.last = now
        if cid == 0:            # unsolicited output and a timed close are scripted relative to the first connect
            for t, data in self.script.get('unsolicited') or ():
                self._emit(ch, now + t, data.encode('latin-1'), None)
            cl = self.script.get('close')
            if cl and 'at' in cl:
                self._eof(ch, now + cl['at'])
        elif cid == 1 and self.script.get('close2'):     # a second timed close, relative to the second connect
            self._eof(ch, now + self.script['close2']['at'])
        return ch

    def _emit(self, ch, t, data, tag):
        ev = self.log.add('arrive', t=t, who='device', conn=ch.cid, data=data.decode('latin-1'), tag=tag)
        ta = ch.put(t, data, ev)
        if ta is None:
            ev['dropped'] = True
        else:
            ev['t'] = self.log.us(ta)
            ev['tf'] = ta

    def _eof(self, ch, t):
        if ch.eof_at is None:
            ch.close_at(t)
            self.log.add('devclose', t=t, who='device', conn=ch.cid)

    def on_send(self, ch, data):
        n = self.nsend
        self.nsend += 1
        now = self.sched.now
        text = data.decode('latin-1')
        self.log.add('send', conn=ch.cid, data=text, n=n)
        if ch.eof_at is not None and ch.eof_at <= now:
            return              # the device is gone already: the bytes vanish (as a first write to a closed peer)
        cl = self.script.get('close') or {}
        phase = cl.get('phase') if cl.get('send') == n else None
        if phase == 'before':
            self._eof(ch, now)
            return
        cmd = data[:-len(self.eol)] if self.eol and data.endswith(self.eol) else data
        key = cmd.decode('latin-1')
        spec = (self.script.get('cmds') or {}).get(key)
        if spec is None:
            spec = self.script.get('default')
        if phase == 'after_cmd' or spec is None or spec.get('reply') is None:
            if phase is not None:
                self._eof(ch, now)
            return
        reply = spec['reply'].replace('{cmd}', key).replace('{n}', str(n)).encode('latin-1') + self.eol
        chunks = []
        pos = 0
        for s in spec.get('chunks') or ():
            if s > 0 and pos < len(reply):
                chunks.append(reply[pos:pos + s])
                pos += s
        if pos < len(reply):
            chunks.append(reply[pos:])
        t = max(now + float(spec.get('delay') or 0), ch.busy_until)
        tl = t
        gap = float(spec.get('gap') or 0)
        for i, c in enumerate(chunks):
            if phase == 'mid_reply' and i >= max(1, len(chunks) // 2):
                break
            tl = t + i * gap
            self._emit(ch, tl, c, n)
        ch.busy_until = tl
        if phase in ('mid_reply', 'after_reply'):
            self._eof(ch, tl)


class FakeConn(AsynConn):
    """lowest layer only; readline/readbytes are inherited from the real AsynConn"""
    scheme = 'fake'

    def __init__(self, uri, *args, **kwargs):
        super().__init__(uri, *args, **kwargs)
        self.uri = uri
        self.dev = DEVICES[uri]
        self.connection = self.dev.connect()      # raises CommunicationFailedError when refused (as AsynTcp)

    def disconnect(self):
        ch = self.connection
        if ch is not None and ch.open:
            ch.open = False
            try:
                self.dev.log.add('hclose', conn=ch.cid)
            except Exception:
                pass
        self.connection = None

    def send(self, data):
        self.dev.on_send(self.connection, data)

    def _readable(self):
        return self.connection.readable(self.dev.sched.now)

    def flush_recv(self):
        """as AsynTcp.flush_recv: the buffer plus whatever can be read without waiting"""
        sched = self.dev.sched
        sched.yield_(('flush', self.connection.cid))
        self.dev.log.add('flush', conn=self.connection.cid)
        data = [self._rxbuffer]
        while self._readable():
            data.append(self.recv())
        self._rxbuffer = b''
        return b''.join(data)

    def recv(self):
        """bytes received within self.timeout (b'' on time-out); ConnectionClosed when the device has closed"""
        ch = self.connection
        sched = self.dev.sched
        log = self.dev.log
        end = sched.now + self.timeout
        while True:
            now = sched.now
            if ch.items and ch.items[0][0] <= now:
                data = ch.items.pop(0)[1]
                log.add('recv', conn=ch.cid, out='data', data=data.decode('latin-1'))
                return data
            if ch.eof_at is not None and ch.eof_at <= now:
                log.add('recv', conn=ch.cid, out='closed')
                raise ConnectionClosed()
            remaining = end - now
            if remaining <= 0:
                log.add('recv', conn=ch.cid, out='empty')
                return b''
            nxt = ch.next_time()
            wait = remaining if nxt is None else min(remaining, max(nxt - now, 0.0))
            wait = max(wait, 1e-9)
            if not sched.managed():
                sched.now += wait
                continue
            sched.block(('recv', ch.cid), lambda: ch.readable(sched.now), wait)
>>>>>>> ws-c16
