"""Scripted fakes and instrumented containers for the scheduler-driven harnesses (DESIGN.md 3.6).

Everything here works on top of `vlib.sched.Scheduler`:

* `Instr`        – one linear *effect log* per run.  Exactly one managed thread runs at a time, so the order of the log
                   entries is the order in which the effects happened on the real objects (the scheduler's own `trace`
                   lists yield points, i.e. intentions *before* the effect).
* `LQueue/LEvent/LQueueModule/levent_factory` – scheduler queues/events that also write their effects to the log
* `YDict/YList` – `dict`/`list` subclasses whose shared accesses are yield points (stand-ins for plain attributes such as
                   `SecopClient.active_requests` / `.cleanup`); `YDict` iteration behaves like the real one
                   (`RuntimeError: dictionary changed size during iteration`)
* `YAttr`       – data descriptor turning reads/writes of a plain instance attribute into yield points
* `Peer/FakeConn` – a scripted SECoP peer behind the `AsynConn` API the client uses
                   (`writeline`, `send`, `readline`, `shutdown`, `disconnect`).  The peer is an adversary script: for each
                   line the client sends, which lines become readable and when (virtual time), spontaneous lines, and the
                   point at which the connection drops.  `readline` is a scheduler blocking point honouring the virtual time-out.
"""
import json

from vlib import sched as _sched


class Instr:
    def __init__(self, sched):
        self.s = sched
        self.events = []

    def who(self):
        me = self.s.me()
        return me.name if me is not None else 'main0'

    def ev(self, *item):
        self.events.append([self.who()] + list(item))


# ------------------------------------------------------------------ queues / events with an effect log
# (added) a harness may name the entries itself (e.g. by object identity, when it must not assume that every entry has an
# event of its own): `ENTRY_NAMER[0] = f` with `f(item) -> name`; None (default): the event's name identifies the entry
ENTRY_NAMER = [None]


def _entry_id(item):
    """entries of the client are lists [request, Event, reply]; the event's name identifies the entry"""
    if item is None:
        return None
    if ENTRY_NAMER[0] is not None:
        return ENTRY_NAMER[0](item)
    try:
        return item[1].name
    except Exception:
        return repr(item)


def _entry_req(item):
    try:
        r = item[0]
        return [r[0], r[1]]
    except Exception:
        return None


class LLock(_sched.SLock):
    """scheduler (R)Lock whose outermost acquire / release are written to the effect log"""

    def __init__(self, instr, name, reentrant=True):
        super().__init__(instr.s, name, reentrant)
        self.instr = instr

    def acquire(self, blocking=True, timeout=-1):
        r = super().acquire(blocking, timeout)
        if r and self.depth == 1:
            self.instr.ev('lk.acq', self.name)
        return r

    def release(self):
        outer = self.depth == 1
        super().release()
        if outer:
            self.instr.ev('lk.rel', self.name)

    __enter__ = acquire

    def __exit__(self, *exc):
        self.release()
        return False


def llock_factory(instr, names):
    """`RLock` stand-in: locks are named from `names` in creation order (then RLock<n>)"""
    count = [0]

    def RLock():
        n = count[0]
        count[0] += 1
        return LLock(instr, names[n] if n < len(names) else f'RLock{n}')
    return RLock


class LQueue(_sched.SQueue):
    def __init__(self, instr, maxsize, name):
        super().__init__(instr.s, maxsize, name)
        self.instr = instr
        # (added) every queue object has a number, appended as the last field of its log entries: a client that
        # connects anew replaces its queues
        self.uid = getattr(instr, 'nqueues', 0)
        instr.nqueues = self.uid + 1
        instr.ev('q.new', name, self.uid)

    def put(self, item, block=True, timeout=None):
        try:
            super().put(item, block, timeout)
        except BaseException as e:
            if not isinstance(e, _sched.SchedAbort):
                self.instr.ev('q.put.fail', self.name, _entry_id(item), type(e).__name__, self.uid)
            raise
        self.instr.ev('q.put', self.name, _entry_id(item), _entry_req(item), self.uid)

    def empty(self):
        r = super().empty()
        self.instr.ev('q.empty', self.name, r, self.uid)
        return r

    def get(self, block=True, timeout=None):
        try:
            item = super().get(block, timeout)
        except BaseException as e:
            if not isinstance(e, _sched.SchedAbort):
                self.instr.ev('q.get.fail', self.name, type(e).__name__, bool(block), self.uid)
            raise
        self.instr.ev('q.get', self.name, _entry_id(item), bool(block), self.uid)
        return item


class LHandle:
    """wraps what `mkthread` returns: `join` is written to the effect log when it returns"""

    def __init__(self, instr, inner, announce=True):
        self.instr = instr
        self.inner = inner
        self.name = inner.name
        if announce:
            instr.ev('th.new', self.name)      # (added) the thread exists from here on

    def join(self, timeout=None):
        r = self.inner.join(timeout)
        self.instr.ev('th.join', self.name)
        return r

    def is_alive(self):
        return self.inner.is_alive()

    def __eq__(self, other):
        if isinstance(other, LHandle):
            other = other.inner
        return self.inner == other

    def __ne__(self, other):
        return not self.__eq__(other)

    def __hash__(self):
        return hash(self.inner)


class LQueueModule:
    """stand-in for the `queue` module: queues are named round-robin from `names` in creation order"""
    Empty = _sched._queue.Empty
    Full = _sched._queue.Full

    def __init__(self, instr, names):
        self.instr = instr
        self.names = list(names)
        self.n = 0

    def Queue(self, maxsize=0):
        name = self.names[self.n % len(self.names)]
        self.n += 1
        return LQueue(self.instr, maxsize, name)


class LEvent(_sched.SEvent):
    def __init__(self, instr, name):
        super().__init__(instr.s, name)
        self.instr = instr

    def set(self):
        super().set()
        self.instr.ev('ev.set', self.name)

    def clear(self):
        super().clear()
        self.instr.ev('ev.clear', self.name)

    def is_set(self):
        # (added) the test is logged; it is no yield point, as before
        r = super().is_set()
        self.instr.ev('ev.isset', self.name, bool(r))
        return r

    isSet = is_set

    def wait(self, timeout=None):
        r = super().wait(timeout)
        self.instr.ev('ev.wait', self.name, bool(r))
        return r


def levent_factory(instr, prefix='E'):
    """`Event` stand-in: events are named <prefix><n> in creation order; creation is logged with the creating thread"""
    count = [0]

    def Event():
        name = f'{prefix}{count[0]}'
        count[0] += 1
        instr.ev('ev.new', name)
        return LEvent(instr, name)
    return Event


# ------------------------------------------------------------------ containers whose accesses are yield points
def _keyrepr(k):
    if k is None:
        return None
    if isinstance(k, tuple):
        return list(k)
    return k


class YDict(dict):
    def __init__(self, instr, name):
        super().__init__()
        self.instr = instr
        self.yname = name

    def _y(self, op):
        self.instr.s.yield_(('dict.' + op, self.yname))

    def __contains__(self, k):
        self._y('contains')
        r = dict.__contains__(self, k)
        self.instr.ev('d.member', self.yname, _keyrepr(k), r)
        return r

    def __setitem__(self, k, v):
        self._y('setitem')
        dict.__setitem__(self, k, v)
        self.instr.ev('d.insert', self.yname, _keyrepr(k), _entry_id(v))

    _missing = object()

    def pop(self, k, default=_missing):
        self._y('pop')
        if dict.__contains__(self, k):
            v = dict.pop(self, k)
            self.instr.ev('d.pop', self.yname, _keyrepr(k), _entry_id(v))
            return v
        self.instr.ev('d.pop', self.yname, _keyrepr(k), None)
        if default is YDict._missing:
            raise KeyError(k)
        return default

    def popitem(self):
        self._y('popitem')
        try:
            k, v = dict.popitem(self)
        except KeyError:
            self.instr.ev('d.popitem', self.yname, None, None)
            raise
        self.instr.ev('d.popitem', self.yname, _keyrepr(k), _entry_id(v))
        return k, v

    def clear(self):
        self._y('clear')
        dict.clear(self)
        self.instr.ev('d.clear', self.yname)

    def __len__(self):
        self._y('len')
        n = dict.__len__(self)
        self.instr.ev('d.len', self.yname, n)
        return n

    def __bool__(self):
        return len(self) > 0

    def items(self):
        return _YItems(self)


class _YItems:
    """iterating `d.items()`: every `next` is a yield point; the real iterator detects concurrent size changes"""

    def __init__(self, d):
        self.d = d

    def __iter__(self):
        d = self.d
        it = iter(dict.items(d))
        while True:
            d._y('next')
            try:
                k, v = next(it)
            except StopIteration:
                d.instr.ev('d.next', d.yname, None, None)
                return
            except RuntimeError:
                d.instr.ev('d.next.error', d.yname)
                raise
            d.instr.ev('d.next', d.yname, _keyrepr(k), _entry_id(v))
            yield k, v


class YList(list):
    def __init__(self, instr, name):
        super().__init__()
        self.instr = instr
        self.yname = name

    def _y(self, op):
        self.instr.s.yield_(('list.' + op, self.yname))

    def append(self, v):
        self._y('append')
        list.append(self, v)
        self.instr.ev('l.append', self.yname, _entry_id(v))

    def pop(self, *a):
        self._y('pop')
        v = list.pop(self, *a)
        self.instr.ev('l.pop', self.yname, _entry_id(v))
        return v

    def clear(self):
        self._y('clear')
        list.clear(self)
        self.instr.ev('l.clear', self.yname)

    def __len__(self):
        self._y('len')
        n = list.__len__(self)
        self.instr.ev('l.len', self.yname, n)
        return n

    def __bool__(self):
        return len(self) > 0


class YAttr:
    """data descriptor: reads and writes of `obj.<name>` are yield points (install on a subclass of the class under test)"""

    def __init__(self, name, default=None, log_get=False):
        self.name = name
        self.default = default
        self.slot = '_yattr_' + name
        self.log_get = log_get

    @staticmethod
    def _short(v):
        if v is None or isinstance(v, (bool, int, str)):
            return v
        if isinstance(v, LHandle):          # (added) which thread / connection / event
            return v.name
        if isinstance(v, FakeConn):
            return 'conn%d' % v.index
        if isinstance(v, LEvent):
            return v.name
        return type(v).__name__

    def __get__(self, obj, cls=None):
        if obj is None:
            return self.default
        instr = obj.__dict__.get('_instr')
        if instr is not None:
            instr.s.yield_(('attr.get', self.name))
        v = obj.__dict__.get(self.slot, self.default)
        if instr is not None and self.log_get:
            instr.ev('a.get', self.name, self._short(v))
        return v

    def __set__(self, obj, v):
        instr = obj.__dict__.get('_instr')
        if instr is not None:
            instr.s.yield_(('attr.set', self.name))
        obj.__dict__[self.slot] = v
        if instr is not None:
            instr.ev('a.set', self.name, self._short(v))


# ------------------------------------------------------------------ scripted peer
class Peer:
    """Adversary script of the SEC node side.

    script = {
      'ident':    reply to *IDN?                (default: a valid identification)
      'describe': description dict              (default: DEFAULT_DESCRIPTION)
      'rules':    [{'on': <sent line>, 'nth': k, 'emit': [[delay, line], ...], 'drop': delay|None}, ...]
                  – what the k-th transmission of exactly that line triggers
      'spont':    [[t, line], ...]              spontaneous lines at virtual time t after `start()`
      'drop_at':  t | None                      the peer closes the connection at time t after `start()`
      'drop_after_reads': n | None              … or as soon as the client has read n lines after `start()`
      'send_error': bool                        sending on a dropped connection raises BrokenPipeError (else: silently lost)
      'reconnect': 'refuse' | 'accept'          further connection attempts are refused (default) / accepted: on a later
                                                connection the built-in script answers the set-up requests (*IDN?, describe,
                                                activate) as on the first one, the rules go on applying, nothing else happens
      'refuse_first': n                         with 'accept': the first n further attempts are refused all the same
      'refuse_attempts': [k, ...]               with 'accept': the k-th further attempts (1-based) are refused as well
    }
    All lines are `str` without the end-of-line.  Every emitted line is logged with `after` = number of lines the client
    had transmitted when the peer emitted it and `re` = index of the transmission that triggered it (None: spontaneous).
    """
    IDENT = 'ISSE&SINE2020,SECoP,V2019-09-16,v1.0'
    DEFAULT_DESCRIPTION = {
        'equipment_id': 'fake', 'description': 'scripted node', 'modules': {
            'm': {'description': 'mod', 'interface_classes': [], 'accessibles': {
                'p': {'description': 'p', 'datainfo': {'type': 'double'}, 'readonly': False},
                'q': {'description': 'q', 'datainfo': {'type': 'double'}, 'readonly': False},
                'go': {'description': 'cmd', 'datainfo': {'type': 'command'}},
            }}}}

    def __init__(self, instr, script):
        self.instr = instr
        self.s = instr.s
        self.script = script
        self.conns = []
        self.t0 = None              # scenario start (after connect)
        self.sent = []              # lines transmitted by the client after start(): wire_out
        self.counts = {}
        self.reads = 0
        self.attempts = 0           # connection attempts after the first connection

    def start(self):
        self.t0 = self.s.now
        for c in self.conns:
            c.arm()

    def connect(self, uri, *args, **kwds):
        from frappy.errors import CommunicationFailedError
        self.s.yield_(('conn.new',))
        if self.conns:
            self.attempts += 1
        if self.conns and (self.script.get('reconnect', 'refuse') == 'refuse'
                           or self.attempts <= self.script.get('refuse_first', 0)
                           or self.attempts in self.script.get('refuse_attempts', ())):
            self.instr.ev('c.new', False)
            raise CommunicationFailedError('can not connect (scripted)')
        c = FakeConn(self)
        self.conns.append(c)
        self.instr.ev('c.new', True)
        return c


class FakeConn:
    timeout = 1

    def __init__(self, peer):
        self.peer = peer
        self.instr = peer.instr
        self.s = peer.s
        self.inbox = []            # [ready_at, seq, line, after, re]
        self.spont = []            # [ready_at, line] not yet emitted
        self.seq = 0
        self.closed_at = None      # peer side drop (virtual time)
        self.local_shutdown = False
        self.local_closed = False
        self.index = len(peer.conns)   # 0: the first connection

    # --- script side
    def arm(self):
        sc = self.peer.script
        for t, line in sc.get('spont', []):
            self.spont.append([self.peer.t0 + t, line])
        self.spont.sort(key=lambda x: x[0])
        if sc.get('drop_at') is not None:
            self._drop(self.peer.t0 + sc['drop_at'])

    def _drop(self, t):
        if self.closed_at is None or t < self.closed_at:
            self.closed_at = t

    def _emit(self, ready_at, line, re, setup=False):
        # (added) log entry: what the peer sends and from when on it is readable (whether or not it is ever read)
        self.instr.ev('c.emit', self.index, self.seq, line, ready_at, re, setup)
        self.inbox.append([ready_at, self.seq, line, len(self.peer.sent), re, setup])
        self.seq += 1
        self.inbox.sort(key=lambda x: (x[0], x[1]))

    def _flush_spont(self):
        now = self.s.now
        while self.spont and self.spont[0][0] <= now:
            t, line = self.spont.pop(0)
            self._emit(t, line, None)

    def _dropped(self):
        return self.closed_at is not None and self.closed_at <= self.s.now

    # --- AsynConn API
    def writeline(self, line):
        self.send(line + b'\n')

    def send(self, data):
        self.s.yield_(('conn.send',))
        text = data.decode('utf-8').rstrip('\n')
        peer = self.peer
        if self.local_closed:
            self.instr.ev('c.send.fail', text, 'AttributeError')
            raise AttributeError("'NoneType' object has no attribute 'sendall'")
        if self.local_shutdown:
            self.instr.ev('c.send.fail', text, 'BrokenPipeError')
            raise BrokenPipeError(32, 'Broken pipe')
        self._flush_spont()
        if self._dropped():
            if peer.script.get('send_error'):
                self.instr.ev('c.send.fail', text, 'BrokenPipeError')
                raise BrokenPipeError(32, 'Broken pipe')
            self.instr.ev('c.send.lost', text)
            return
        now = self.s.now
        if peer.t0 is None or (self.index > 0 and text in ('*IDN?', 'describe', 'activate')):
            # connection set-up: identification and description are answered by the built-in script
            self.instr.ev('c.send.setup', text)
            if text == '*IDN?':
                self._emit(now, peer.script.get('ident', Peer.IDENT), None, True)
            elif text == 'describe':
                self._emit(now, 'describing . ' + json.dumps(peer.script.get('describe', Peer.DEFAULT_DESCRIPTION)), None, True)
            elif text == 'activate':
                self._emit(now, 'active', None, True)
            return
        idx = len(peer.sent)
        peer.sent.append(text)
        nth = peer.counts.get(text, 0)
        peer.counts[text] = nth + 1
        self.instr.ev('c.send', idx, text)
        for rule in peer.script.get('rules', []):
            if rule['on'] == text and rule.get('nth', 0) == nth:
                for delay, line in rule.get('emit', []):
                    self._emit(now + delay, line, idx)
                if rule.get('drop') is not None:
                    self._drop(now + rule['drop'])

    def _ready(self):
        self._flush_spont()
        now = self.s.now
        limit = self.closed_at
        return [x for x in self.inbox if x[0] <= now and (limit is None or x[0] <= limit)]

    def _next_time(self):
        ts = [x[0] for x in self.inbox] + [x[0] for x in self.spont]
        if self.closed_at is not None:
            ts = [t for t in ts if t <= self.closed_at] + [self.closed_at]
        ts = [t for t in ts if t > self.s.now]
        return min(ts) if ts else None

    def readline(self, timeout=None):
        from frappy.lib.asynconn import ConnectionClosed
        self.s.yield_(('conn.readline',))
        if self.local_closed:
            self.instr.ev('c.read.fail', 'AttributeError')
            raise AttributeError("'NoneType' object has no attribute 'recv'")
        end = self.s.now + (timeout or self.timeout)
        while True:
            ready = self._ready()
            if ready:
                item = ready[0]
                self.inbox.remove(item)
                if self.peer.t0 is None or item[5]:
                    self.instr.ev('c.read.setup', item[2][:40])
                else:
                    self.peer.reads += 1
                    self.instr.ev('c.read', item[1], item[2], item[3], item[4])
                    n = self.peer.script.get('drop_after_reads')
                    if n is not None and self.peer.reads >= n:
                        self._drop(self.s.now)
                return item[2].encode('utf-8')
            if self.local_shutdown or self._dropped():
                self.instr.ev('c.read.closed')
                raise ConnectionClosed()
            remaining = end - self.s.now
            if remaining <= 0:
                if timeout:
                    self.instr.ev('c.read.timeout')
                    raise TimeoutError(f'timeout in readline ({timeout:g} sec)')
                self.instr.ev('c.read.none')
                return None
            nxt = self._next_time()
            wait = remaining if nxt is None else min(remaining, nxt - self.s.now)
            self.s.block(('conn.readline.wait',),
                         lambda: self.local_shutdown or self.local_closed or bool(self._ready()) or self._dropped(),
                         max(wait, self.s.TICK))

    def shutdown(self):
        self.s.yield_(('conn.shutdown',))
        self.local_shutdown = True
        self.instr.ev('c.shutdown')

    def disconnect(self):
        self.s.yield_(('conn.disconnect',))
        self.local_shutdown = True
        self.local_closed = True
        self.instr.ev('c.disconnect')
