"""real frappy datatype objects <-> JSON trees of the line protocol; Python values <-> JSON.

Encoding (the Lean side is lean/FrappyDrive/DTypes.lean):
  values:  None -> null | bool -> true/false | int -> integer | float -> {"f": <64-bit pattern>} | str -> "..." |
           bytes -> {"b": "<hex>"} | tuple -> {"t": [..]} | list -> [..] | dict -> {"d": [[key, value], ..]} |
           EnumMember -> {"e": [name, value]}
  trees:   see DTypes.lean
Strings with lone surrogates cannot travel (Lean strings are sequences of Unicode scalar values): `encodable()` says so
and the harness routes such cases to its totality-only stream.
"""
import struct

from frappy.datatypes import ArrayOf, BLOBType, BoolType, EnumType, FloatRange, IntRange, ScaledInteger, \
    StringType, StructOf, TupleOf, LimitsType, StatusType
from frappy.lib.enum import Enum, EnumMember


def f2bits(x):
    return struct.unpack('<Q', struct.pack('<d', x))[0]


def bits2f(b):
    return struct.unpack('<d', struct.pack('<Q', b))[0]


def fj(x):
    return {'f': f2bits(float(x))}


# ---------------------------------------------------------------------------------------------
# datatype trees
# ---------------------------------------------------------------------------------------------
def dt_to_tree(dt):
    """real datatype object -> tree (reads the properties the object actually has)"""
    t = type(dt)
    if isinstance(dt, (LimitsType, StatusType)):
        raise ValueError('not one of the ten SECoP kinds: %r' % dt)
    if isinstance(dt, FloatRange):
        return {'t': 'double', 'min': fj(dt.min), 'max': fj(dt.max), 'ar': fj(dt.absolute_resolution),
                'rr': fj(dt.relative_resolution)}
    if isinstance(dt, IntRange):
        return {'t': 'int', 'min': int(dt.min), 'max': int(dt.max)}
    if isinstance(dt, ScaledInteger):
        return {'t': 'scaled', 'scale': fj(dt.scale), 'min': fj(dt.min), 'max': fj(dt.max),
                'ar': fj(dt.absolute_resolution), 'rr': fj(dt.relative_resolution)}
    if isinstance(dt, BoolType):
        return {'t': 'bool'}
    if isinstance(dt, EnumType):
        return {'t': 'enum', 'members': [[m.name, int(m.value)] for m in dt._enum.members]}
    if isinstance(dt, StringType):
        return {'t': 'string', 'min': int(dt.minchars), 'max': int(dt.maxchars), 'utf8': bool(dt.isUTF8)}
    if isinstance(dt, BLOBType):
        return {'t': 'blob', 'min': int(dt.minbytes), 'max': int(dt.maxbytes)}
    if isinstance(dt, ArrayOf):
        return {'t': 'array', 'elem': dt_to_tree(dt.members), 'min': int(dt.minlen), 'max': int(dt.maxlen)}
    if isinstance(dt, TupleOf):
        return {'t': 'tuple', 'elems': [dt_to_tree(m) for m in dt.members]}
    if isinstance(dt, StructOf):
        return {'t': 'struct', 'members': [[k, dt_to_tree(m)] for k, m in dt.members.items()],
                'optional': list(dt.optional), 'client': bool(dt.client)}
    raise ValueError('not one of the ten SECoP kinds: %r (%s)' % (dt, t.__name__))


def _f(j):
    return bits2f(j['f'])


def tree_to_dt(tree):
    """tree -> real datatype object, through the repository's own constructors"""
    t = tree['t']
    if t == 'double':
        return FloatRange(_f(tree['min']), _f(tree['max']), absolute_resolution=_f(tree['ar']),
                          relative_resolution=_f(tree['rr']))
    if t == 'int':
        return IntRange(tree['min'], tree['max'])
    if t == 'scaled':
        return ScaledInteger(_f(tree['scale']), _f(tree['min']), _f(tree['max']), absolute_resolution=_f(tree['ar']),
                             relative_resolution=_f(tree['rr']))
    if t == 'bool':
        return BoolType()
    if t == 'enum':
        return EnumType('e', members=dict((k, v) for k, v in tree['members']))
    if t == 'string':
        return StringType(tree['min'], tree['max'], isUTF8=tree['utf8'])
    if t == 'blob':
        return BLOBType(tree['min'], tree['max'])
    if t == 'array':
        return ArrayOf(tree_to_dt(tree['elem']), tree['min'], tree['max'])
    if t == 'tuple':
        return TupleOf(*[tree_to_dt(e) for e in tree['elems']])
    if t == 'struct':
        dt = StructOf(optional=list(tree['optional']), **{k: tree_to_dt(m) for k, m in tree['members']})
        if tree.get('client'):
            dt.client = True
        return dt
    raise ValueError(t)


def tree_depth(tree):
    t = tree['t']
    if t == 'array':
        return 1 + tree_depth(tree['elem'])
    if t == 'tuple':
        return 1 + max(tree_depth(e) for e in tree['elems'])
    if t == 'struct':
        return 1 + max(tree_depth(m) for _, m in tree['members'])
    return 1


def tree_kinds(tree, acc=None):
    acc = [] if acc is None else acc
    acc.append(tree['t'])
    if tree['t'] == 'array':
        tree_kinds(tree['elem'], acc)
    elif tree['t'] == 'tuple':
        for e in tree['elems']:
            tree_kinds(e, acc)
    elif tree['t'] == 'struct':
        for _, m in tree['members']:
            tree_kinds(m, acc)
    return acc


# ---------------------------------------------------------------------------------------------
# values
# ---------------------------------------------------------------------------------------------
def has_surrogate(s):
    return any(0xD800 <= ord(c) <= 0xDFFF for c in s)


def encodable(v):
    """can the value travel to the Lean side?"""
    if v is None or isinstance(v, (bool, int, float, bytes, EnumMember)):
        if isinstance(v, EnumMember):
            return isinstance(v.name, str) and not has_surrogate(v.name)
        return True
    if isinstance(v, str):
        return not has_surrogate(v)
    if isinstance(v, (tuple, list)):
        return all(encodable(x) for x in v)
    if isinstance(v, dict):
        return all(isinstance(k, str) and not has_surrogate(k) and encodable(x) for k, x in v.items())
    return False


def py_to_json(v, sort_keys=False):
    """Python value -> protocol JSON"""
    if v is None:
        return None
    if isinstance(v, bool):
        return v
    if isinstance(v, EnumMember):
        return {'e': [v.name, int(v.value)]}
    if isinstance(v, int):
        return int(v)
    if isinstance(v, float):
        return {'f': f2bits(v)}
    if isinstance(v, str):
        return v
    if isinstance(v, (bytes, bytearray)):
        return {'b': bytes(v).hex()}
    if isinstance(v, tuple):
        return {'t': [py_to_json(x, sort_keys) for x in v]}
    if isinstance(v, list):
        return [py_to_json(x, sort_keys) for x in v]
    if isinstance(v, dict):
        items = list(v.items())
        if sort_keys:
            items.sort(key=lambda kv: kv[0])
        return {'d': [[k, py_to_json(x, sort_keys)] for k, x in items]}
    raise TypeError('value of type %s can not be encoded' % type(v).__name__)


_enum_cache = {}


def enum_member(name, value):
    """an EnumMember with this name and value (of a one-member Enum of its own)"""
    key = (name, value)
    if key not in _enum_cache:
        _enum_cache[key] = Enum('x', {name: value})[name]
    return _enum_cache[key]


def json_to_py(j):
    """protocol JSON -> Python value"""
    if j is None or isinstance(j, (bool, int, str)):
        return j
    if isinstance(j, list):
        return [json_to_py(x) for x in j]
    if isinstance(j, dict):
        if 'f' in j:
            return bits2f(j['f'])
        if 'b' in j:
            return bytes.fromhex(j['b'])
        if 't' in j:
            return tuple(json_to_py(x) for x in j['t'])
        if 'd' in j:
            return {k: json_to_py(x) for k, x in j['d']}
        if 'e' in j:
            return enum_member(j['e'][0], j['e'][1])
    raise TypeError('bad protocol value %r' % (j,))


def canon(j):
    """canonical form of a protocol value for comparison: dict items sorted by key"""
    if isinstance(j, list):
        return [canon(x) for x in j]
    if isinstance(j, dict):
        if 't' in j:
            return {'t': [canon(x) for x in j['t']]}
        if 'd' in j:
            return {'d': sorted(([k, canon(x)] for k, x in j['d']), key=lambda kv: kv[0])}
    return j


def is_json_value(v):
    """is v something json.loads can produce (None/bool/int/float/str/list/dict with str keys)?"""
    if v is None or isinstance(v, (bool, str)):
        return True
    if isinstance(v, EnumMember):
        return False
    if isinstance(v, (int, float)):
        return True
    if isinstance(v, list):
        return all(is_json_value(x) for x in v)
    if isinstance(v, dict):
        return all(isinstance(k, str) and is_json_value(x) for k, x in v.items())
    return False
