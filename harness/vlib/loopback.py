"""Real connection objects on loopback TCP (DESIGN.md 3.6: loopback TCP works in the sandbox).

* `run_conn_script(script)`   – one real `AsynTcp` against a peer socket owned by the harness; the script interleaves what
                                the peer does (send a line, close orderly, reset) with calls of the client side
                                (`readline`, `send`, `shutdown`, `disconnect`); returns the event list of
                                `lean/FrappyModel/Client/Conn.lean` with the outcome *class* of every call.
* `run_fake_script(script)`   – the same script on the scripted `vlib.fakes.FakeConn` (inside a scheduler, virtual time).
* `run_client_drop(kind)`     – a real `SecopClient` (real threads, real sockets) with one request pending while the
                                connection is lost / shut down; how and when the caller was released, what the shutdown
                                left behind.

Real time is involved: all waits are short and all thresholds generous (a peer action is given `SETTLE` to reach the
client's kernel; nothing is judged on being fast, only on not taking seconds).
"""
import socket
import struct
import threading
import time

SETTLE = 0.03
READ_TIMEOUT = 0.05

# (added) 'peerPart': the peer sends the next byte(s) of a line WITHOUT its terminator; the following 'peerSend' sends the rest
# and the terminator.  With `readline` calls in between (each returns None after READ_TIMEOUT, the inter-byte time-out of
# these runs) this is a line that arrives in several segments separated by pauses longer than the inter-byte time-out.
PEER_STEPS = ('peerSend', 'peerPart', 'peerFin', 'peerRst:linger', 'peerRst:unread')
CALL_STEPS = ('readline', 'send', 'shutdown', 'disconnect')


def _listen():
    srv = socket.socket()
    srv.setsockopt(socket.SOL_SOCKET, socket.SO_REUSEADDR, 1)
    srv.bind(('127.0.0.1', 0))
    srv.listen(4)
    return srv, srv.getsockname()[1]


def _abort(sock):
    """close with RST instead of FIN"""
    sock.setsockopt(socket.SOL_SOCKET, socket.SO_LINGER, struct.pack('ii', 1, 0))
    sock.close()


def classify(e):
    from frappy.lib.asynconn import ConnectionClosed
    if isinstance(e, ConnectionClosed):
        return ['closed']
    if isinstance(e, ConnectionError):
        return ['connErr']
    return ['other', type(e).__name__]


def _call(conn, op, lines):
    try:
        if op == 'readline':
            r = conn.readline()
            if r is None:
                return ['none']
            text = r.decode('utf-8', 'replace')
            return ['line', lines.index(text)] if text in lines else ['other', 'unknown line']
        if op == 'send':
            conn.send(b'x\n')
        elif op == 'shutdown':
            conn.shutdown()
        elif op == 'disconnect':
            conn.disconnect()
        return ['ok']
    except Exception as e:    # noqa: the class of the exception is the observation
        return classify(e)


def run_conn_script(script):
    """-> list of events (JSON form of Conn.Ev)"""
    from frappy.lib.asynconn import AsynConn
    srv, port = _listen()
    events, lines = [], []
    peer = None
    conn = None
    try:
        conn = AsynConn('tcp://127.0.0.1:%d' % port)
        peer, _ = srv.accept()
        conn.connection.settimeout(READ_TIMEOUT)
        peer_up = True
        local_end = False       # after shutdown() / disconnect() nothing the peer sends is received any more
        rest = None             # bytes of the line begun by 'peerPart' that are still to be sent
        for step in script:
            if step in PEER_STEPS:
                if not peer_up or (step in ('peerSend', 'peerPart') and local_end):
                    continue
                if step == 'peerPart':
                    if rest is None:
                        rest = ('l%d' % len(lines)).encode()
                    if len(rest) > 1:
                        peer.sendall(rest[:1])
                        rest = rest[1:]
                    events.append(['peerPart'])
                elif step == 'peerSend':
                    lines.append('l%d' % len(lines))
                    peer.sendall((lines[-1].encode() if rest is None else rest) + b'\n')
                    rest = None
                    events.append(['peerSend'])
                elif step == 'peerFin':
                    peer.close()
                    peer_up = False
                    events.append(['peerFin'])
                elif step == 'peerRst:linger':
                    _abort(peer)
                    peer_up = False
                    events.append(['peerRst'])
                else:
                    # close with unread data: the client sends something the peer never reads
                    events.append(['call', 'send', _call(conn, 'send', lines)])
                    time.sleep(SETTLE)
                    peer.close()
                    peer_up = False
                    events.append(['peerRst'])
                time.sleep(SETTLE)
            else:
                events.append(['call', step, _call(conn, step, lines)])
                local_end = local_end or step in ('shutdown', 'disconnect')
                if step == 'send' and not peer_up:
                    time.sleep(SETTLE)     # the peer's kernel answers data on a closed socket with a reset
    finally:
        srv.close()
        if peer is not None:
            try:
                peer.close()
            except OSError:
                pass
        if conn is not None:
            try:
                conn.disconnect()
            except Exception:    # noqa
                pass
    return events


def run_fake_script(script):
    """the same script on FakeConn (sending on a dropped connection fails: the mode that stands for a detected loss)"""
    from vlib import sched as vsched
    from vlib import fakes
    s = vsched.Scheduler()
    instr = fakes.Instr(s)
    peer = fakes.Peer(instr, {'send_error': True})
    events, lines = [], []

    def main():
        conn = peer.connect('fake:1')
        peer.start()
        peer_up = True
        local_end = False
        for step in script:
            if step in PEER_STEPS:
                if not peer_up or (step in ('peerSend', 'peerPart') and local_end):
                    continue
                if step == 'peerPart':
                    events.append(['peerPart'])     # the stand-in hands out whole lines: an incomplete one is not visible
                elif step == 'peerSend':
                    lines.append('l%d' % len(lines))
                    conn._emit(s.now, lines[-1], None)
                    events.append(['peerSend'])
                else:
                    if step == 'peerRst:unread':
                        events.append(['call', 'send', _call(conn, 'send', lines)])
                    conn._drop(s.now)
                    peer_up = False
                    events.append(['peerFin'] if step == 'peerFin' else ['peerRst'])
            else:
                events.append(['call', step, _call(conn, step, lines)])
                local_end = local_end or step in ('shutdown', 'disconnect')

    s.spawn('main', main)
    s.run(wall_timeout=10.0)
    return events


# ------------------------------------------------------------------ the client end to end
IDENT = 'ISSE&SINE2020,SECoP,V2019-09-16,v1.0'
DESCRIPTION = ('{"equipment_id": "loop", "description": "loopback node", "modules": {"m": {"description": "mod", '
               '"interface_classes": [], "accessibles": {"p": {"description": "p", "datainfo": {"type": "double"}, '
               '"readonly": false}}}}}')


class _Quiet:
    def _f(self, *a, **k):
        pass
    debug = info = warning = error = exception = critical = _f


def run_client_drop(kind, wait_max=12.0):
    """kind: 'fin' | 'rst' | 'unread' | 'user'  ->  observation dict"""
    import frappy.client as fc
    srv, port = _listen()
    got_request = threading.Event()
    state = {'sock': None}
    stop = threading.Event()

    def serve():
        try:
            sock, _ = srv.accept()
        except OSError:
            return
        state['sock'] = sock
        sock.settimeout(0.05)
        buf = b''
        while not stop.is_set():
            try:
                data = sock.recv(4096)
            except socket.timeout:
                continue
            except OSError:
                return
            if not data:
                return
            buf += data
            while b'\n' in buf:
                line, buf = buf.split(b'\n', 1)
                text = line.decode()
                if text == '*IDN?':
                    sock.sendall(IDENT.encode() + b'\n')
                elif text == 'describe':
                    sock.sendall(b'describing . ' + DESCRIPTION.encode() + b'\n')
                    if kind == 'unread':
                        return           # from now on nothing is read any more
                elif text.startswith('read'):
                    got_request.set()    # never answered

    server = threading.Thread(target=serve, daemon=True)
    server.start()
    errors = []
    old_hook = threading.excepthook

    def hook(args):
        errors.append('%s:%s' % (args.thread.name.split(':')[-1].lstrip('_') if args.thread else '?',
                                 args.exc_type.__name__))
    threading.excepthook = hook
    before = set(threading.enumerate())
    out = {'kind': 'none'}
    obs = {'drop': kind, 'disconnectRaised': [], 'threadErrors': errors}
    client = None
    try:
        client = fc.SecopClient('tcp://127.0.0.1:%d' % port, _Quiet())
        client.activate = False
        client.connect()

        def caller():
            try:
                client.request('read', 'm:p')
                out['kind'] = 'reply'
            except TimeoutError:
                out['kind'] = 'timeout'
            except ConnectionError:
                out['kind'] = 'conn'
            except Exception as e:    # noqa
                out['kind'] = 'other'
                out['cls'] = type(e).__name__
            out['t'] = time.time()

        th = threading.Thread(target=caller, daemon=True)
        th.start()
        if kind == 'unread':
            time.sleep(0.2)
        else:
            got_request.wait(3.0)
            time.sleep(0.05)
        stop.set()
        server.join(1.0)
        t_drop = time.time()
        sock = state['sock']
        if kind == 'fin':
            sock.close()
        elif kind == 'rst':
            _abort(sock)
        elif kind == 'unread':
            sock.close()
        else:
            try:
                client.disconnect()
            except Exception as e:    # noqa
                obs['disconnectRaised'].append(type(e).__name__)
        th.join(wait_max)
        obs['out'] = out['kind'] if not th.is_alive() else 'none'
        obs['elapsedMs'] = int(max(0.0, out.get('t', time.time()) - t_drop) * 1000)
        try:
            client.disconnect()
        except Exception as e:    # noqa
            obs['disconnectRaised'].append(type(e).__name__)
        deadline = time.time() + 3.0
        while time.time() < deadline:
            left = [t for t in threading.enumerate() if t not in before and t is not th and t is not server and t.is_alive()]
            if not left:
                break
            time.sleep(0.02)
        obs['alive'] = sorted(t.name.split(':')[-1].lstrip('_') for t in left)
        obs['unterminated'] = th.is_alive()
    finally:
        threading.excepthook = old_hook
        stop.set()
        srv.close()
        if state['sock'] is not None:
            try:
                state['sock'].close()
            except OSError:
                pass
        if client is not None:
            client.callbacks.clear()
    return obs
