"""annotated datatype trees of C03 (`DInfo` of lean/FrappyModel/Datatypes/Datainfo.lean) <-> real datatype objects.

An annotated tree is a tree of `vlib.dtcodec` plus `unit`, `fmt` on double / scaled leaves and `name` on enums — everything
`export_datatype()` writes and `copy()` keeps.  `erase()` gives the plain tree back.

Derived classes (`CType` of lean/FrappyModel/Datatypes/Variants.lean) are the node of the kind they are described as plus a class
mark: `"cls": "text"` on a string node (TextType), `"cls": "limits"` on a tuple node with two identical members (LimitsType),
`"cls": "status"` on a tuple node (enum, unlimited string) (StatusType).  Without the marks (`strip_cls`) the tree is the kind tree.
"""
from frappy.datatypes import ArrayOf, BLOBType, BoolType, EnumType, FloatRange, IntRange, ScaledInteger, \
    StringType, StructOf, TupleOf, LimitsType, StatusType, TextType

from vlib.dtcodec import fj, bits2f


def _f(j):
    return bits2f(j['f'])


def dt_to_di(dt):
    """real datatype object -> annotated tree (reads what the object actually holds)"""
    if isinstance(dt, LimitsType):
        if len(dt.members) != 2 or dt.members[0] is not dt.members[1] and dt_to_di(dt.members[0]) != dt_to_di(dt.members[1]):
            raise ValueError('LimitsType with different members: %r' % (dt,))
        m = dt_to_di(dt.members[0])
        return {'t': 'tuple', 'cls': 'limits', 'elems': [m, dt_to_di(dt.members[1])]}
    if isinstance(dt, StatusType):
        return {'t': 'tuple', 'cls': 'status', 'elems': [dt_to_di(m) for m in dt.members]}
    if isinstance(dt, TextType):
        return {'t': 'string', 'cls': 'text', 'min': int(dt.minchars), 'max': int(dt.maxchars), 'utf8': bool(dt.isUTF8)}
    if isinstance(dt, FloatRange):
        return {'t': 'double', 'min': fj(dt.min), 'max': fj(dt.max), 'ar': fj(dt.absolute_resolution),
                'rr': fj(dt.relative_resolution), 'unit': dt.unit, 'fmt': dt.fmtstr}
    if isinstance(dt, IntRange):
        return {'t': 'int', 'min': int(dt.min), 'max': int(dt.max)}
    if isinstance(dt, ScaledInteger):
        return {'t': 'scaled', 'scale': fj(dt.scale), 'min': fj(dt.min), 'max': fj(dt.max),
                'ar': fj(dt.absolute_resolution), 'rr': fj(dt.relative_resolution), 'unit': dt.unit, 'fmt': dt.fmtstr}
    if isinstance(dt, BoolType):
        return {'t': 'bool'}
    if isinstance(dt, EnumType):
        return {'t': 'enum', 'name': dt._enum.name, 'members': [[m.name, int(m.value)] for m in dt._enum.members]}
    if isinstance(dt, StringType):
        return {'t': 'string', 'min': int(dt.minchars), 'max': int(dt.maxchars), 'utf8': bool(dt.isUTF8)}
    if isinstance(dt, BLOBType):
        return {'t': 'blob', 'min': int(dt.minbytes), 'max': int(dt.maxbytes)}
    if isinstance(dt, ArrayOf):
        return {'t': 'array', 'elem': dt_to_di(dt.members), 'min': int(dt.minlen), 'max': int(dt.maxlen)}
    if isinstance(dt, TupleOf):
        return {'t': 'tuple', 'elems': [dt_to_di(m) for m in dt.members]}
    if isinstance(dt, StructOf):
        return {'t': 'struct', 'members': [[k, dt_to_di(m)] for k, m in dt.members.items()],
                'optional': list(dt.optional), 'client': bool(dt.client)}
    raise ValueError('not one of the ten SECoP kinds: %r' % (dt,))


def di_to_dt(tree):
    """annotated tree -> real datatype object, through the repository's own constructors"""
    t = tree['t']
    cls = tree.get('cls')
    if cls == 'text' and t == 'string':
        return TextType(tree['max'])
    if cls == 'limits' and t == 'tuple':
        return LimitsType(di_to_dt(tree['elems'][0]))
    if cls == 'status' and t == 'tuple':
        # StatusType(first, *standard names, **other members): every member given by name and code
        return StatusType('', **dict((k, v) for k, v in tree['elems'][0]['members']))
    if cls:
        raise ValueError('class mark %r on a %s node' % (cls, t))
    if t == 'double':
        return FloatRange(_f(tree['min']), _f(tree['max']), absolute_resolution=_f(tree['ar']),
                          relative_resolution=_f(tree['rr']), unit=tree.get('unit', ''), fmtstr=tree.get('fmt', '%g'))
    if t == 'int':
        return IntRange(tree['min'], tree['max'])
    if t == 'scaled':
        return ScaledInteger(_f(tree['scale']), _f(tree['min']), _f(tree['max']), absolute_resolution=_f(tree['ar']),
                             relative_resolution=_f(tree['rr']), unit=tree.get('unit', ''), fmtstr=tree.get('fmt', '%g'))
    if t == 'bool':
        return BoolType()
    if t == 'enum':
        return EnumType(tree.get('name', ''), members=dict((k, v) for k, v in tree['members']))
    if t == 'string':
        return StringType(tree['min'], tree['max'], isUTF8=tree['utf8'])
    if t == 'blob':
        return BLOBType(tree['min'], tree['max'])
    if t == 'array':
        return ArrayOf(di_to_dt(tree['elem']), tree['min'], tree['max'])
    if t == 'tuple':
        return TupleOf(*[di_to_dt(e) for e in tree['elems']])
    if t == 'struct':
        dt = StructOf(optional=list(tree['optional']), **{k: di_to_dt(m) for k, m in tree['members']})
        if tree.get('client'):
            dt.client = True
        return dt
    raise ValueError(t)


def erase(tree):
    """annotated tree -> plain tree of vlib.dtcodec"""
    t = tree['t']
    if t in ('double', 'scaled'):
        return {k: v for k, v in tree.items() if k not in ('unit', 'fmt')}
    if t == 'enum':
        return {'t': 'enum', 'members': tree['members']}
    if t == 'array':
        return dict(tree, elem=erase(tree['elem']))
    if t == 'tuple':
        return dict(tree, elems=[erase(e) for e in tree['elems']])
    if t == 'struct':
        return dict(tree, members=[[k, erase(m)] for k, m in tree['members']])
    return dict(tree)


def annotate(rng, tree, units, fmts):
    """plain tree -> annotated tree with drawn units / format strings / enum names"""
    t = tree['t']
    if t in ('double', 'scaled'):
        return dict(tree, unit=rng.choice(units), fmt=rng.choice(fmts))
    if t == 'enum':
        return dict(tree, name=rng.choice(['', 'e', 'Status', 'mode']))
    if t == 'array':
        return dict(tree, elem=annotate(rng, tree['elem'], units, fmts))
    if t == 'tuple':
        return dict(tree, elems=[annotate(rng, e, units, fmts) for e in tree['elems']])
    if t == 'struct':
        return dict(tree, members=[[k, annotate(rng, m, units, fmts)] for k, m in tree['members']])
    return dict(tree)


def subtrees(tree, path=()):
    yield path, tree
    t = tree['t']
    if t == 'array':
        yield from subtrees(tree['elem'], path + ('elem',))
    elif t == 'tuple':
        for i, e in enumerate(tree['elems']):
            yield from subtrees(e, path + (i,))
    elif t == 'struct':
        for k, m in tree['members']:
            yield from subtrees(m, path + (k,))


def strip_cls(tree):
    """the kind tree of a tree with class marks (what the datatype is described as)"""
    t = tree['t']
    out = {k: v for k, v in tree.items() if k != 'cls'}
    if t == 'array':
        out['elem'] = strip_cls(tree['elem'])
    elif t == 'tuple':
        out['elems'] = [strip_cls(e) for e in tree['elems']]
    elif t == 'struct':
        out['members'] = [[k, strip_cls(m)] for k, m in tree['members']]
    return out


def classes(tree):
    """the class marks occurring in a tree"""
    return sorted(set(sub['cls'] for _, sub in subtrees(tree) if sub.get('cls')))


def node_kind(tree):
    """class mark, or kind, of the root"""
    return tree.get('cls') or tree['t']


def skeleton(tree):
    """the classes of a tree, kinds and properties left out (`Skel` of Variants.lean)"""
    t, cls = tree['t'], tree.get('cls')
    if cls == 'text':
        return 'text'
    if cls == 'status':
        return 'status'
    if cls == 'limits':
        return {'limits': skeleton(tree['elems'][0])}
    if t == 'array':
        return {'array': skeleton(tree['elem'])}
    if t == 'tuple':
        return {'tuple': [skeleton(e) for e in tree['elems']]}
    if t == 'struct':
        return {'struct': [[k, skeleton(m)] for k, m in tree['members']]}
    return 'leaf'
