"""delta-debugging shrinker over lists"""


def ddmin(items, fails, max_tests=400):
    """smallest sublist (by greedy chunk removal) for which fails(sublist) is still true"""
    items = list(items)
    n = 2
    tests = 0
    while len(items) >= 2 and tests < max_tests:
        chunk = max(1, len(items) // n)
        reduced = False
        for i in range(0, len(items), chunk):
            cand = items[:i] + items[i + chunk:]
            tests += 1
            try:
                bad = bool(cand) and fails(cand)
            except Exception:
                bad = False
            if bad:
                items = cand
                n = max(n - 1, 2)
                reduced = True
                break
            if tests >= max_tests:
                break
        if not reduced:
            if chunk == 1:
                break
            n = min(len(items), n * 2)
    return items
