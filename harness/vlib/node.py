"""Build a real frappy SecNode + Dispatcher + modules without `Server` (no daemon, no interfaces, no poll threads
unless asked), the way `Server._processCfg` does it.

    node = Node({'m': {'cls': MyClass, 'description': 'x', 'p': {'value': 1}}})
    conn = node.connect()                       # a recording connection
    reply = node.request(conn, 'change', 'm:p', 5)   # -> ('changed', 'm:p', [...]) or ('error_change', 'm:p', [cls, text, {}])
    conn.msgs                                   # everything sent to the connection (updates, log messages)

Facts learnt in the design spikes: the pinned tree has no version source (get_version is patched); module cfg dicts
need {'value': x} for parameters; `remove_connection` needs a real RemoteLogHandler somewhere up the logger tree.
"""
import itertools
import logging

_counter = itertools.count(1)


def patch_version():
    import frappy.secnode
    import frappy.protocol.discovery
    frappy.secnode.get_version = lambda *a, **k: '0.0.0-verif'
    frappy.protocol.discovery.get_version = lambda *a, **k: '0.0.0-verif'


class Conn:
    """connection object as the dispatcher sees it: everything sent asynchronously is recorded"""

    def __init__(self, cid, sched=None):
        self.cid = cid
        self.msgs = []
        self.sched = sched       # with a scheduler, sending is a yield point (the real handler takes its send lock)

    def send_reply(self, msg):
        if self.sched is not None:
            self.sched.yield_(('send', self.cid))
        self.msgs.append(msg)

    def __repr__(self):
        return f'Conn({self.cid})'


class Srv:
    """what modules, SecNode and Dispatcher expect from the server object"""
    restart = None
    shutdown = None

    def __init__(self, module_cfg):
        self.module_cfg = module_cfg
        self.secnode = None
        self.dispatcher = None


def error_class(exc):
    """SECoP error class name the request loop would report for this exception (handler.py / errors.py)"""
    from frappy.errors import SECoPError, InternalError
    if isinstance(exc, SECoPError):
        return exc.name
    return InternalError.name


class Node:
    def __init__(self, module_cfg, name='node', description='test node', omit_unchanged_within=None, init=True,
                 general=None):
        import mlzlog
        from frappy.lib import generalConfig
        from frappy.logging import RemoteLogHandler
        from frappy.secnode import SecNode
        from frappy.protocol.dispatcher import Dispatcher
        patch_version()
        opts = dict(general or {})
        if omit_unchanged_within is not None:
            opts['omit_unchanged_within'] = omit_unchanged_within
        generalConfig.testinit(**opts)
        self.root = mlzlog.MLZLogger('fv%d' % next(_counter))
        self.root.setLevel(logging.DEBUG)
        self.loghandler = RemoteLogHandler()
        self.root.addHandler(self.loghandler)
        self.log = self.root.getChild(name)
        self.srv = Srv({k: dict(v) for k, v in module_cfg.items()})
        self.secnode = self.srv.secnode = SecNode(name, self.log.getChild('secnode'), {}, self.srv)
        self.dispatcher = self.srv.dispatcher = Dispatcher(name, self.log.getChild('dispatcher'), {}, self.srv)
        self.secnode.add_secnode_property('description', description)
        self.conns = {}
        if init:
            self.secnode.create_modules()
            self.secnode.get_descriptive_data('')      # initialises every exported module (as Server does)
        self.errors = self.secnode.errors

    @property
    def modules(self):
        return self.secnode.modules

    def connect(self, cid=None, sched=None):
        cid = cid if cid is not None else len(self.conns) + 1
        c = Conn(cid, sched)
        self.conns[cid] = c
        self.dispatcher.add_connection(c)
        return c

    def disconnect(self, conn):
        self.dispatcher.remove_connection(conn)
        self.conns.pop(conn.cid, None)

    def request(self, conn, action, specifier=None, data=None):
        """what `handler.py` does with one decoded request: reply triple, or the error triple it would send"""
        try:
            reply = self.dispatcher.handle_request(conn, (action, specifier, data))
            return reply
        except Exception as e:  # the request loop turns every exception into an error report
            return ('error_' + (action if action != '*IDN?' else 'ident'), specifier,
                    [error_class(e), type(e).__name__, {}])

    def describe(self):
        return self.secnode.get_descriptive_data('')


def reply_class(reply):
    """observation of a reply triple: ('ok', action) or ('error', secop class, python class)"""
    if reply is None:
        return ('none',)
    if reply[0].startswith('error_'):
        return ('error', reply[2][0], reply[2][1])
    return ('ok', reply[0])
