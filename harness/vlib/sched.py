"""Deterministic thread scheduler with a virtual clock (DESIGN.md 3.6 / 3.7).

Real `threading.Thread`s are gated so that exactly one managed thread runs at a time.  frappy's module-level names
(`threading`, `time`, `queue`, `mkthread`, `Event`, `RLock`, …) are replaced *from outside* (attribute assignment on the
imported frappy modules) by the scheduler-aware objects below.  Every primitive call is a yield point BEFORE its effect;
a schedule is the list of thread choices made at yield points, so a run is a function of (program, schedule) and replays
exactly.  When every thread is blocked the clock jumps to the earliest time-out; with none left it is a deadlock (an
observation).  `time()` advances by one tick per read (the real poll loop spins when a due time equals `now`).
Primitives used while no managed thread is current (module construction from the harness thread) act immediately.

    s = Scheduler(policy=ReplayThenDefault([0, 1, 1]))
    with s.patched(frappy.modulebase, threading=s.threading, time=s.time, mkthread=s.mkthread):
        s.spawn('updater', func, args)
        s.spawn('handler', func2)
        out = s.run()            # {'deadlock': bool, 'steps': n, 'errors': {...}, 'aborted': bool}
    s.trace      -> [(thread, label), ...]      s.choices -> [(n_enabled, chosen_index, default_index), ...]
"""
import contextlib
import itertools
import queue as _queue
import threading as _threading
import time as _time
import types


class SchedAbort(BaseException):
    """raised inside managed threads to unwind them when a run is aborted (deadlock, step limit)"""


class TState:
    def __init__(self, sched, name, index):
        self.sched = sched
        self.name = name
        self.index = index
        self.sem = _threading.Semaphore(0)
        self.status = 'new'      # new | ready | blocked | done
        self.cond = None         # callable: may the blocked thread continue?
        self.deadline = None     # virtual time at which a blocked thread times out
        self.label = None
        self.error = None
        self.real = None
        self.daemon = True

    def __repr__(self):
        return f'<T {self.name} {self.status}>'


# ------------------------------------------------------------------ policies
class Policy:
    """chooses the next thread among the enabled ones; `default` is the index of the non-preempting choice"""

    def choose(self, enabled, default, step, labels):
        return default


class ReplayThenDefault(Policy):
    """follow a recorded list of choices (indices into the enabled list), then never preempt"""

    def __init__(self, choices):
        self.choices = list(choices)

    def choose(self, enabled, default, step, labels):
        if step < len(self.choices):
            c = self.choices[step]
            if 0 <= c < len(enabled):
                return c
        return default


class RandomPolicy(Policy):
    def __init__(self, rng, preempt_prob=0.3):
        self.rng = rng
        self.p = preempt_prob

    def choose(self, enabled, default, step, labels):
        if len(enabled) > 1 and self.rng.random() < self.p:
            return self.rng.randrange(len(enabled))
        return default


# ------------------------------------------------------------------ scheduler
class Scheduler:
    TICK = 1e-6

    def __init__(self, policy=None, start_time=1000.0, max_steps=20000, line_level=()):
        self.policy = policy or Policy()
        self.now = float(start_time)
        self.max_steps = max_steps
        self.threads = []
        self.by_ident = {}
        self.current = None
        self.trace = []
        self.choices = []
        self.steps = 0
        self.deadlock = False
        self.aborting = False
        self.abort_reason = None
        self._done = _threading.Event()
        self._names = itertools.count(1)
        self._glock = _threading.Lock()
        self.log = []             # free-form observation log: sched.note(...)
        # module stand-ins
        self.threading = _FakeThreading(self)
        self.time = _FakeTime(self)
        self.queue = _FakeQueueModule(self)

    # ---- naming / notes
    def autoname(self, kind):
        return f'{kind}#{next(self._names)}'

    def note(self, *item):
        self.log.append((round(self.now, 6), self.me().name if self.me() else None) + item)

    # ---- thread identity
    def me(self):
        return self.by_ident.get(_threading.get_ident())

    def managed(self):
        t = self.me()
        return t is not None and t is self.current and not self.aborting

    # ---- creating threads
    def spawn(self, name, func, args=(), kwargs=None, daemon=True):
        ts = TState(self, name, len(self.threads))
        ts.daemon = daemon
        self.threads.append(ts)

        def boot():
            self.by_ident[_threading.get_ident()] = ts
            ts.sem.acquire()
            try:
                if self.aborting:
                    raise SchedAbort()
                func(*args, **(kwargs or {}))
            except SchedAbort:
                pass
            except BaseException as e:  # noqa: an exception escaping a thread is an observation
                ts.error = e
            finally:
                ts.status = 'done'
                self._finish(ts)

        ts.real = _threading.Thread(target=boot, name=name, daemon=True)
        ts.status = 'ready'
        ts.real.start()
        return ts

    def mkthread(self, func, *args, **kwds):
        """stand-in for frappy.lib.mkthread"""
        name = getattr(func, '__name__', 'thread').lstrip('_')
        base = name
        n = 1
        while any(t.name == name for t in self.threads):
            n += 1
            name = f'{base}{n}'
        ts = self.spawn(name, func, args, kwds)
        return _ThreadHandle(self, ts)

    # ---- the core: switching
    def _enabled(self):
        return [t for t in self.threads if t.status == 'ready' or (t.status == 'blocked' and t.cond is not None and t.cond())]

    def _pick(self, prev):
        """choose the next thread to run; returns None when everything is finished/deadlocked"""
        while True:
            live = [t for t in self.threads if t.status != 'done']
            if not live:
                return None
            enabled = self._enabled()
            if not enabled:
                deadlines = [t.deadline for t in live if t.status == 'blocked' and t.deadline is not None]
                if not deadlines:
                    self.deadlock = True
                    return None
                self.now = max(self.now, min(deadlines))
                for t in live:
                    if t.status == 'blocked' and t.deadline is not None and t.deadline <= self.now:
                        t.status = 'ready'      # timed out
                        t.cond = None
                continue
            default = enabled.index(prev) if prev in enabled else 0
            labels = [t.label for t in enabled]
            if len(enabled) > 1:
                c = self.policy.choose(enabled, default, len(self.choices), labels)
                self.choices.append((len(enabled), c, default))
            else:
                c = 0
            return enabled[c]

    def _switch(self, me):
        """called by the running thread `me` at a yield point / when blocking / when done"""
        self.steps += 1
        if self.steps > self.max_steps and not self.aborting:
            self._abort('step limit')
        if self.aborting:
            if me.status != 'done':
                raise SchedAbort()
            return
        nxt = self._pick(me)
        if nxt is None:
            if self.deadlock:
                self._abort('deadlock')
                if me.status != 'done':
                    raise SchedAbort()
            else:
                self._done.set()
            return
        self.current = nxt
        if nxt is me:
            if me.status == 'blocked':
                me.status = 'ready'
            return
        if nxt.status == 'blocked':
            nxt.status = 'ready'
        nxt.sem.release()
        if me.status != 'done':
            me.sem.acquire()
            if self.aborting:
                raise SchedAbort()

    def _finish(self, ts):
        if self.aborting:
            if all(t.status == 'done' for t in self.threads):
                self._done.set()
            return
        try:
            self._switch(ts)
        except SchedAbort:
            pass
        if all(t.status == 'done' for t in self.threads):
            self._done.set()

    def _abort(self, reason):
        self.aborting = True
        self.abort_reason = reason
        for t in self.threads:
            if t.status != 'done':
                t.sem.release()
        self._done.set()

    def stop(self, reason='stopped'):
        """end the run from inside a managed thread (e.g. the program under test called sys.exit while daemon threads
        are still looping): every other thread is unwound with SchedAbort; the caller simply returns afterwards"""
        if not self.aborting:
            self._abort(reason)

    # ---- API for primitives
    def yield_(self, label):
        me = self.me()
        if me is None or me is not self.current:
            return
        if self.aborting:
            raise SchedAbort()
        me.label = label
        self.trace.append((me.name, label))
        me.status = 'ready'
        self._switch(me)

    def block(self, label, cond, timeout=None):
        """wait until cond() holds (-> True) or the virtual timeout elapses (-> False)"""
        me = self.me()
        if me is None or me is not self.current:
            # unmanaged context: cannot wait; evaluate once
            return bool(cond())
        if self.aborting:
            raise SchedAbort()
        if cond():
            return True
        if timeout is not None and timeout <= 0:
            return False
        me.label = label
        me.status = 'blocked'
        me.cond = cond
        me.deadline = None if timeout is None else self.now + timeout
        self._switch(me)
        me.cond = None
        me.deadline = None
        return bool(cond())

    # ---- running
    def run(self, wall_timeout=30.0):
        """start scheduling; returns when all managed threads are done, on deadlock or at the step limit"""
        first = self._pick(None)
        if first is None:
            return self.result()
        self.current = first
        first.sem.release()
        ok = self._done.wait(wall_timeout)
        if not ok:
            self._abort('wall timeout')
        # let threads unwind
        for t in self.threads:
            t.real.join(2.0)
        return self.result()

    def result(self):
        return {
            'deadlock': self.deadlock,
            'aborted': self.abort_reason,
            'steps': self.steps,
            'errors': {t.name: type(t.error).__name__ for t in self.threads if t.error is not None},
            'alive': [t.name for t in self.threads if t.status != 'done'],
            'now': self.now,
        }

    # ---- patching helper
    @contextlib.contextmanager
    def patched(self, module, **names):
        saved = {}
        missing = object()
        for k, v in names.items():
            saved[k] = getattr(module, k, missing)
            setattr(module, k, v)
        try:
            yield
        finally:
            for k, v in saved.items():
                if v is missing:
                    delattr(module, k)
                else:
                    setattr(module, k, v)


# ------------------------------------------------------------------ primitives
class _ThreadHandle:
    """what mkthread / threading.Thread return"""

    def __init__(self, sched, ts=None, target=None, args=(), kwargs=None, name=None, daemon=None):
        self.sched = sched
        self.ts = ts
        self._target = target
        self._args = args
        self._kwargs = kwargs or {}
        self.name = name or (ts.name if ts else sched.autoname('Thread'))
        self.daemon = True if daemon is None else daemon

    def start(self):
        self.sched.yield_(('thread.start', self.name))
        self.ts = self.sched.spawn(self.name, self._target, self._args, self._kwargs, self.daemon)

    def run(self):
        if self._target:
            self._target(*self._args, **self._kwargs)

    def is_alive(self):
        return self.ts is not None and self.ts.status != 'done'

    def join(self, timeout=None):
        self.sched.yield_(('thread.join', self.name))
        if self.ts is None:
            raise RuntimeError('cannot join thread before it is started')
        if self.ts is self.sched.me():
            raise RuntimeError('cannot join current thread')
        self.sched.block(('thread.join.wait', self.name), lambda: self.ts.status == 'done', timeout)

    def setDaemon(self, flag):
        self.daemon = flag

    # added for C11: `self._connthread == current_thread()` must compare the threads, not the handles
    def __eq__(self, other):
        if isinstance(other, _ThreadHandle):
            return self.ts is not None and self.ts is other.ts or self is other
        return NotImplemented

    def __hash__(self):
        return id(self.ts) if self.ts is not None else id(self)

    @property
    def ident(self):
        return self.ts.index + 1 if self.ts else None


class SLock:
    def __init__(self, sched, name=None, reentrant=False):
        self.sched = sched
        self.name = name or sched.autoname('RLock' if reentrant else 'Lock')
        self.reentrant = reentrant
        self.owner = None
        self.depth = 0

    def _who(self):
        return self.sched.me() or 'main'

    def _free_for(self, who):
        return self.owner is None or (self.reentrant and self.owner is who)

    def acquire(self, blocking=True, timeout=-1):
        who = self._who()
        self.sched.yield_(('acquire', self.name))
        if not self._free_for(who):
            if not blocking:
                return False
            if who == 'main' or not self.sched.managed():
                raise RuntimeError(f'{self.name}: would block outside the scheduler (held by {self.owner})')
            ok = self.sched.block(('acquire.wait', self.name), lambda: self._free_for(who),
                                  None if timeout is None or timeout < 0 else timeout)
            if not ok:
                return False
        self.owner = who
        self.depth += 1
        return True

    def release(self):
        who = self._who()
        if self.owner is not who and self.reentrant:
            raise RuntimeError('cannot release un-acquired lock')
        if self.owner is None:
            raise RuntimeError('release unlocked lock')
        self.sched.yield_(('release', self.name))
        self.depth -= 1
        if self.depth == 0:
            self.owner = None

    def locked(self):
        return self.owner is not None

    def _is_owned(self):
        return self.owner is self._who()

    __enter__ = acquire

    def __exit__(self, *exc):
        self.release()
        return False


class SEvent:
    def __init__(self, sched, name=None):
        self.sched = sched
        self.name = name or sched.autoname('Event')
        self.flag = False

    def is_set(self):
        return self.flag

    isSet = is_set

    def set(self):
        self.sched.yield_(('event.set', self.name))
        self.flag = True

    def clear(self):
        self.sched.yield_(('event.clear', self.name))
        self.flag = False

    def wait(self, timeout=None):
        self.sched.yield_(('event.wait', self.name, timeout))
        if self.flag:
            return True
        return self.sched.block(('event.wait.block', self.name), lambda: self.flag, timeout)


class SQueue:
    def __init__(self, sched, maxsize=0, name=None):
        self.sched = sched
        self.name = name or sched.autoname('Queue')
        self.maxsize = maxsize
        self.items = []
        self.unfinished = 0

    def qsize(self):
        return len(self.items)

    def empty(self):
        return not self.items

    def full(self):
        return 0 < self.maxsize <= len(self.items)

    def put(self, item, block=True, timeout=None):
        self.sched.yield_(('queue.put', self.name))
        if self.full():
            if not block:
                raise _queue.Full
            if not self.sched.block(('queue.put.wait', self.name), lambda: not self.full(), timeout):
                raise _queue.Full
        self.items.append(item)
        self.unfinished += 1

    def put_nowait(self, item):
        return self.put(item, block=False)

    def get(self, block=True, timeout=None):
        self.sched.yield_(('queue.get', self.name))
        if not self.items:
            if not block:
                raise _queue.Empty
            if not self.sched.block(('queue.get.wait', self.name), lambda: bool(self.items), timeout):
                raise _queue.Empty
        return self.items.pop(0)

    def get_nowait(self):
        return self.get(block=False)

    def task_done(self):
        self.unfinished -= 1

    def join(self):
        self.sched.block(('queue.join', self.name), lambda: self.unfinished <= 0, None)


class YieldAttr:
    """(added for C18) data descriptor that makes every load and every store of an instance attribute a yield point, so
    that a read-modify-write (`obj.a += 1`: LOAD_ATTR ... STORE_ATTR, two bytecodes) can be preempted between the two,
    as the interpreter may do it.  Install on the class inside a patch:
        with s.patched(Cls, counter=YieldAttr(s, 'counter', Cls.counter)): ...
    the values live in the instance `__dict__` under another key; on the class itself the default is returned."""

    def __init__(self, sched, name, default=None):
        self.sched = sched
        self.name = name
        self.key = '_yieldattr_' + name
        self.default = default

    def __get__(self, obj, owner=None):
        if obj is None:
            return self.default
        self.sched.yield_(('load', self.name))
        return obj.__dict__.get(self.key, self.default)

    def __set__(self, obj, value):
        self.sched.yield_(('store', self.name))
        obj.__dict__[self.key] = value


class _FakeThreading:
    """stand-in for the `threading` module"""

    def __init__(self, sched):
        self.sched = sched
        self.TIMEOUT_MAX = _threading.TIMEOUT_MAX

    def Lock(self):
        return SLock(self.sched)

    def RLock(self):
        return SLock(self.sched, reentrant=True)

    def Event(self):
        return SEvent(self.sched)

    def Thread(self, group=None, target=None, name=None, args=(), kwargs=None, daemon=None):
        return _ThreadHandle(self.sched, None, target, args, kwargs, name, daemon)

    def current_thread(self):
        me = self.sched.me()
        if me is None:
            return _threading.current_thread()
        return _ThreadHandle(self.sched, me)

    currentThread = current_thread

    def get_ident(self):
        me = self.sched.me()
        return me.index + 1 if me else 0

    def main_thread(self):
        return _threading.main_thread()


class _FakeTime:
    """stand-in for the `time` module; also callable as `currenttime`"""

    def __init__(self, sched):
        self.sched = sched
        for name in ('strftime', 'localtime', 'gmtime', 'mktime', 'struct_time', 'strptime', 'asctime', 'ctime'):
            setattr(self, name, getattr(_time, name))

    def time(self):
        s = self.sched
        s.now += s.TICK
        return s.now

    monotonic = time
    perf_counter = time

    def __call__(self):
        return self.time()

    def sleep(self, dt):
        s = self.sched
        s.yield_(('sleep', dt))
        if dt and dt > 0:
            if s.managed():
                s.block(('sleep.wait', dt), lambda: False, dt)
            else:
                s.now += dt


class _FakeQueueModule:
    Empty = _queue.Empty
    Full = _queue.Full

    def __init__(self, sched):
        self.sched = sched

    def Queue(self, maxsize=0):
        return SQueue(self.sched, maxsize)


# ------------------------------------------------------------------ systematic exploration
def explore(make_run, max_preemptions=2, max_runs=2000, rng=None):
    """Stateless exploration of schedules.

    make_run(policy) must build a fresh program, run it under a Scheduler(policy=policy) and return
    (scheduler, observation).  Schedules are enumerated depth-first by prefix: a run is replayed up to a choice point,
    a different enabled thread is chosen there (a *preemption* when the default choice was available), the rest follows
    the non-preempting default.  Yields (choices_prefix, scheduler, observation) for every run.
    """
    seen = set()
    stack = [[]]
    runs = 0
    while stack and runs < max_runs:
        prefix = stack.pop()
        key = tuple(prefix)
        if key in seen:
            continue
        seen.add(key)
        sched, obs = make_run(ReplayThenDefault(prefix))
        runs += 1
        yield prefix, sched, obs
        # children: change one choice at position >= len(prefix)
        used = sum(1 for i, c in enumerate(prefix) if i < len(sched.choices) and c != sched.choices[i][2])
        if used >= max_preemptions:
            continue
        children = []
        for pos in range(len(prefix), len(sched.choices)):
            n, chosen, default = sched.choices[pos]
            base = [sched.choices[i][1] for i in range(pos)]
            for alt in range(n):
                if alt != chosen:
                    children.append(base + [alt])
        if rng is not None:
            rng.shuffle(children)
        stack.extend(reversed(children))
