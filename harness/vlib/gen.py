"""Generators for datatype trees and candidate values (DESIGN §3.6).  Everything is drawn from the `rng` handed in.

Trees are the JSON trees of `vlib.dtcodec`; the real datatype objects are built from them through the repository's own
constructors (`dtcodec.tree_to_dt`), so a tree the constructors refuse never reaches a check.

Streams of candidates for a tree:
  valid      built from the value set itself (limit values, grid points far from zero, empty/maximal containers, every enum
             member by value and by name, non-ASCII / quote / backslash / newline strings, all byte values)
  subst      every JSON/Python kind substituted at every position of a valid value (enumerated, sampled above a cap)
  boundary   numbers just inside / just outside the limits and the tolerance band, huge and tiny magnitudes, NaN, ±inf
  shape      wrong lengths, wrong arity, unknown / missing / None-valued struct members
Candidates are *Python* values; `wire=True` candidates are what `json.loads` can produce (lists, dicts, str, numbers,
None), `wire=False` ones may also hold tuples, bytes and EnumMembers (values handed over by a driver).
"""
import base64
import math
import sys

from vlib import dtcodec
from vlib.dtcodec import bits2f, enum_member

FMAX = sys.float_info.max
UNLIMITED = 1 << 64

FLOAT_CAT = [0.0, 1.0, -1.0, 2.0, -2.0, 2.0 ** 24, -2.0 ** 24, 2.0 ** 53, -2.0 ** 53, 2.0 ** 63, -2.0 ** 63, FMAX, -FMAX,
             5e-324, 0.5, -0.5, 1.5, 2.5, 0.1, 100.0, 1e-3, 1e10, 1e300, -1e300]
INT_CAT = [0, 1, -1, 2, -2, 2 ** 24, -2 ** 24, 2 ** 53, -2 ** 53, 2 ** 63, -2 ** 63, 2 ** 64, -2 ** 64, 7, 100, 255]
SCALES = [0.1, 0.25, 1.0, 1e-3, 7.0]
NAMES = ['a', 'b', 'c', 'x1', 'ä']
ENUM_NAMES = ['a', 'b', 'idle', 'busy', 'on', 'off', 'x y', 'ü', '1']
ENUM_VALUES = [-1, 0, 1, 2, 3, 5, 100, 300, 2 ** 31, -2 ** 31, -7, 2 ** 53 + 1]
ASCII_POOL = ['a', 'Z', '0', ' ', '"', '\\', '\n', '\t', "'", '~', '\x7f', '\x01']
UTF8_POOL = ['ü', '€', '\U0001d11e', ' ', 'é']

LEAF_KINDS = ['double', 'int', 'scaled', 'bool', 'enum', 'string', 'blob']
CONTAINER_KINDS = ['array', 'tuple', 'struct']


def fj(x):
    return dtcodec.fj(x)


# ---------------------------------------------------------------------------------------------
# trees
# ---------------------------------------------------------------------------------------------
def gen_leaf(rng, kind, small=False):
    if kind == 'double':
        r = rng.random()
        if r < 0.25:
            lo, hi = -FMAX, FMAX
        elif r < 0.4:
            lo = hi = rng.choice(FLOAT_CAT)                      # degenerate
        else:
            lo, hi = sorted(rng.sample(FLOAT_CAT, 2))
            if rng.random() < 0.3:
                lo = rng.choice([lo, -FMAX])
            if rng.random() < 0.3:
                hi = rng.choice([hi, FMAX])
        ar = rng.choice([0.0, 0.0, 0.5, 1e-3, 1.0, 5e-324])
        rr = rng.choice([1.2e-7, 1.2e-7, 0.0, 0.01, 0.5])
        return {'t': 'double', 'min': fj(lo), 'max': fj(hi), 'ar': fj(ar), 'rr': fj(rr)}
    if kind == 'int':
        r = rng.random()
        if r < 0.25:
            lo, hi = -16777216, 16777216
        elif r < 0.4:
            lo = hi = rng.choice(INT_CAT)
        else:
            lo, hi = sorted(rng.sample(INT_CAT, 2))
        return {'t': 'int', 'min': lo, 'max': hi}
    if kind == 'scaled':
        scale = rng.choice(SCALES)
        r = rng.random()
        if r < 0.2:
            lo, hi = -16777216 * scale, 16777216 * scale
        elif r < 0.35:
            k = rng.choice([0, 1, -3, 10, 2 ** 24])
            lo = hi = k * scale
        elif r < 0.5:
            lo, hi = rng.choice([(0.05, 0.07), (0.0, 0.3), (-0.35, 0.35), (1.0, 1.5), (0.26, 0.74)])   # not grid aligned
        elif r < 0.6:
            k = rng.choice([2 ** 31, 2 ** 45, 2 ** 53, 2 ** 55 + 2 ** 20, 3 * 2 ** 58, 2 ** 62])   # far from zero: grid law region / beyond
            lo, hi = sorted([-k * scale * rng.choice([0, 1]), k * scale])
        else:
            a, b = sorted(rng.sample([0, 1, -1, 5, -5, 10, 100, -100, 1000, 2 ** 24, -2 ** 24], 2))
            lo, hi = a * scale, b * scale
        ar = rng.choice([scale, scale, 0.0, 0.5])
        rr = rng.choice([1.2e-7, 0.0, 0.01])
        return {'t': 'scaled', 'scale': fj(scale), 'min': fj(lo), 'max': fj(hi), 'ar': fj(ar), 'rr': fj(rr)}
    if kind == 'bool':
        return {'t': 'bool'}
    if kind == 'enum':
        n = rng.choice([1, 2, 2, 3, 3, 5])
        names = rng.sample(ENUM_NAMES, n)
        values = rng.sample(ENUM_VALUES, n)
        members = sorted(zip(names, values), key=lambda kv: kv[1])       # Enum.members is sorted by value
        return {'t': 'enum', 'members': [[k, v] for k, v in members]}
    if kind == 'string':
        lo, hi = rng.choice([(0, UNLIMITED), (0, UNLIMITED), (0, 0), (3, 3), (0, 5), (2, 10), (1, 1)])
        return {'t': 'string', 'min': lo, 'max': hi, 'utf8': rng.random() < 0.5}
    if kind == 'blob':
        lo, hi = rng.choice([(0, 255), (0, 0), (4, 4), (1, 8), (0, 3), (2, 300)])
        return {'t': 'blob', 'min': lo, 'max': hi}
    raise ValueError(kind)


def gen_tree(rng, maxdepth, kind=None):
    """a datatype tree of depth <= maxdepth"""
    if kind is None:
        if maxdepth <= 1:
            kind = rng.choice(LEAF_KINDS)
        else:
            kind = rng.choice(LEAF_KINDS + CONTAINER_KINDS * 3)
    if kind in LEAF_KINDS:
        return gen_leaf(rng, kind)
    d = maxdepth - 1
    if kind == 'array':
        lo, hi = rng.choice([(0, 3), (1, 1), (0, 0), (2, 5), (0, 100), (0, 2), (3, 3)])
        return {'t': 'array', 'elem': gen_tree(rng, d), 'min': lo, 'max': hi}
    if kind == 'tuple':
        n = rng.choice([1, 2, 2, 3])
        return {'t': 'tuple', 'elems': [gen_tree(rng, d if i == 0 else rng.randint(1, d)) for i in range(n)]}
    if kind == 'struct':
        n = rng.choice([1, 2, 2, 3])
        names = rng.sample(NAMES, n)
        members = [[k, gen_tree(rng, d if i == 0 else rng.randint(1, d))] for i, k in enumerate(names)]
        r = rng.random()
        if r < 0.4:
            optional = list(names)            # the constructor's default: every member optional
        elif r < 0.7:
            optional = []
        else:
            optional = [k for k in names if rng.random() < 0.5]
        return {'t': 'struct', 'members': members, 'optional': optional, 'client': rng.random() < 0.2}
    raise ValueError(kind)


def all_kind_trees(rng, maxdepth):
    """one tree per root kind (so that every kind occurs in every run)"""
    return [gen_tree(rng, maxdepth if k in CONTAINER_KINDS else 1, k) for k in LEAF_KINDS + CONTAINER_KINDS]


STRING_LIMITS = [(2, 4), (3, 3), (2, 10), (4, 6), (1, 3), (5, 8), (1, 2), (6, 6)]
BLOB_LIMITS = [(2, 4), (3, 3), (1, 8), (4, 6), (5, 5)]


def length_limited_trees(rng, n):
    """n trees whose point is a string / blob leaf with a non-trivial minimum AND maximum length (both character sets
    for strings), at the root or one level down in each container kind - the length clause of the value set"""
    out = []
    for i in range(n):
        if i % 4 == 3:
            lo, hi = rng.choice(BLOB_LIMITS)
            leaf = {'t': 'blob', 'min': lo, 'max': hi}
        else:
            lo, hi = rng.choice(STRING_LIMITS)
            leaf = {'t': 'string', 'min': lo, 'max': hi, 'utf8': i % 4 != 2}
        wrap = rng.choice(['root', 'root', 'array', 'tuple', 'struct'])
        if wrap == 'array':
            leaf = {'t': 'array', 'elem': leaf, 'min': 0, 'max': 3}
        elif wrap == 'tuple':
            leaf = {'t': 'tuple', 'elems': [gen_leaf(rng, rng.choice(['int', 'bool', 'enum'])), leaf]}
        elif wrap == 'struct':
            leaf = {'t': 'struct', 'members': [['a', leaf], ['b', gen_leaf(rng, 'int')]], 'optional': rng.choice([[], ['b'], ['a', 'b']]),
                    'client': False}
        out.append(leaf)
    return out


def extreme_scaled_trees(rng, n):
    """n scaled types (at the root or in an array) at the ends of the float range: limits at +-max (their grid value may
    overflow - then every value is refused), limits / scale beyond the float range, a huge scale, the smallest scale"""
    cat = [(7.0, -FMAX, 0.0), (3.0, 0.0, FMAX), (0.1, -FMAX, FMAX), (1e-3, -1e300, 1e300), (1e300, -FMAX, FMAX),
           (1e300, 0.0, 1e301), (5e-324, 0.0, 5e-323), (5e-324, -1.0, 1.0), (1e-5, 0.0, 1e304), (2.0 ** 970, -FMAX, FMAX),
           (0.25, -2.0 ** 1022, 2.0 ** 1022), (1.0, -FMAX, FMAX)]
    out = []
    for _ in range(n):
        scale, lo, hi = rng.choice(cat)
        leaf = {'t': 'scaled', 'scale': fj(scale), 'min': fj(lo), 'max': fj(hi), 'ar': fj(rng.choice([scale, 0.0])),
                'rr': fj(rng.choice([1.2e-7, 0.0]))}
        out.append(leaf if rng.random() < 0.7 else {'t': 'array', 'elem': leaf, 'min': 0, 'max': 2})
    return out


# ---------------------------------------------------------------------------------------------
# valid values (Python side, canonical form: what validation returns)
# ---------------------------------------------------------------------------------------------
def _f(j):
    return bits2f(j['f'])


def grid_bounds(tree):
    scale = _f(tree['scale'])
    try:
        return int(round(_f(tree['min']) / scale)), int(round(_f(tree['max']) / scale))
    except (OverflowError, ValueError):
        return None


def gen_string(rng, tree, n=None):
    lo, hi = tree['min'], min(tree['max'], tree['min'] + 12)
    if n is None:
        n = rng.choice([lo, hi, rng.randint(lo, hi)])
    pool = ASCII_POOL + (UTF8_POOL * 2 if tree['utf8'] else [])
    return ''.join(rng.choice(pool) for _ in range(n))


def gen_bytes(rng, tree, n=None):
    lo, hi = tree['min'], min(tree['max'], tree['min'] + 40)
    if n is None:
        n = rng.choice([lo, hi, rng.randint(lo, hi)])
    start = rng.randrange(256)
    if rng.random() < 0.5:
        return bytes((start + i) % 256 for i in range(n))      # runs through all byte values over the cases
    return bytes(rng.randrange(256) for _ in range(n))


def gen_valid(rng, tree):
    """a value of the declared value set, in canonical form; None when the set is (practically) empty"""
    t = tree['t']
    if t == 'double':
        lo, hi = _f(tree['min']), _f(tree['max'])
        cands = [lo, hi]
        if lo <= 0.0 <= hi:
            cands.append(0.0)
        mid = lo / 2 + hi / 2
        if lo <= mid <= hi:
            cands.append(mid)
        for c in FLOAT_CAT:
            if lo <= c <= hi:
                cands.append(c)
        u = rng.random()
        x = lo + (hi - lo) * u if math.isfinite(hi - lo) else (lo * (1 - u) + hi * u)
        if lo <= x <= hi:
            cands.append(x)
        return rng.choice(cands)
    if t == 'int':
        lo, hi = tree['min'], tree['max']
        cands = [lo, hi, (lo + hi) // 2, rng.randint(lo, hi)]
        cands += [c for c in INT_CAT if lo <= c <= hi]
        return rng.choice(cands)
    if t == 'scaled':
        kb = grid_bounds(tree)
        if kb is None or kb[0] > kb[1]:
            return None
        klo, khi = kb
        cands = [klo, khi, (klo + khi) // 2, rng.randint(klo, khi)]
        if klo <= 0 <= khi:
            cands.append(0)
        k = rng.choice(cands)
        try:
            x = float(k * _f(tree['scale']))
        except OverflowError:
            return None
        return x if math.isfinite(x) else None
    if t == 'bool':
        return rng.random() < 0.5
    if t == 'enum':
        name, value = rng.choice(tree['members'])
        return enum_member(name, value)
    if t == 'string':
        return gen_string(rng, tree)
    if t == 'blob':
        return gen_bytes(rng, tree)
    if t == 'array':
        lo, hi = tree['min'], min(tree['max'], tree['min'] + 4)
        n = rng.choice([lo, hi, rng.randint(lo, hi)])
        items = [gen_valid(rng, tree['elem']) for _ in range(n)]
        if any(x is None for x in items):
            return () if lo == 0 else None
        return tuple(items)
    if t == 'tuple':
        items = [gen_valid(rng, e) for e in tree['elems']]
        if any(x is None for x in items):
            return None
        return tuple(items)
    if t == 'struct':
        res = {}
        full = rng.random() < 0.5
        for k, m in tree['members']:
            if k in tree['optional'] and not full and rng.random() < 0.5:
                continue
            v = gen_valid(rng, m)
            if v is None:
                if k in tree['optional']:
                    continue
                return None
            res[k] = v
        return res
    raise ValueError(t)


# ---------------------------------------------------------------------------------------------
# the same value as it is offered: wire form / driver form
# ---------------------------------------------------------------------------------------------
def to_wire(rng, tree, v):
    """a JSON value (as json.loads gives it) that denotes the canonical value v"""
    t = tree['t']
    if t == 'double':
        if v == int(v) and abs(v) < 2 ** 53 and rng.random() < 0.3:
            return int(v)
        return v
    if t == 'int':
        r = rng.random()
        if r < 0.15 and abs(v) < 2 ** 53:
            return float(v)
        if r < 0.25 and v in (0, 1):
            return bool(v)
        return v
    if t == 'scaled':
        k = int(round(v / _f(tree['scale'])))
        if rng.random() < 0.15 and abs(k) < 2 ** 53:
            return float(k)
        return k
    if t == 'bool':
        return v
    if t == 'enum':
        return v.name if rng.random() < 0.4 else int(v.value)
    if t == 'string':
        return v
    if t == 'blob':
        return base64.b64encode(v).decode('ascii')
    if t == 'array':
        return [to_wire(rng, tree['elem'], x) for x in v]
    if t == 'tuple':
        return [to_wire(rng, e, x) for e, x in zip(tree['elems'], v)]
    if t == 'struct':
        md = dict((k, m) for k, m in tree['members'])
        items = list(v.items())
        if rng.random() < 0.3:
            rng.shuffle(items)
        return {k: to_wire(rng, md[k], x) for k, x in items}
    raise ValueError(t)


def to_driver(rng, tree, v):
    """a Python value, as a driver might hand it over, that denotes the canonical value v"""
    t = tree['t']
    if t == 'double':
        r = rng.random()
        if v == int(v) and abs(v) < 2 ** 53 and r < 0.3:
            return int(v)
        return v
    if t == 'int':
        r = rng.random()
        if r < 0.15 and abs(v) < 2 ** 53:
            return float(v)
        if r < 0.25 and v in (0, 1):
            return bool(v)
        return v
    if t == 'scaled':
        return v
    if t == 'bool':
        r = rng.random()
        return int(v) if r < 0.2 else float(v) if r < 0.3 else v
    if t == 'enum':
        r = rng.random()
        return v if r < 0.4 else v.name if r < 0.7 else int(v.value)
    if t in ('string', 'blob'):
        return v
    if t == 'array':
        items = [to_driver(rng, tree['elem'], x) for x in v]
        return items if rng.random() < 0.5 else tuple(items)
    if t == 'tuple':
        items = [to_driver(rng, e, x) for e, x in zip(tree['elems'], v)]
        return items if rng.random() < 0.5 else tuple(items)
    if t == 'struct':
        md = dict((k, m) for k, m in tree['members'])
        items = list(v.items())
        if rng.random() < 0.3:
            rng.shuffle(items)
        res = {k: to_driver(rng, md[k], x) for k, x in items}
        if rng.random() < 0.15:
            for k, _ in tree['members']:
                if k not in res and k in tree['optional']:
                    res[k] = None              # "goodie: allow None instead of missing key"
        return res
    raise ValueError(t)


# ---------------------------------------------------------------------------------------------
# positions and substitution
# ---------------------------------------------------------------------------------------------
def positions(v, path=()):
    """all paths into a value (containers: list/tuple by index, dict by key)"""
    yield path
    if isinstance(v, (list, tuple)):
        for i, x in enumerate(v):
            yield from positions(x, path + (i,))
    elif isinstance(v, dict):
        for k, x in v.items():
            yield from positions(x, path + (k,))


def subst(v, path, new):
    if not path:
        return new
    h, rest = path[0], path[1:]
    if isinstance(v, tuple):
        return tuple(subst(x, rest, new) if i == h else x for i, x in enumerate(v))
    if isinstance(v, list):
        return [subst(x, rest, new) if i == h else x for i, x in enumerate(v)]
    if isinstance(v, dict):
        return {k: (subst(x, rest, new) if k == h else x) for k, x in v.items()}
    raise ValueError('bad path')


NAN = float('nan')
INF = float('inf')

WIRE_KINDS = [None, True, False, 0, 1, -1, 7, 2 ** 70, 10 ** 400, 1.0, 1.5, -0.0, NAN, INF, -INF, 1e308, '', 'a', 'abc', '5', 'YWJj',
              'a!b@c#=d', 'a\x00b', '\x00', 'YQ=', 'YR==', [], [1], [1, 2, 3], ['a'], [['a', 1]], {}, {'a': 1}, {'zz': None}]
DRIVER_KINDS = WIRE_KINDS + [b'', b'ab', b'abc', (), (1,), (1, 2), ('a',), enum_member('a', 1), enum_member('zz', 77),
                             enum_member('off', 0)]


def kind_name(v):
    from frappy.lib.enum import EnumMember
    if isinstance(v, EnumMember):
        return 'enum'
    if isinstance(v, float):
        return 'nan' if v != v else 'inf' if v in (INF, -INF) else 'float'
    return type(v).__name__


def subst_candidates(rng, value, wire, cap):
    """every kind at every position of `value` (sampled down to `cap`)"""
    kinds = WIRE_KINDS if wire else DRIVER_KINDS
    pos = list(positions(value))
    pairs = [(p, k) for p in pos for k in range(len(kinds))]
    if len(pairs) > cap:
        pairs = rng.sample(pairs, cap)
    return [subst(value, p, kinds[k]) for p, k in pairs]


# ---------------------------------------------------------------------------------------------
# boundary numbers for a numeric leaf
# ---------------------------------------------------------------------------------------------
def _nextafter(x, d):
    return math.nextafter(x, d)


def boundary_numbers(rng, tree):
    """Python numbers around the limits / tolerance band of a numeric leaf (candidates for both sides)"""
    t = tree['t']
    out = []
    if t == 'double':
        lo, hi = _f(tree['min']), _f(tree['max'])
        ar, rr = _f(tree['ar']), _f(tree['rr'])
        for lim, sign in ((lo, -1), (hi, 1)):
            prec = max(abs(lim * rr), ar)
            for d in (0.0, prec * 0.5, prec, prec * 1.0000001, prec * 2, 1.0):
                x = lim + sign * d
                out += [x, _nextafter(x, INF), _nextafter(x, -INF)]
        out += [NAN, INF, -INF, FMAX, -FMAX, 5e-324, -5e-324, -0.0, 2 ** 53 + 1, -(2 ** 63), 10 ** 400, True, False]
    elif t == 'int':
        lo, hi = tree['min'], tree['max']
        out += [lo, hi, lo - 1, hi + 1, lo + 1, hi - 1, float(lo), float(hi), lo - 0.5, hi + 0.5, lo + 0.5,
                float(hi) + 1.0, float(lo) - 1.0, NAN, INF, -INF, 2 ** 53 + 1, float(2 ** 53), 1e300, 10 ** 400,
                -10 ** 400, -0.0, True, False, 1.0000000000000002, 0.9999999999999999]
    elif t == 'scaled':
        lo, hi, s = _f(tree['min']), _f(tree['max']), _f(tree['scale'])
        for lim, sign in ((lo, -1), (hi, 1)):
            for d in (0.0, s * 0.25, s * 0.5, s * 0.75, s, s * 1.5, 2 * s):
                x = lim + sign * d
                out += [x, _nextafter(x, INF), _nextafter(x, -INF), lim - sign * d]
        out += [NAN, INF, -INF, FMAX, -FMAX, 5e-324, -0.0, 0.5 * s, 1.5 * s, 2.5 * s, -0.5 * s, 1e308, True, False, 10 ** 400]
    return out


def boundary_wire_ints(tree):
    """wire-side integers around the grid limits of a scaled leaf"""
    kb = grid_bounds(tree)
    if kb is None:
        return [0, 1, -1]
    klo, khi = kb
    return [klo, khi, klo - 1, khi + 1, klo - 2, khi + 2, float(klo), float(khi), klo - 0.5, khi + 0.5, 2 ** 70, -2 ** 70]


def leaf_paths(tree, value, kinds):
    """(path, leaf tree) of the leaves of the given kinds present in a valid (canonical / wire) value"""
    t = tree['t']
    if t in kinds:
        yield (), tree
    elif t == 'array':
        for i, x in enumerate(value):
            for p, lt in leaf_paths(tree['elem'], x, kinds):
                yield (i,) + p, lt
    elif t == 'tuple':
        for i, (e, x) in enumerate(zip(tree['elems'], value)):
            for p, lt in leaf_paths(e, x, kinds):
                yield (i,) + p, lt
    elif t == 'struct':
        md = dict((k, m) for k, m in tree['members'])
        for k, x in value.items():
            if x is not None:
                for p, lt in leaf_paths(md[k], x, kinds):
                    yield (k,) + p, lt


SPECIAL_CHARS = ['\x00', '\x01', '\x7f', '\x80', '\xff', '\ud7ff', '\ue000', '\uffff', '\U00010000', '\U0010ffff', '"', '\\', '\n']


# characters (or short sequences) for which the measures "code points", "UTF-8 bytes", "UTF-16 code units",
# "characters after normalisation / case mapping" differ: (text, code points)
WIDE_UNITS = [('\xfc', 1),            # 2 bytes in UTF-8
              ('\u20ac', 1),          # 3 bytes
              ('\U0001d11e', 1),      # 4 bytes, 2 UTF-16 code units
              ('e\u0301', 2),         # 2 code points, 1 character after NFC
              ('\ufb01', 1),          # 1 code point, 2 after NFKC ('fi')
              ('\xdf', 1)]            # 1 code point, 2 after upper() / casefold() ('ss')


def unit_variants(rng, lengths):
    """strings with exactly n code points (n = each boundary length) whose length in any other unit (encoded bytes,
    UTF-16 code units, normalised characters) differs from n: one wide unit in an ASCII string at a random position
    (other measure = n + 1 .. n + 3, or n - 1), and only wide units (other measure = 2n .. 4n, or n / 2)"""
    out = []
    for n in lengths:
        for text, cp in WIDE_UNITS:
            if n >= cp:
                k = rng.randrange(n - cp + 1)
                out.append('x' * k + text + 'x' * (n - cp - k))
            if n >= 2 * cp:
                out.append(text * (n // cp) + 'x' * (n % cp))
    return out


def length_variants(rng, lt, wire, grouped=False):
    """strings / blobs of length exactly min-1, min, min+1, max-1, max, max+1 (ASCII), the same numbers of code points
    made of characters whose length differs in other units (`unit_variants`), and strings of a valid length holding
    one special character (NUL, DEL, first non-ASCII, U+FFFF, the characters around the surrogate block, astral).
    grouped=True: the list of these groups (so that a caller can draw from every group)"""
    lo, hi = lt['min'], lt['max']
    lengths = sorted({n for n in (lo - 1, lo, lo + 1, hi - 1, hi, hi + 1) if 0 <= n <= 400})
    groups = []
    if lt['t'] == 'blob':
        out = []
        for n in lengths:
            b = bytes((n + i) % 256 for i in range(n))
            out.append(base64.b64encode(b).decode('ascii') if wire else b)
        groups.append(out)
        if wire:
            groups.append(['=' * 4, 'QQ', 'QUI', 'QUJD\n', ' QUJD', 'QUJD=', 'QQ==QQ==', 'QUJ-'])
    else:
        groups.append(['x' * n for n in lengths])
        groups.append(unit_variants(rng, [n for n in lengths if n <= 40]))
        n = lo if lo > 0 else min(hi, 3)
        out = []
        for ch in SPECIAL_CHARS:
            if n >= 1:
                k = rng.randrange(n)
                out.append('a' * k + ch + 'a' * (n - k - 1))
        groups.append(out)
    groups = [g for g in groups if g]
    return groups if grouped else [x for g in groups for x in g]


def numeric_leaf_paths(tree, value):
    """(path, leaf tree) of the numeric leaves actually present in a valid (canonical / wire) value"""
    t = tree['t']
    if t in ('double', 'int', 'scaled'):
        yield (), tree
    elif t == 'array':
        for i, x in enumerate(value):
            for p, lt in numeric_leaf_paths(tree['elem'], x):
                yield (i,) + p, lt
    elif t == 'tuple':
        for i, (e, x) in enumerate(zip(tree['elems'], value)):
            for p, lt in numeric_leaf_paths(e, x):
                yield (i,) + p, lt
    elif t == 'struct':
        md = dict((k, m) for k, m in tree['members'])
        for k, x in value.items():
            if x is not None:
                for p, lt in numeric_leaf_paths(md[k], x):
                    yield (k,) + p, lt


# ---------------------------------------------------------------------------------------------
# shape errors
# ---------------------------------------------------------------------------------------------
def container_paths(tree, value):
    t = tree['t']
    if t == 'array':
        yield (), tree
        for i, x in enumerate(value):
            for p, lt in container_paths(tree['elem'], x):
                yield (i,) + p, lt
    elif t == 'tuple':
        yield (), tree
        for i, (e, x) in enumerate(zip(tree['elems'], value)):
            for p, lt in container_paths(e, x):
                yield (i,) + p, lt
    elif t == 'struct':
        yield (), tree
        md = dict((k, m) for k, m in tree['members'])
        for k, x in value.items():
            if x is not None:
                for p, lt in container_paths(md[k], x):
                    yield (k,) + p, lt


def get_at(v, path):
    for h in path:
        v = v[h]
    return v


def shape_variants(rng, tree, value):
    """wrong lengths / arity / members at every container position of a valid offered value"""
    out = []
    for path, ct in container_paths(tree, value):
        sub = get_at(value, path)
        t = ct['t']
        if t in ('array', 'tuple'):
            seq = list(sub)
            mk = (lambda l: tuple(l)) if isinstance(sub, tuple) else (lambda l: list(l))
            variants = []
            if seq:
                variants += [seq[:-1], seq + [seq[-1]], seq + seq, seq[1:]]
            variants += [seq + [None], []]
            if t == 'array':
                fill = seq[0] if seq else 0
                variants += [[fill] * (ct['max'] + 1) if ct['max'] < 50 else seq, [fill] * max(ct['min'] - 1, 0),
                             [fill] * ct['min'], [fill] * min(ct['max'], 6)]
            for var in variants:
                out.append(subst(value, path, mk(var)))
        else:
            d = dict(sub)
            names = [k for k, _ in ct['members']]
            variants = []
            for k in names:
                if k in d:
                    variants.append({x: y for x, y in d.items() if x != k})            # member missing
                    variants.append({x: (None if x == k else y) for x, y in d.items()})  # member None
                else:
                    variants.append(dict(d, **{k: None}))
            variants.append(dict(d, zz=1))                                              # unknown member
            variants.append(dict(d, **{'': 0}))
            variants.append({})
            variants.append({k: None for k in names})
            for var in variants:
                out.append(subst(value, path, var))
    return out


# ---------------------------------------------------------------------------------------------
# previous values
# ---------------------------------------------------------------------------------------------
ODD_PREVIOUS = [5, 0, True, 0.0, 1.5, 'ab', '', b'x', {'a': 1}, {}, [1], [], (), (None,), [None, None, None, None, None, None]]


def gen_previous(rng, tree):
    """a value the parameter may currently hold (canonical form), or None"""
    r = rng.random()
    if r < 0.4:
        return None
    prev = gen_valid(rng, tree)
    if prev is None:
        return None
    if tree['t'] == 'struct' and rng.random() < 0.6:
        # complete struct
        md = dict((k, m) for k, m in tree['members'])
        full = dict(prev)
        for k, m in tree['members']:
            if k not in full:
                v = gen_valid(rng, m)
                if v is not None:
                    full[k] = v
        prev = full
    return prev


# ---------------------------------------------------------------------------------------------
# previous values a parameter may hold, candidates built relative to the previous value
# ---------------------------------------------------------------------------------------------
def all_leaf_paths(tree, value):
    return leaf_paths(tree, value, ('double', 'int', 'scaled', 'bool', 'enum', 'string', 'blob'))


def push_outside(rng, tree, valid):
    """a value of the right shape with one or several numeric leaves moved outside the limits (what a driver may
    report: `dt(value)` converts but does not check limits); Python-side form, to be passed through `dt(...)`"""
    leaves = [(p, lt) for p, lt in all_leaf_paths(tree, valid) if lt['t'] in ('double', 'int', 'scaled')]
    if not leaves:
        return None
    v = valid
    for path, lt in rng.sample(leaves, rng.choice([1, 1, 2]) if len(leaves) > 1 else 1):
        if lt['t'] == 'int':
            x = rng.choice([lt['max'] + 1, lt['min'] - 1, lt['max'] + 100, lt['min'] - 2 ** 20])
        else:
            lo, hi = _f(lt['min']), _f(lt['max'])
            span = max(abs(lo), abs(hi), 1.0)
            x = rng.choice([hi + span, lo - span, hi * 2 + 1, lo * 2 - 1, hi + 2.5 * _f(lt.get('scale', fj(1.0))),
                            lo - 3 * _f(lt.get('scale', fj(1.0)))])
            if not math.isfinite(x):
                continue
        v = subst(v, path, x)
    return v


def text_forms(rng, x):
    """the number / code `x` written as text, the ways int() / float() / a lenient parser would still read it: "a JSON
    string taken as a number" at a leaf that holds exactly that number"""
    if isinstance(x, bool):
        return [str(x), str(x).lower(), str(int(x))]
    forms = [str(x), ' %s' % x, '%s\n' % x, '+%s' % x if x >= 0 else '%s ' % x]
    if isinstance(x, int):
        forms += ['%d.0' % x, '%de0' % x, '%#x' % x, '0%d' % x if x >= 0 else '-0%d' % -x, '%d_0' % x]
    else:
        forms += [repr(x), '%g' % x, '%.3f' % x]
    return [rng.choice(forms[:2]), rng.choice(forms[2:])]


def leaf_relatives(rng, lt, pv, wire):
    """offers that are (or look) numerically equal to the leaf value `pv` held, of another kind, or just beside it"""
    out = _leaf_relatives(rng, lt, pv, wire)
    t = lt['t']
    try:
        if t == 'enum':
            out += text_forms(rng, int(pv.value))
        elif t == 'int':
            out += text_forms(rng, int(pv))
        elif t == 'bool':
            out += text_forms(rng, bool(pv))
        elif t == 'double' or (t == 'scaled' and not wire):
            out += text_forms(rng, float(pv))
        elif t == 'scaled':
            out += text_forms(rng, int(round(float(pv) / _f(lt['scale']))))
    except (OverflowError, ValueError):
        pass
    return out


def _leaf_relatives(rng, lt, pv, wire):
    t = lt['t']
    out = []
    if t == 'enum':
        k = int(pv.value)
        out += [k + 0.5, k + 0.999, k - 0.25, float(k), k, pv.name, k + 1e-9]
        if k in (0, 1):
            out.append(bool(k))
        if not wire:
            out += [pv, enum_member('zz', k)]
    elif t == 'int':
        k = int(pv)
        out += [k, k + 0.5, k + 0.999, k - 0.5]
        if abs(k) < 2 ** 53:
            out.append(float(k))
        if k in (0, 1):
            out.append(bool(k))
    elif t == 'double':
        x = float(pv)
        out += [x, _nextafter(x, INF), _nextafter(x, -INF)]
        if x == int(x) and abs(x) < 2 ** 53:
            out.append(int(x))
            if x in (0.0, 1.0):
                out.append(bool(x))
    elif t == 'scaled':
        s = _f(lt['scale'])
        x = float(pv)
        if wire:
            try:
                k = int(round(x / s))
                out += [k, float(k) if abs(k) < 2 ** 53 else k, k + 0.5, k + 1]
            except (OverflowError, ValueError):
                pass
        else:
            out += [x, x + 0.3 * s, x - 0.49 * s, x + s]
    elif t == 'bool':
        out += [bool(pv), int(pv), float(pv), int(pv) + 0.5]
    elif t == 'blob':
        out += [base64.b64encode(pv).decode('ascii') if wire else pv]
    else:
        out += [pv]
    return out


def relative_candidates(rng, tree, prev, wire, n):
    """candidates derived from the value the parameter holds: the same value (in offered form), and the same value
    with one or several leaves replaced by an equal-looking offer of another kind / a neighbour"""
    def offered(t, v):          # canonical -> offered form, structure only
        k = t['t']
        if k == 'array':
            items = [offered(t['elem'], x) for x in v]
            return items if wire or rng.random() < 0.5 else tuple(items)
        if k == 'tuple':
            items = [offered(e, x) for e, x in zip(t['elems'], v)]
            return items if wire or rng.random() < 0.5 else tuple(items)
        if k == 'struct':
            md = dict((kk, m) for kk, m in t['members'])
            return {kk: offered(md[kk], x) for kk, x in v.items() if kk in md}
        rel = leaf_relatives(rng, t, v, wire)
        return rel[0] if k not in ('enum',) else (int(v.value) if wire or rng.random() < 0.5 else v)
    try:
        base = offered(tree, prev)
    except Exception:
        return []
    out = [base]
    leaves = list(all_leaf_paths(tree, prev))
    if not leaves:
        return out
    for _ in range(n):
        cand = base
        for path, lt in rng.sample(leaves, min(len(leaves), rng.choice([1, 1, 1, 2, 3]))):
            try:
                pv = get_at(prev, path)
                rel = leaf_relatives(rng, lt, pv, wire)
            except Exception:
                continue
            cand = subst(cand, path, rng.choice(rel))
        out.append(cand)
    # partial structs: a member left out (to be taken over from the value held), at any struct position
    for path, ct in container_paths(tree, prev):
        if ct['t'] == 'struct':
            sub = get_at(base, path)
            if isinstance(sub, dict) and sub:
                k = rng.choice(list(sub))
                out.append(subst(base, path, {kk: x for kk, x in sub.items() if kk != k}))
                out.append(subst(base, path, {kk: (None if kk == k else x) for kk, x in sub.items()}))
    # equal-length permutation / rotation at the root
    if isinstance(base, (list, tuple)) and len(base) > 1:
        rot = list(base[1:]) + [base[0]]
        out.append(rot if isinstance(base, list) else tuple(rot))
    return out


# ---------------------------------------------------------------------------------------------
# candidates of unusual SIZE (many members / elements / characters / digits, deep nesting)
# ---------------------------------------------------------------------------------------------
# The other streams offer every KIND at every position, but only in small instances (containers of at most three
# members, short strings, integers of at most 400 digits).  Code on the refusal path - the helpers that build the
# error text, the wrappers that re-raise - sees every candidate, so it has to be total for candidates of every size.
# A big value is described by a *recipe* (so that a case whose value cannot travel as JSON text - an int beyond the
# str-conversion digit limit, nesting beyond the recursion limit - can still be written to a replay file).
SIZE_CAT = [9, 17, 33, 41, 64, 100, 129, 257, 1000]
SIZE_CAT_BIG = SIZE_CAT + [4096, 10007, 65537]
DIGIT_CAT = [17, 100, 400, 1000, 4299, 4300, 4301, 5000, 20000]      # decimal digits of an int (10**n has n+1)
DEPTH_CAT = [5, 20, 60]
DEPTH_CAT_UNMODELLED = [900, 1100, 3000]                                 # around and beyond the recursion limit
SIZE_ELEMS = [0, 1, -1, 7, 1.5, True, None, 'a', '', 'abc']


def _elem(rng, i, mixed):
    return SIZE_ELEMS[(i * 7 + mixed) % len(SIZE_ELEMS)] if mixed else i


def build_big(recipe):
    """the value a recipe (a JSON-able list) describes"""
    kind, n = recipe[0], recipe[1]
    if kind == 'object':            # JSON object / dict with n members
        return {'k%d' % i: _elem(None, i, recipe[2]) for i in range(n)}
    if kind == 'object-of-objects':
        return {'k%d' % i: {'a': i} for i in range(n)}
    if kind == 'array':             # JSON array / list with n elements
        return [_elem(None, i, recipe[2]) for i in range(n)]
    if kind == 'tuple':
        return tuple(_elem(None, i, recipe[2]) for i in range(n))
    if kind == 'array-of-arrays':
        return [[i, 'a'] for i in range(n)]
    if kind == 'array-of-pairs':    # what dict() accepts
        return [['k%d' % i, i] for i in range(n)]
    if kind == 'string':
        unit = recipe[2]
        return (unit * (n // len(unit) + 1))[:n]
    if kind == 'bytes':
        return bytes(i % 256 for i in range(n))
    if kind == 'int':               # n+1 decimal digits
        return recipe[2] * 10 ** n
    if kind == 'nest-array':        # [[[...]]] n levels deep
        v = recipe[2]
        for _ in range(n):
            v = [v]
        return v
    if kind == 'nest-tuple':
        v = recipe[2]
        for _ in range(n):
            v = (v,)
        return v
    if kind == 'nest-object':
        v = recipe[2]
        for _ in range(n):
            v = {'a': v}
        return v
    raise ValueError('bad recipe %r' % (recipe,))


def recipe_travels(recipe):
    """can the value of this recipe be written as JSON text (to the Lean side, to a replay file)?  An int with more
    digits than the interpreter's str-conversion limit and a value nested deeper than the encoders recurse can not."""
    kind, n = recipe[0], recipe[1]
    if kind == 'int':
        return n + 1 <= 4300
    if kind.startswith('nest-'):
        return n <= max(DEPTH_CAT)
    return True


def big_recipes(rng, wire, big=False):
    """one recipe of every family, sizes drawn from the catalogues (`wire`: only what json.loads can produce)"""
    # the very big sizes only now and then (thorough tier): a run holds all its cases in memory
    n = lambda: rng.choice(SIZE_CAT_BIG[len(SIZE_CAT):]) if big and rng.random() < 0.01 else rng.choice(SIZE_CAT)
    mixed = lambda: rng.choice([0, 1, 2, 3])
    out = [['object', n(), mixed()], ['object', n(), 0], ['object-of-objects', n()],
           ['array', n(), mixed()], ['array', n(), 0], ['array-of-arrays', n()], ['array-of-pairs', n()],
           ['string', n() * rng.choice([1, 1, 10]), rng.choice(['x', 'ab', 'ü', '€', '5', '\U0001d11e', 'YWJj', ' '])],
           ['int', rng.choice([d for d in DIGIT_CAT if not wire or d + 1 <= 4300]), rng.choice([1, -1])],
           ['nest-array', rng.choice(DEPTH_CAT), rng.choice([1, 'a', None])],
           ['nest-object', rng.choice(DEPTH_CAT), rng.choice([1, 'a', None])]]
    if not wire:
        out += [['tuple', n(), mixed()], ['bytes', n()], ['nest-tuple', rng.choice(DEPTH_CAT), 1],
                ['int', rng.choice(DIGIT_CAT), rng.choice([1, -1])],
                [rng.choice(['nest-array', 'nest-tuple', 'nest-object']), rng.choice(DEPTH_CAT_UNMODELLED), 1]]
    return out


def size_candidates(rng, value, wire, cap, big=False):
    """[(path, recipe)]: a value of unusual size (`build_big(recipe)`) for a position of `value`; `cap` recipes of
    different families, the first one at the root, the others spread over the positions"""
    pos = list(positions(value))
    recipes = big_recipes(rng, wire, big)
    rng.shuffle(recipes)
    out = []
    for i, rec in enumerate(recipes[:cap]):
        p = pos[(i * 3 + rng.randrange(len(pos))) % len(pos)] if i else ()
        if i == 1 and len(pos) > 1:
            p = rng.choice(pos[1:])
        out.append((p, rec))
    return out


# what a command function / a driver hands back when it has no answer (a missing `return` on one branch, a `dict.get`
# miss, an empty reply of the hardware): offered at the result position of every command of the result stream
NO_ANSWER = [None, '', b'', (), [], {}, 0, False, 0.0, NAN, 'None', 'null']
