"""Scripted devices behind `frappy.lib.asynconn.AsynConn` (C16).

Only the LOWEST layer is faked: `FakeConn` is a concrete `AsynConn` subclass registered for the scheme `fake`
(`AsynConn.__new__` dispatches on `SCHEME_MAP`, so `frappy.io` needs no patch); it implements `recv / send /
flush_recv / disconnect` over a scripted `Device`, the way `AsynTcp` implements them over a socket.  The REAL
`AsynConn.readline / readbytes` (receive buffer, line splitting, time-outs) stay in play.

A device lives in virtual time (`vlib.sched.Scheduler`): blocking reads are scheduler blocking points.

    dev = Device(sched, log, 'dev', script)       # registers fake://dev
    script = {
      'eol': '\n',                       # appended by the device to every reply ('' for byte devices)
      'cmds': {'A': {'reply': 'a1', 'delay': 0.2, 'chunks': [1, 2], 'gap': 0.05}, 'S': {'reply': None}},
                                         # 'reply' may be a list: the k-th answer to that command (last element repeated)
      'default': {'reply': '{cmd}!', 'delay': 0.0},            # for commands not listed (None: silence)
      'unsolicited': [[1.5, 'junk\n'], ...],   # bytes the device emits by itself, seconds after the connect
      'close': {'send': 3, 'phase': 'before' | 'after_cmd' | 'mid_reply' | 'after_reply'} | {'at': 2.5} | None,
                                          # the device closes the connection (counts sends over all connections)
      'close2': {'at': 1.0},             # the device closes the SECOND connection that long after it was made
      'refuse': [1, 2],                  # connect attempts (0-based, over the whole run) that are refused
    }

All strings are latin-1 images of bytes.  Events are appended to `log` (a `Log`), see `Log.add`.
"""
from frappy.errors import CommunicationFailedError
from frappy.lib.asynconn import AsynConn, ConnectionClosed

DEVICES = {}


class Log:
    """time-stamped event log shared by the device, the connections and the harness instrumentation.

    Every event is a dict {'e': kind, 't': microseconds since start, 'who': thread name, ...}; `sorted()` merges
    the device's future arrivals into arrival order (time, then creation order)."""

    def __init__(self, sched):
        self.sched = sched
        self.t0 = sched.now
        self.items = []

    def us(self, t=None):
        return int(round(((self.sched.now if t is None else t) - self.t0) * 1e6))

    def who(self):
        me = self.sched.me()
        return me.name if me is not None else 'main'

    def sync(self, label):
        """a scheduling point of its own for an event a thread performs on shared state (otherwise the code between two
        lock operations would be atomic for the scheduler and races inside it could never be explored).  Call it BEFORE
        the effect is performed and logged (or AFTER both, for effects observed through a callback)."""
        if self.sched.managed():
            self.sched.yield_((label,))

    def add(self, e, t=None, **kw):
        tf = self.sched.now if t is None else t
        ev = {'e': e, 't': self.us(tf), 'tf': tf, 'who': kw.pop('who', None) or self.who(), 'seq': len(self.items)}
        ev.update(kw)
        self.items.append(ev)
        return ev

    def sorted(self):
        return sorted((ev for ev in self.items if not ev.get('dropped')), key=lambda ev: (ev['tf'], ev['seq']))


class Chan:
    """device -> host byte channel of one connection: FIFO of (arrival time, bytes) plus an end-of-file time"""

    def __init__(self, cid):
        self.cid = cid
        self.items = []         # [t_arrival, data, log event]
        self.last = 0.0
        self.open = True        # host side
        self.eof_at = None
        self.busy_until = 0.0   # the device answers one command after the other

    def put(self, t, data, ev=None):
        """enqueue bytes leaving the device at time t (kept in time order; equal times in emission order)"""
        if self.eof_at is not None and t >= self.eof_at:
            return None         # the device has closed before these bytes left it
        i = len(self.items)
        while i > 0 and self.items[i - 1][0] > t:
            i -= 1
        self.items.insert(i, [t, data, ev])
        self.last = max(self.last, t)
        return t

    def close_at(self, t):
        """the device closes at time t: bytes that would have left it later are never sent"""
        self.eof_at = t
        for it in self.items:
            if it[0] > t and it[2] is not None:
                it[2]['dropped'] = True
        self.items = [it for it in self.items if it[0] <= t]
        self.last = max([it[0] for it in self.items] + [0.0])

    def readable(self, now):
        return (bool(self.items) and self.items[0][0] <= now) or (self.eof_at is not None and self.eof_at <= now)

    def next_time(self):
        if self.items:
            return self.items[0][0]
        return self.eof_at


class Device:
    def __init__(self, sched, log, name, script):
        self.sched = sched
        self.log = log
        self.name = name
        self.uri = 'fake://' + name
        self.script = script
        self.eol = script.get('eol', '\n').encode('latin-1')
        self.nconnect = 0
        self.nsend = 0
        self.chans = []
        self.uses = {}          # command -> number of times it was answered (for 'reply' given as a list)
        self.send_kind = lambda: 'send'     # the harness may classify sends (e.g. 'isend': made by checkHWIdent)
        DEVICES[self.uri] = self

    def unregister(self):
        DEVICES.pop(self.uri, None)

    # ---- host side entry points -------------------------------------------------------
    def connect(self):
        self.sched.yield_(('connect',))
        i = self.nconnect
        self.nconnect += 1
        cid = len(self.chans)
        if i in set(self.script.get('refuse') or ()):
            self.log.add('connect', ok=False, conn=None, attempt=i)
            raise CommunicationFailedError(f'can not connect to {self.name}, refused')
        ch = Chan(cid)
        self.chans.append(ch)
        self.log.add('connect', ok=True, conn=cid, attempt=i)
        now = self.sched.now
        ch.last = now
        if cid == 0:            # unsolicited output and a timed close are scripted relative to the first connect
            for t, data in self.script.get('unsolicited') or ():
                self._emit(ch, now + t, data.encode('latin-1'), None)
            cl = self.script.get('close')
            if cl and 'at' in cl:
                self._eof(ch, now + cl['at'])
        elif cid == 1 and self.script.get('close2'):     # a second timed close, relative to the second connect
            self._eof(ch, now + self.script['close2']['at'])
        return ch

    def _emit(self, ch, t, data, tag):
        ev = self.log.add('arrive', t=t, who='device', conn=ch.cid, data=data.decode('latin-1'), tag=tag)
        ta = ch.put(t, data, ev)
        if ta is None:
            ev['dropped'] = True
        else:
            ev['t'] = self.log.us(ta)
            ev['tf'] = ta

    def _eof(self, ch, t):
        if ch.eof_at is None:
            ch.close_at(t)
            self.log.add('devclose', t=t, who='device', conn=ch.cid)

    def on_send(self, ch, data):
        n = self.nsend
        self.nsend += 1
        now = self.sched.now
        text = data.decode('latin-1')
        self.log.add(self.send_kind(), conn=ch.cid, data=text, n=n)
        if ch.eof_at is not None and ch.eof_at <= now:
            return              # the device is gone already: the bytes vanish (as a first write to a closed peer)
        cl = self.script.get('close') or {}
        phase = cl.get('phase') if cl.get('send') == n else None
        if phase == 'before':
            self._eof(ch, now)
            return
        cmd = data[:-len(self.eol)] if self.eol and data.endswith(self.eol) else data
        key = cmd.decode('latin-1')
        spec = (self.script.get('cmds') or {}).get(key)
        if spec is None:
            spec = self.script.get('default')
        if phase == 'after_cmd' or spec is None or spec.get('reply') is None:
            if phase is not None:
                self._eof(ch, now)
            return
        rtext = spec['reply']
        if isinstance(rtext, list):       # the k-th time the command is answered: element k (the last one from then on)
            k = self.uses.get(key, 0)
            self.uses[key] = k + 1
            rtext = rtext[min(k, len(rtext) - 1)]
            if rtext is None:
                if phase is not None:
                    self._eof(ch, now)
                return
        reply = rtext.replace('{cmd}', key).replace('{n}', str(n)).encode('latin-1') + self.eol
        chunks = []
        pos = 0
        for s in spec.get('chunks') or ():
            if s > 0 and pos < len(reply):
                chunks.append(reply[pos:pos + s])
                pos += s
        if pos < len(reply):
            chunks.append(reply[pos:])
        t = max(now + float(spec.get('delay') or 0), ch.busy_until)
        tl = t
        gap = float(spec.get('gap') or 0)
        for i, c in enumerate(chunks):
            if phase == 'mid_reply' and i >= max(1, len(chunks) // 2):
                break
            tl = t + i * gap
            self._emit(ch, tl, c, n)
        ch.busy_until = tl
        if phase in ('mid_reply', 'after_reply'):
            self._eof(ch, tl)


class FakeConn(AsynConn):
    """lowest layer only; readline/readbytes are inherited from the real AsynConn"""
    scheme = 'fake'

    def __init__(self, uri, *args, **kwargs):
        super().__init__(uri, *args, **kwargs)
        self.uri = uri
        self.dev = DEVICES[uri]
        self.connection = self.dev.connect()      # raises CommunicationFailedError when refused (as AsynTcp)

    def disconnect(self):
        ch = self.connection
        if ch is not None and ch.open:      # (not when called once more from __del__, at an arbitrary point)
            self.dev.sched.yield_(('hclose',))
            ch = self.connection
        if ch is not None and ch.open:
            ch.open = False
            try:
                self.dev.log.add('hclose', conn=ch.cid)
            except Exception:
                pass
        self.connection = None

    def send(self, data):
        self.dev.sched.yield_(('send',))
        ch = self.connection
        if ch is None or not ch.open:       # closed on our side by another thread meanwhile
            raise OSError('connection closed')
        self.dev.on_send(ch, data)

    def _readable(self):
        return self.connection.readable(self.dev.sched.now)

    def flush_recv(self):
        """as AsynTcp.flush_recv: the buffer plus whatever can be read without waiting"""
        sched = self.dev.sched
        sched.yield_(('flush', self.connection.cid))
        self.dev.log.add('flush', conn=self.connection.cid)
        data = [self._rxbuffer]
        while self._readable():
            data.append(self.recv())
        self._rxbuffer = b''
        return b''.join(data)

    def recv(self):
        """bytes received within self.timeout (b'' on time-out); ConnectionClosed when the device has closed"""
        ch = self.connection
        sched = self.dev.sched
        log = self.dev.log
        end = sched.now + self.timeout
        sched.yield_(('recv', ch.cid))
        while True:
            now = sched.now
            if not ch.open:     # closed on OUR side by another thread meanwhile: as a socket that was shut down
                raise ConnectionClosed()
            if ch.items and ch.items[0][0] <= now:
                data = ch.items.pop(0)[1]
                log.add('recv', conn=ch.cid, out='data', data=data.decode('latin-1'))
                return data
            if ch.eof_at is not None and ch.eof_at <= now:
                log.add('recv', conn=ch.cid, out='closed')
                raise ConnectionClosed()
            remaining = end - now
            if remaining <= 0:
                log.add('recv', conn=ch.cid, out='empty')
                return b''
            nxt = ch.next_time()
            wait = remaining if nxt is None else min(remaining, max(nxt - now, 0.0))
            wait = max(wait, 1e-9)
            if not sched.managed():
                sched.now += wait
                continue
            sched.block(('recv', ch.cid), lambda: ch.readable(sched.now) or not ch.open, wait)
